"""C16 - readspec returns each requested spectrum in request order, unshifted; spec_append (DESIGN §5 C16)."""
import os
import itertools
import numpy as np
from harness import core

ID = 'C16'
LEAN_MODULES = ['PydlVerif.Props.C16']
P = 'PydlVerif.C16.'
THEOREMS = [P + t for t in (
    'key_injective', 'argsort_perm_inverse', 'argsortImpl_isArgsort', 'specAppend_spec', 'specAppend_nothing_dropped',
    'normalize_spec', 'readspec_vec', 'readspec_row_i', 'loglam_rows', 'readspec_tables',
    # extension round: spec_append by sign of the shift / empty blocks, znum=, fiber=None
    'specAppend_shift_neg', 'specAppend_shift_pos', 'specAppend_empty',
    'readspecX_plain', 'readspec_znum_transfer', 'readspec_znum_row', 'readspec_row_i_znum', 'loglam_rows_znum',
    'readspec_tables_znum', 'numberOfFibers_single', 'normalizeAll_single', 'normalizeAll_distinct',
    'readspec_all_fibers_requests', 'readspec_all_fibers', 'all_fibers_layout', 'readspec_all_fibers_plates',
    # extension 2: file-system lookup inside the model (names, glob, regular expression, latest_mjd over a listing),
    # number_of_fibers for vectors, index wrap stated exactly, error theorems, readspec over directory listings
    'fmtD_injective', 'specFileName_injective', 'specFile_injective', 'specPath_injective', 'globMatch_specFileName',
    'reSearch_specFile', 'latestMjd_spec', 'latestMjdFS_eq_latestMjd', 'latestMjdFS_spec', 'latestMjdFS_ignores_unmatched',
    'numberOfFibers_vec', 'rowIndex_cases', 'zIndex_cases', 'readspec_fiber_wrap', 'readspec_missing_file_raises',
    'finish_short_table_raises', 'readspecFS_eq_readspec', 'readspec_row_i_listing', 'readspec_latest_listing',
    'readspec_all_fibers_unfilled_raises', 'readspec_all_fibers_dup_raises', 'latestMjdFS_malformed_raises',
    'readspec_mixed_tables_raise', 'readspecFS_vec', 'readspec_tables_loglam_listing')]
RULE = ('synthetic survey trees written with astropy.io.fits (4 trees per run: complete / spPlate only / mixed spZbest+spZall / '
        '640-fibre plates before MJD 55025; 3-9 plate-MJD files each, repeated plates with different MJD, pixel counts and fibre '
        'counts differing, every cell encoding (file, fibre, pixel, hdu); spZall with 2-4 fits per fibre; platelist.fits with the '
        'row of every file plus rows that must not be picked); request vectors in random / sorted / reversed / grouped / '
        'interleaved order with repeats, vector, scalar, mixed and len-1 calling conventions, mjd given or found by latest_mjd, '
        'run1d by keyword or environment; znum= on every convention (fits that exist, and a few that do not); fiber=None for a '
        'scalar plate, a len-1 vector, several distinct plates, with a scalar MJD, and its error shapes (repeated plate, MJD vector, '
        'plate without files, N_TOTAL beyond the file); error requests (length mismatch, missing file, fibre outside the plate, '
        'fibre <= 0); align= (oracle only); spec_append on random shapes and dtypes and on ALL pairs of blocks up to 2x2 (quick) / '
        '3 rows x 4 pixels (thorough) incl. 0 rows / 0 pixels with shifts -3..3 / -4..4. '
        'Extension 2: a fifth tree whose plate numbers contain one another\'s digits (266 / 2660 / 1266 / 10266 ...) with at least one '
        'plate >= 10000; spec_path on plates of 1-6 digits with path= / topdir (with and without trailing slash); latest_mjd on generated '
        'directories (empty files, decoy plates, files of other kinds, a sub-directory, 12 % with a malformed spPlate name, one directory '
        'or one directory per plate), the model being fed os.listdir; readspec(path=) against the model that forms, globs and opens the '
        'file names itself on os.listdir(tree). '
        'A request is non-trivial when it reaches the grouping / reorder code; distinct = distinct (tree, request) payloads')
TRUSTED = ['hand-written model lean/PydlVerif/Model/SpecOrder.lean + Model/SpecFiles.lean tied to the code by the I/O correspondence of this run',
           'glob.glob / re / os.path.join / str.format of CPython (modelled by globMatch / reSearch / pathJoin / fmtD; the directory listing '
           'the model works on is os.listdir of the directory the real code globs)',
           'astropy.io.fits (writes the synthetic files and reads them inside readspec)',
           'np.argsort returns a sorting permutation (contract IsArgsort, proved for the stand-in used by the driver)',
           'np.unique returns the sorted distinct values (modelled by insertion into a sorted list)']
ASSUMPTIONS = ['every requested plate-MJD has an spPlate file whose 7 HDUs have NAXIS1 pixels and the same number of rows; '
               'spZbest (with znum=: spZall) and photoPlate exist for all requested plate-MJDs or for none',
               '1 <= fibre <= number of rows of the plate; plate >= 0 of any number of digits (>= 10000 included since extension 2); '
               'MJD < 65536 (mjd < 2^16 is what the key needs); file-name theorems: MJD < 100000 (5 digits), the directory name contains '
               'no \'P\' (no earlier match of the regular expression inside the directory part), no glob metacharacters, no trailing slash',
               'znum=k: spZall has nfib*DIMS0 rows (fibre-major) and 1 <= k <= DIMS0',
               'fiber=None: the plates are distinct (theorem readspec_all_fibers: one plate; readspec_all_fibers_plates: any number), '
               'plate vectors are numpy arrays (number_of_fibers needs .shape), number_of_fibers finds a count 1 <= n <= rows of the file '
               '(640 before MJD 55025, else the first row of platelist.fits for plate, latest MJD, RUN2D, RUN1D); the oracle asks for '
               'exactly one such row and for the plates in ascending order (np.unique)',
               '`align` unset (unfinished code, see LEVEL_NOTE; exercised by the oracle only)',
               'spec_append: pixshift is an integer; cells are compared by value (the result has the dtype of spec1)']

IMG_NAMES = ['flux', 'invvar', 'andmask', 'ormask', 'disp', 'sky', 'loglam']   # order of Model.imgHdus
IMG_HDU = [0, 1, 2, 3, 4, 6]
IMG_DT = {0: 'f4', 1: 'f4', 2: 'i4', 3: 'i4', 4: 'f4', 6: 'f4'}
RUN1D = 'r1d'
RUN2D = 'r2d'


# ---------------------------------------------------------------- synthetic survey trees
def code(fileno, fiber, pix, hdu):
    """cell value: never 0, exactly representable in float32, distinct for distinct (file, fibre, pixel, hdu)"""
    return 1 + hdu + 8 * (pix + 32 * (fiber + 32 * fileno))


def tcode(fileno, fiber, tab, col):
    return 1 + col + 16 * (tab + 4 * (fiber + 32 * fileno))


def gen_platelist(rng, files, complete):
    """rows of platelist.fits: one per file under (RUN2D, RUN1D) with N_TOTAL = the number of rows of the file (sometimes
    one less: only the first fibres are asked for; sometimes more: the plate has no such fibre), and rows that must not be
    picked (other run2d / run1d, other MJD).  `complete` False: a file may have no row or two rows."""
    rows = []
    for f in files:
        r = rng.random()
        nt = f['nfib'] if r < 0.7 else max(1, f['nfib'] - 1) if r < 0.9 else f['nfib'] + rng.randint(1, 2)
        if rng.random() < 0.5:
            rows.append({'plate': f['plate'], 'mjd': f['mjd'], 'run2d': RUN2D, 'run1d': 'other', 'ntotal': nt + 1})
        if rng.random() < 0.3:
            rows.append({'plate': f['plate'], 'mjd': f['mjd'], 'run2d': 'v9', 'run1d': RUN1D, 'ntotal': max(1, nt - 1)})
        if rng.random() < 0.3:
            rows.append({'plate': f['plate'], 'mjd': f['mjd'] + 1, 'run2d': RUN2D, 'run1d': RUN1D, 'ntotal': nt + 1})
        k = 1 if complete or rng.random() < 0.7 else rng.choice([0, 2])
        for j in range(k):
            rows.append({'plate': f['plate'], 'mjd': f['mjd'], 'run2d': RUN2D, 'run1d': RUN1D, 'ntotal': max(1, nt - j)})
    rng.shuffle(rows)
    # a re-observed plate: the row of an OLDER night comes first in the table and carries another fibre count - the count that
    # matters is the one of the latest night
    for p in {f['plate'] for f in files}:
        ms = sorted({f['mjd'] for f in files if f['plate'] == p})
        if len(ms) < 2:
            continue
        mine = [i for i, r in enumerate(rows) if r['plate'] == p and r['run2d'] == RUN2D and r['run1d'] == RUN1D]
        late = [i for i in mine if rows[i]['mjd'] == ms[-1]]
        old = [i for i in mine if rows[i]['mjd'] in ms[:-1]]
        if late and old:
            i_old, i_late = old[0], late[0]
            if rows[i_old]['ntotal'] == rows[i_late]['ntotal']:
                rows[i_old]['ntotal'] = max(1, rows[i_late]['ntotal'] - 1) if rows[i_late]['ntotal'] > 1 else 2
            if i_old > i_late:
                rows[i_old], rows[i_late] = rows[i_late], rows[i_old]
    return rows


def gen_sdss_spec(rng):
    """kind 'sdss': plates observed before MJD 55025 have 640 fibres (number_of_fibers does not look them up)"""
    pa, pb = rng.sample(range(1, 10000), 2)
    ma = rng.sample(range(51000, 55025), 2)
    files = [[pa, ma[0]], [pb, rng.randint(51000, 55024)], [pa, ma[1]]]
    rng.shuffle(files)
    out = []
    for k, (p, m) in enumerate(files):
        # 'no' in steps of 32: the cell code stays injective with 640 fibres
        out.append({'plate': p, 'mjd': m, 'no': 32 * k, 'nfib': 640, 'npix': rng.randint(2, 4),
                    'c0': float('%.12g' % rng.uniform(3.3, 3.9)), 'c1': float('%.12g' % rng.uniform(5e-5, 3e-4)),
                    'zbest': True, 'photo': True, 'nper': 2})
    return {'kind': 'sdss', 'files': out, 'platelist': gen_platelist(rng, out, True) if rng.random() < 0.5 else None}


_SPEC_NO = [0]


def gen_tree_spec(rng, kind, thorough):
    """kind: 'full' (spZbest + photoPlate + spZall everywhere), 'bare' (spPlate only), 'mixed' (spZbest / spZall for some
    files only), 'sdss' (640-fibre plates before MJD 55025)"""
    if kind == 'sdss':
        return gen_sdss_spec(rng)
    nplates = rng.randint(3, 4)
    plates = rng.sample(range(1, 10000), nplates)
    if rng.random() < 0.5:
        plates[0] = rng.choice([1, 7, 42, 266, 999])      # leading zeros in the file name
    files = []
    for p in plates:
        k = rng.choice([1, 2, 2, 3])
        for m in rng.sample(range(10000, 65536), k) if rng.random() < 0.3 else rng.sample(range(51000, 58000), k):
            files.append([p, m])
    # make sure that at least one plate is repeated with a different MJD
    if len({p for p, _ in files}) == len(files):
        files.append([files[0][0], files[0][1] + rng.randint(1, 300)])
    rng.shuffle(files)
    files = files[:9]
    _SPEC_NO[0] += 1
    if _SPEC_NO[0] % 2 == 1 or rng.random() < 0.2:
        # the first night of the BOSS spectrographs: MJD 55025 itself is NOT "before MJD 55025" (the fibre count of such a
        # plate comes from platelist.fits, not from the 640 of SDSS-I/II)
        k = rng.randrange(len(files))
        if [files[k][0], 55025] not in files:
            files[k][1] = 55025
    npixs = rng.sample(range(3, 15), min(len(files), 8))
    nper = rng.randint(2, 4)
    out = []
    for k, (p, m) in enumerate(files):
        f = {'plate': p, 'mjd': m, 'no': k, 'nfib': rng.randint(2, 9),
             'npix': npixs[k % len(npixs)] if rng.random() < 0.8 else npixs[0],
             # 12 significant digits: a FITS header card keeps 16, the value on disk must be the value of the spec
             'c0': float('%.12g' % rng.choice([3.5, 3.58, rng.uniform(3.3, 3.9), rng.uniform(0.1, 5)])),
             'c1': float('%.12g' % rng.choice([1e-4, 1.0e-4, rng.uniform(5e-5, 3e-4), rng.uniform(-1, 1)])),
             'zbest': kind == 'full' or (kind == 'mixed' and k % 2 == 0),
             'photo': kind == 'full', 'nper': nper if kind == 'full' or (kind == 'mixed' and k % 3 != 1) else 0}
        out.append(f)
    return {'kind': kind, 'files': out, 'platelist': None if kind == 'bare' else gen_platelist(rng, out, kind == 'full')}


def tree_data(spec):
    """the truth: for every file the arrays and table rows that are written (independent of pydl)"""
    data = {}
    for f in spec['files']:
        fib = np.arange(1, f['nfib'] + 1)[:, None]
        pix = np.arange(f['npix'])[None, :]
        img = {h: code(f['no'], fib, pix, h).astype(IMG_DT[h]) for h in IMG_HDU}
        tabs = {}
        for t, name in enumerate(('plug', 'zans', 'tsobj')):
            # columns: FIBERID, PLATE, MJD, scalar code, 3-vector code, string code
            tabs[name] = [[k, f['plate'], f['mjd'], tcode(f['no'], k, t, 0)] +
                          [tcode(f['no'], k, t, c) for c in (1, 2, 3)] + [tcode(f['no'], k, t, 4)]
                          for k in range(1, f['nfib'] + 1)]
        # spZall: nper fits per fibre, fibre-major (row (fibre-1)*nper + znum-1), header DIMS0 = nper
        nper = f.get('nper', 0)
        zall = [[k, f['plate'], f['mjd'], tcode(f['no'], k, 3, z)] + [tcode(f['no'], k, 3, z)] * 3 + [z]
                for k in range(1, f['nfib'] + 1) for z in range(1, nper + 1)]
        data[(f['plate'], f['mjd'])] = {'spec': f, 'img': img, 'tabs': tabs, 'zall': zall, 'nper': nper}
    return data


def _table_hdu(rows):
    from astropy.io import fits
    a = np.array(rows, dtype=np.int64)
    cols = [fits.Column(name='FIBERID', format='J', array=a[:, 0]),
            fits.Column(name='PLATE', format='J', array=a[:, 1]),
            fits.Column(name='MJD', format='J', array=a[:, 2]),
            fits.Column(name='VAL', format='E', array=a[:, 3].astype('f4')),
            fits.Column(name='VEC', format='3D', array=a[:, 4:7].astype('f8')),
            fits.Column(name='NAME', format='12A', array=np.array(['N%d' % v for v in a[:, 7]]))]
    return fits.BinTableHDU.from_columns(cols)


def table_rows(tab):
    """dict of columns returned by readspec -> list of int rows (the inverse of _table_hdu)"""
    n = len(tab['FIBERID'])
    out = []
    for i in range(n):
        try:
            out.append([int(tab['FIBERID'][i]), int(tab['PLATE'][i]), int(tab['MJD'][i]), int(tab['VAL'][i])] +
                       [int(v) for v in tab['VEC'][i]] + [int(str(tab['NAME'][i]).strip()[1:])])
        except Exception as e:       # a column that lost its shape or type is an answer (a wrong one), not a crash of the check
            out.append(['malformed-row: %s (column shapes %s)' % (type(e).__name__,
                        {k: getattr(np.asarray(tab[k]), 'shape', None) for k in ('FIBERID', 'VEC', 'NAME')})])
    return out


def write_tree(spec, top):
    from astropy.io import fits
    data = tree_data(spec)
    os.makedirs(os.path.join(top, RUN1D), exist_ok=True)
    os.makedirs(os.path.join(top, 'nomatch'), exist_ok=True)
    for (p, m), d in data.items():
        f = d['spec']
        ph = fits.PrimaryHDU(d['img'][0])
        ph.header['COEFF0'] = f['c0']
        ph.header['COEFF1'] = f['c1']
        hl = [ph] + [fits.ImageHDU(d['img'][h]) for h in (1, 2, 3, 4)] + [_table_hdu(d['tabs']['plug']), fits.ImageHDU(d['img'][6])]
        name = os.path.join(top, 'spPlate-%04d-%05d.fits' % (p, m))
        fits.HDUList(hl).writeto(name)
        # the truth is what the file holds (read back with astropy, not with pydl)
        hdr = fits.getheader(name, 0)
        f['c0'], f['c1'] = float(hdr['COEFF0']), float(hdr['COEFF1'])
        assert hdr['NAXIS1'] == f['npix'] and hdr['NAXIS2'] == f['nfib']
        if f['zbest']:
            fits.HDUList([fits.PrimaryHDU(), _table_hdu(d['tabs']['zans'])]).writeto(
                os.path.join(top, RUN1D, 'spZbest-%04d-%05d.fits' % (p, m)))
        if d['nper']:
            zh = fits.PrimaryHDU()
            zh.header['DIMS0'] = d['nper']
            fits.HDUList([zh, _table_hdu(d['zall'])]).writeto(os.path.join(top, RUN1D, 'spZall-%04d-%05d.fits' % (p, m)))
        if f['photo']:
            fits.HDUList([fits.PrimaryHDU(), _table_hdu(d['tabs']['tsobj'])]).writeto(
                os.path.join(top, 'photoPlate-%04d-%05d.fits' % (p, m)))
    pl = spec.get('platelist')
    if pl is not None:
        cols = [fits.Column(name='PLATE', format='J', array=np.array([r['plate'] for r in pl], dtype='i4')),
                fits.Column(name='MJD', format='J', array=np.array([r['mjd'] for r in pl], dtype='i4')),
                fits.Column(name='RUN2D', format='8A', array=np.array([r['run2d'] for r in pl], dtype='S8')),
                fits.Column(name='RUN1D', format='8A', array=np.array([r['run1d'] for r in pl], dtype='S8')),
                fits.Column(name='N_TOTAL', format='J', array=np.array([r['ntotal'] for r in pl], dtype='i4'))]
        fits.HDUList([fits.PrimaryHDU(), fits.BinTableHDU.from_columns(cols)]).writeto(os.path.join(top, 'platelist.fits'))
    return data


def tree_json(spec, data):
    out = []
    for f in spec['files']:
        d = data[(f['plate'], f['mjd'])]
        out.append({'plate': f['plate'], 'mjd': f['mjd'], 'npix': f['npix'], 'nfib': f['nfib'],
                    'c0': core.f2b(f['c0']), 'c1': core.f2b(f['c1']),
                    'img': [d['img'][h].astype(np.int64).tolist() if h in d['img'] else [] for h in range(7)],
                    'plug': d['tabs']['plug'],
                    'zans': d['tabs']['zans'] if f['zbest'] else None,
                    'tsobj': d['tabs']['tsobj'] if f['photo'] else None,
                    'zall': {'nper': d['nper'], 'rows': d['zall']} if d['nper'] else None})
    return out


class Tree:
    def __init__(self, ctx, spec, name):
        self.spec = spec
        self.top = os.path.join(ctx.tmpdir(), name)
        os.makedirs(self.top)
        self.data = write_tree(spec, self.top)
        self.json = tree_json(spec, self.data)
        self.keys = [(f['plate'], f['mjd']) for f in spec['files']]
        self.platelist = spec.get('platelist')


class Env:
    """environment variables readspec may look at; restored on exit"""
    def __init__(self, top):
        self.new = {'SPECTRO_MATCH': os.path.join(top, 'nomatch'), 'PHOTO_RESOLVE': os.path.join(top, 'nomatch'),
                    'RUN1D': RUN1D, 'RUN2D': RUN2D}

    def __enter__(self):
        self.old = {k: os.environ.get(k) for k in self.new}
        os.environ.update(self.new)
        from astropy import log
        self.level = log.level
        log.setLevel('ERROR')

    def __exit__(self, *a):
        for k, v in self.old.items():
            if v is None:
                os.environ.pop(k, None)
            else:
                os.environ[k] = v
        from astropy import log
        log.setLevel(self.level)


# ---------------------------------------------------------------- real code
def _arg(v, as_array):
    if isinstance(v, list) and as_array:
        return np.array(v, dtype=np.int64 if as_array == 'i8' else np.int32)
    return v


def impl_readspec(tree, req):
    """req: {'plate': int|list, 'mjd': None|int|list, 'fiber': None|int|list, 'arr': False|'i4'|'i8', 'znum': int (optional),
    'run1d_env': True (optional: RUN1D is taken from the environment instead of the keyword)}"""
    from pydl.pydlspec2d.spec1d import readspec
    kw = {'path': tree.top, 'run2d': RUN2D}
    if not req.get('run1d_env'):
        kw['run1d'] = RUN1D
    if req.get('znum') is not None:
        kw['znum'] = req['znum']
    if req.get('align'):
        kw['align'] = True
    try:
        # fiber=None: plate vectors are arrays (the documented type; a list has no .shape for number_of_fibers)
        a_plate = _arg(req['plate'], req.get('arr') or ('i4' if req['fiber'] is None else False))
        a_mjd, a_fiber = _arg(req['mjd'], req.get('arr')), _arg(req['fiber'], req.get('arr'))
        if req.get('fiber_dt') and isinstance(req['fiber'], list) and req['fiber'] and \
                all(0 <= f <= np.iinfo(req['fiber_dt']).max for f in req['fiber']):
            # the caller's own (narrow) integer type for the fibre numbers: the same request (seeded change C16-20)
            a_fiber = np.array(req['fiber'], dtype=req['fiber_dt'])
        snap = [np.array(v, copy=True) if isinstance(v, np.ndarray) else v for v in (a_plate, a_mjd, a_fiber)]
        r = readspec(a_plate, mjd=a_mjd, fiber=a_fiber, **kw)
        for name, v, w in zip(('plate', 'mjd', 'fiber'), (a_plate, a_mjd, a_fiber), snap):
            if isinstance(v, np.ndarray) and not np.array_equal(v, w):
                # the caller's request vector was changed: a second call with the same array asks for other spectra
                r2 = readspec(a_plate, mjd=a_mjd, fiber=a_fiber, **kw)
                r = dict(r)
                r['flux'] = np.asarray(r2['flux'])     # what the caller gets when it re-uses its arrays
                r['_argument_modified'] = name
    except Exception as e:
        return {'err': core.exc_kind(e)}, None
    imgs = []
    for name in IMG_NAMES:
        a = np.asarray(r[name])
        imgs.append({'npix': int(a.shape[1]), 'rows': [[core.f2b(x) for x in row] for row in a.astype(np.float64)]})
    out = {'imgs': imgs, 'plug': table_rows(r['plugmap']),
           'zans': table_rows(r['zans']) if 'zans' in r else None,
           'tsobj': table_rows(r['tsobj']) if 'tsobj' in r else None}
    extra = sorted(set(r) - set(IMG_NAMES) - {'plugmap', 'zans', 'tsobj'})
    if extra:
        out['extra'] = extra
    return {'ok': out}, r


# ---------------------------------------------------------------- oracle: direct restatement of the property
def expand(tree, req):
    """request i = (plate_i, mjd_i, fibre_i) as the calling conventions define it; None when outside the statement's domain"""
    def aslist(v):
        return list(v) if isinstance(v, list) else [v]
    if req['fiber'] is None:
        return expand_all(tree, req)
    pl, fb = aslist(req['plate']), aslist(req['fiber'])
    if not pl or not fb:
        return None
    n = max(len(pl), len(fb))
    if len(pl) not in (1, n) or len(fb) not in (1, n):
        return None
    if isinstance(req['plate'], list) and isinstance(req['fiber'], list) and len(pl) > 1 and len(fb) > 1 and len(pl) != len(fb):
        return None
    pl = pl * n if len(pl) == 1 else pl
    fb = fb * n if len(fb) == 1 else fb
    if req['mjd'] is None:
        mj = []
        for p in pl:
            ms = [m for (q, m) in tree.keys if q == p]
            if not ms:
                return None
            mj.append(max(ms))
    else:
        mj = aslist(req['mjd'])
        if len(mj) != (len(req['plate']) if isinstance(req['plate'], list) else 1):
            return None
        mj = mj * n if len(mj) == 1 else mj
        if len(mj) != n:
            return None
    out = []
    for p, m, f in zip(pl, mj, fb):
        d = tree.data.get((p, m))
        if d is None or not (1 <= f <= d['spec']['nfib']):
            return None
        out.append((p, m, f))
    return out


def expand_all(tree, req):
    """fiber=None: "all fibers from all plates will be returned" - fibres 1..N of every plate, plates ascending, N = 640
    before MJD 55025, else N_TOTAL of the plate's row in platelist.fits (latest MJD, RUN2D, RUN1D).  None when outside the domain."""
    pl = list(req['plate']) if isinstance(req['plate'], list) else [req['plate']]
    if not pl or len(set(pl)) != len(pl):
        return None
    latest = {}
    for p in pl:
        ms = [m for (q, m) in tree.keys if q == p]
        if not ms:
            return None
        latest[p] = max(ms)
    if all(m < 55025 for m in latest.values()):
        nf = {p: 640 for p in pl}
    else:
        if tree.platelist is None:
            return None
        nf = {}
        for p in pl:
            rows = [r for r in tree.platelist if (r['plate'], r['mjd'], r['run2d'], r['run1d']) == (p, latest[p], RUN2D, RUN1D)]
            if len(rows) != 1:
                return None
            nf[p] = rows[0]['ntotal']
    if req['mjd'] is None:
        mj = latest
    else:
        m = req['mjd']
        if len(pl) != 1 or (isinstance(m, list) and len(m) != 1):
            return None
        mj = {pl[0]: m[0] if isinstance(m, list) else m}
    out = []
    for p in sorted(pl):
        d = tree.data.get((p, mj[p]))
        if d is None or not (1 <= nf[p] <= d['spec']['nfib']):
            return None
        out.extend((p, mj[p], f) for f in range(1, nf[p] + 1))
    return out


def oracle(tree, req, raw, err=None):
    """returns None or (signature, text); `err`: the exception kind when readspec raised (raw is None)"""
    reqs = expand(tree, req)
    if reqs is None:
        return None
    n = len(reqs)
    files = [tree.data[(p, m)] for p, m, _ in reqs]
    znum = req.get('znum')
    for flag in ('zbest', 'photo'):
        # with znum= the redshifts come from spZall (present iff nper > 0), spZbest is not looked at
        have = [bool(d['nper']) if (flag == 'zbest' and znum is not None) else d['spec'][flag] for d in files]
        if any(have) and not all(have):
            return None       # mixed availability of spZbest (spZall) / photoPlate: outside the domain, not judged
    if znum is not None and any(d['nper'] and not (1 <= znum <= d['nper']) for d in files):
        return None           # there is no znum-th fit
    if raw is None:
        return ('readspec:exception-on-valid-request' + (':fiber=None' if req['fiber'] is None else '') +
                (':znum' if znum is not None else '') + (':' + str(err) if err else ''),
                'readspec raised %s on a request inside the domain' % err)
    if '_argument_modified' in raw:
        return ('readspec:request-array-modified:' + raw['_argument_modified'],
                'readspec changed the caller\'s %s array in place; the same request repeated with that array returns other rows' % raw['_argument_modified'])
    W = max(d['spec']['npix'] for d in files)
    for name, h in zip(IMG_NAMES, IMG_HDU + [7]):
        a = np.asarray(raw[name])
        if a.shape != (n, W):
            return ('readspec:shape', '%s has shape %s, want %s' % (name, a.shape, (n, W)))
        for i, ((p, m, f), d) in enumerate(zip(reqs, files)):
            npix = d['spec']['npix']
            if h == 7:
                want = [d['spec']['c0'] + d['spec']['c1'] * float(q) for q in range(npix)]
            else:
                want = [float(x) for x in d['img'][h][f - 1]]
            want = want + [0.0] * (W - npix)
            got = [float(x) for x in a[i]]
            if got != want:
                q = next(k for k in range(W) if got[k] != want[k])
                # classify: another row of the tree, a shift of the right row, or something else
                sig = 'readspec:%s-row' % ('loglam' if h == 7 else 'image')
                if h != 7:
                    if q >= npix:
                        sig += ':padding-not-zero'
                    elif sorted(got) == sorted(want):
                        sig += ':shifted'
                    else:
                        sig += ':wrong-row'
                return (sig, 'row %d of %s is not row fibre-1=%d of plate %d mjd %d zero-padded to %d: pixel %d is %r, want %r'
                        % (i, name, f - 1, p, m, W, q, got[q], want[q]))
    for tab, key, flag in (('plug', 'plugmap', None), ('zans', 'zans', 'zbest'), ('tsobj', 'tsobj', 'photo')):
        have = [flag is None or (bool(d['nper']) if (flag == 'zbest' and znum is not None) else d['spec'][flag]) for d in files]
        if not all(have):
            if key in raw:
                return ('readspec:table-from-nowhere', '%s returned although no file has it' % key)
            continue
        if key not in raw:
            return ('readspec:table-missing', '%s not returned' % key)
        got = table_rows(raw[key])
        want = [d['tabs'][tab][f - 1] for (p, m, f), d in zip(reqs, files)]
        if req['fiber'] is None and got != want and tab == 'plug':
            return ('readspec:all-fibers', 'fiber=None: the plug-map rows are fibres %s..., want fibres 1..N of every plate, plates ascending (%d rows)'
                    % ([g[:2] for g in got[:5]], n))
        if tab == 'zans' and req.get('znum') is not None:
            # "return the znum-th best fit": row (fibre-1)*nper + znum-1 of spZall
            z = req['znum']
            want = [d['zall'][(f - 1) * d['nper'] + z - 1] for (p, m, f), d in zip(reqs, files)]
            if got != want:
                i = next((k for k in range(min(len(got), n)) if got[k] != want[k]), min(len(got), n))
                return ('readspec:znum-row', 'znum=%d: row %d of zans is (fibre %s, fit %s), want fit %d of fibre %d of request %s'
                        % (z, i, got[i][0] if i < len(got) else None, got[i][7] if i < len(got) else None, z, reqs[i][2], reqs[i]))
        if got != want:
            i = next((k for k in range(min(len(got), n)) if got[k] != want[k]), min(len(got), n))
            return ('readspec:table-row', 'row %d of %s is %s, want row fibre-1 of request %s = %s'
                    % (i, key, got[i] if i < len(got) else None, reqs[i] if i < n else None, want[i] if i < n else None))
    return None


# ---------------------------------------------------------------- request generators
def gen_requests(ctx, tree, count):
    rng = ctx.rng
    keys = tree.keys
    nf = {k: tree.data[k]['spec']['nfib'] for k in keys}
    maxn = ctx.n(8, 12)
    out = []

    def triples(n):
        mode = rng.randrange(8)
        if mode == 0:       # few files, many repeats
            ks = rng.sample(keys, min(len(keys), rng.randint(1, 2)))
        elif mode == 1:     # one plate, all of its MJDs (repeated plate)
            p = rng.choice(keys)[0]
            ks = [k for k in keys if k[0] == p]
        else:
            ks = keys
        t = []
        for _ in range(n):
            k = rng.choice(ks)
            t.append((k[0], k[1], rng.randint(1, nf[k])))
        if rng.random() < 0.3 and len(t) > 1:       # exact repeats of a whole request
            t[rng.randrange(len(t))] = t[rng.randrange(len(t))]
        order = rng.randrange(6)
        if order == 1:
            t.sort()
        elif order == 2:
            t.sort(reverse=True)
        elif order == 3:    # grouped by file, groups in random order, fibres descending
            g = list({(a, b) for a, b, _ in t})
            rng.shuffle(g)
            t = [x for k in g for x in sorted([y for y in t if (y[0], y[1]) == k], reverse=True)]
        elif order == 4:    # interleaved: sorted by fibre
            t.sort(key=lambda x: (x[2], -x[0]))
        return t

    for _ in range(count):
        conv = rng.choice(['vec', 'vec', 'vec', 'vec', 'vec', 'vec-arr', 'vec-arr', 'scalar', 'scalar-plate', 'scalar-fiber',
                           'scalar-fiber', 'len1', 'latest', 'latest', 'bad', 'bad'])
        n = rng.randint(2, maxn) if rng.random() < 0.85 else rng.randint(1, 3)
        t = triples(n)
        arr = rng.choice([False, 'i4', 'i8']) if conv != 'vec-arr' else rng.choice(['i4', 'i8'])
        if conv in ('vec', 'vec-arr'):
            r = {'plate': [a for a, _, _ in t], 'mjd': [b for _, b, _ in t], 'fiber': [c for _, _, c in t]}
        elif conv == 'scalar':
            r = {'plate': t[0][0], 'mjd': t[0][1], 'fiber': t[0][2]}
        elif conv == 'scalar-plate':
            k = (t[0][0], t[0][1])
            fibs = [rng.randint(1, nf[k]) for _ in range(n)]
            r = {'plate': rng.choice([k[0], [k[0]]]), 'mjd': k[1], 'fiber': fibs}
            if isinstance(r['plate'], list):
                r['mjd'] = rng.choice([k[1], [k[1]]])
        elif conv == 'scalar-fiber':
            fmax = min(nf[(a, b)] for a, b, _ in t)
            r = {'plate': [a for a, _, _ in t], 'mjd': [b for _, b, _ in t], 'fiber': rng.choice([rng.randint(1, fmax), [rng.randint(1, fmax)]])}
        elif conv == 'len1':
            r = {'plate': [t[0][0]], 'mjd': [t[0][1]], 'fiber': rng.choice([t[0][2], [t[0][2]]])}
        elif conv == 'latest':
            latest = {p: max(m for q, m in keys if q == p) for p, _ in keys}
            t = [(a, latest[a], rng.randint(1, nf[(a, latest[a])])) for a, _, _ in t]
            r = {'plate': [a for a, _, _ in t], 'mjd': None, 'fiber': [c for _, _, c in t]}
            sub = rng.randrange(4)
            if sub == 0:
                r = {'plate': t[0][0], 'mjd': None, 'fiber': t[0][2]}
            elif sub == 1:
                r = {'plate': t[0][0], 'mjd': None, 'fiber': [rng.randint(1, nf[(t[0][0], t[0][1])]) for _ in range(n)]}
        else:
            r = {'plate': [a for a, _, _ in t], 'mjd': [b for _, b, _ in t], 'fiber': [c for _, _, c in t]}
            bad = rng.randrange(7)
            conv = 'bad%d' % bad
            if bad == 0:        # plate / fibre lengths differ
                r['fiber'] = r['fiber'] + [1, 1]
                r['plate'] = r['plate'] + [r['plate'][0]]
                r['mjd'] = r['mjd'] + [r['mjd'][0]]
            elif bad == 1:      # plate / mjd lengths differ
                r['mjd'] = r['mjd'] + [r['mjd'][0]]
            elif bad == 2:      # a plate-MJD combination that is not on disk
                i = rng.randrange(n)
                r['mjd'][i] = r['mjd'][i] + rng.choice([1, -1, 7])
                if (r['plate'][i], r['mjd'][i]) in tree.data:
                    conv = 'vec'
            elif bad == 3:      # fibre beyond the plate
                i = rng.randrange(n)
                r['fiber'][i] = nf[(r['plate'][i], r['mjd'][i])] + rng.randint(1, 3)
            elif bad == 4:      # fibre 0 or negative: numpy wraps the index fibre-1 (outside the statement, model follows)
                i = rng.randrange(n)
                r['fiber'][i] = -rng.randint(0, nf[(r['plate'][i], r['mjd'][i])] + 1)
            elif bad == 5:      # empty arguments
                r = rng.choice([{'plate': [], 'mjd': [], 'fiber': [1]}, {'plate': [t[0][0]], 'mjd': [t[0][1]], 'fiber': []},
                                {'plate': [], 'mjd': [], 'fiber': []},
                                {'plate': [a for a, _, _ in t] + [t[0][0]], 'mjd': [b for _, b, _ in t] + [t[0][1]], 'fiber': []}])
                arr = False
            else:               # scalar mjd with a plate vector
                r['mjd'] = r['mjd'][0]
                if n == 1:
                    conv = 'vec'
        r['arr'] = arr
        if r['mjd'] is None and rng.random() < 0.5:
            r['run1d_env'] = True         # RUN1D from the environment instead of run1d=
        nper = max(d['nper'] for d in tree.data.values())
        if nper and rng.random() < 0.2:
            # znum=: the znum-th fit of spZall; now and then a fit that does not exist (outside the statement, model follows)
            r['znum'] = rng.randint(1, nper) if rng.random() < 0.85 else rng.choice([0, -1, nper + 1, nper + 2, -nper, 50])
            conv += '+znum'
            if isinstance(r.get('fiber'), list) and rng.random() < 0.5:
                r['fiber_dt'] = rng.choice(['u1', 'u1', 'i2', 'u2'])
        out.append((conv, r))
    return out


def gen_all_requests(ctx, tree, count):
    """fiber=None: all fibres of the given plate(s)"""
    rng = ctx.rng
    plates = sorted({p for p, _ in tree.keys})
    latest = {p: max(m for q, m in tree.keys if q == p) for p in plates}
    nper = max(d['nper'] for d in tree.data.values())
    out = []
    for _ in range(count):
        sub = rng.choice(['scalar', 'scalar', 'len1', 'vec', 'vec', 'mjd', 'mjd', 'dup', 'mjdvec', 'nofile'])
        p = rng.choice(plates)
        arr = rng.choice([False, 'i4', 'i8'])
        if sub == 'scalar':
            r = {'plate': p, 'mjd': None}
        elif sub == 'len1':
            r = {'plate': [p], 'mjd': None}
        elif sub == 'vec':          # several distinct plates, any order
            r = {'plate': rng.sample(plates, rng.randint(2, len(plates))), 'mjd': None}
        elif sub == 'mjd':          # one plate, MJD given (scalar or len 1): any MJD of the plate; the count is that of the latest
            m = rng.choice([m for q, m in tree.keys if q == p])
            r = {'plate': rng.choice([p, [p]]), 'mjd': rng.choice([m, [m]])}
        elif sub == 'dup':          # a repeated plate: the unfilled part of platevec is plate 0 (no file)
            r = {'plate': [p, rng.choice(plates), p], 'mjd': None}
        elif sub == 'mjdvec':       # MJD vector with a plate vector: shapes (total,) and (nplate,) do not broadcast
            ps = rng.sample(plates, 2)
            r = {'plate': ps, 'mjd': [latest[q] for q in ps]}
        else:                       # a plate without files
            q = next(x for x in range(p + 1, p + 20) if x not in plates)
            r = {'plate': rng.choice([q, [p, q]]), 'mjd': None}
        r['fiber'] = None
        r['arr'] = arr
        if rng.random() < 0.5:
            r['run1d_env'] = True
        conv = 'all-' + sub
        if nper and rng.random() < 0.25:
            r['znum'] = rng.randint(1, nper)
            conv += '+znum'
        out.append((conv, r))
    return out


def _directed(tree):
    """a few fixed shapes that must always be present: every file once in reverse key order, every file twice interleaved"""
    ks = sorted(tree.keys, reverse=True)
    nf = {k: tree.data[k]['spec']['nfib'] for k in ks}
    a = [(p, m, nf[(p, m)]) for p, m in ks]
    b = [(p, m, 1) for p, m in ks] + [(p, m, 2) for p, m in reversed(ks)]
    out = []
    for t in (a, b, sorted(b), b[::2] + b[1::2]):
        out.append(('directed', {'plate': [x[0] for x in t], 'mjd': [x[1] for x in t], 'fiber': [x[2] for x in t], 'arr': False}))
    return out


# ---------------------------------------------------------------- the streams
def _readspec_stream(ctx, tree, reqs, oracle_only=False):
    chunk = 40
    with Env(tree.top):
        for i in range(0, len(reqs), chunk):
            blk = reqs[i:i + chunk]
            model = [None] * len(blk)
            if not oracle_only:
                model = core.driver([{'p': 'C16', 'op': 'readspecx', 'tree': tree.json, 'platelist': tree.platelist,
                                      'run2d': RUN2D, 'run1d': RUN1D,
                                      'reqs': [{'plate': r['plate'], 'mjd': r['mjd'], 'fiber': r['fiber'], 'znum': r.get('znum')}
                                               for _, r in blk]}])[0]
            for (conv, r), m in zip(blk, model):
                case = {'stream': 'readspec', 'conv': conv, 'tree': tree.spec, 'req': r}
                impl, raw = impl_readspec(tree, r)
                inside = expand(tree, r) is not None
                ctx.seen(case, nontrivial='ok' in impl)
                ctx.count('readspec:%s:%s:%s' % (tree.spec['kind'], conv.rstrip('0123456789') if not conv.startswith('bad') else conv,
                                                 'ok' if 'ok' in impl else impl['err']))
                if r.get('znum') is not None:
                    ctx.count('readspec:znum=%d:%s' % (r['znum'], 'ok' if 'ok' in impl else impl['err']))
                if 'ok' in impl:
                    ctx.count('readspec:nfiles=%d' % len({(a, b) for a, b, _ in expand(tree, r)} if inside else ()))
                if not oracle_only:
                    # exceptions are compared as "nothing returned": the model names the first cause, numpy/astropy the type
                    same = (impl == m) if ('ok' in impl and 'ok' in m) else (('err' in impl) == ('err' in m))
                    if not same:
                        ctx.disagree('readspec', case, _short(impl), _short(m))
                v = oracle(tree, r, raw, impl.get('err'))
                if v is not None:
                    # shrink only the first case of every failure class (core.finish keeps the smallest per signature)
                    done = ctx.__dict__.setdefault('_c16_shrunk', set())
                    ctx.violate(v[0], v[1], _shrink_req(tree, case, v[0]) if v[0] not in done else case)
                    done.add(v[0])


def _znum_requests(ctx, tree, count):
    """znum = 1..nper in turn on the ordinary conventions (row i of zans = fit znum of fibre_i)"""
    nper = max(d['nper'] for d in tree.data.values())
    if not nper:
        return []
    reqs = [(c, r) for c, r in gen_requests(ctx, tree, count) if c in ('vec', 'vec-arr', 'scalar', 'scalar-plate', 'scalar-fiber', 'len1', 'latest')]
    return [(c + '+znum', dict(r, znum=1 + k % nper)) for k, (c, r) in enumerate(reqs)]


def _align_stream(ctx, tree, count):
    """align= is outside the model (unfinished code: a non-zero shift reaches spec_append as a float and raises TypeError, a
    single request raises IndexError).  Oracle only, statement level: whatever is returned, row i of every image must be the
    written row of request i, contiguous at one offset, zeros elsewhere."""
    reqs = [(c, r) for c, r in gen_requests(ctx, tree, count) if c in ('vec', 'vec-arr', 'scalar-plate', 'scalar-fiber')]
    with Env(tree.top):
        for conv, r in reqs:
            r = dict(r, align=True)
            r.pop('znum', None)
            case = {'stream': 'align', 'conv': conv, 'tree': tree.spec, 'req': r, 'oracle_only': True}
            impl, raw = impl_readspec(tree, r)
            ctx.seen(case, nontrivial='ok' in impl)
            ctx.count('readspec:align:oracle-only:%s' % ('ok' if 'ok' in impl else impl['err']))
            t = expand(tree, r)
            if raw is None or t is None:
                continue
            for name, h in zip(IMG_NAMES[:-1], IMG_HDU):
                a = np.asarray(raw[name])
                bad = None
                if a.shape[0] != len(t):
                    bad = '%s has %d rows for %d requests' % (name, a.shape[0], len(t))
                for i, (p, m, f) in enumerate(t):
                    if bad:
                        break
                    want = [float(x) for x in tree.data[(p, m)]['img'][h][f - 1]]
                    got = [float(x) for x in a[i]]
                    nz = [q for q, v in enumerate(got) if v != 0.0]
                    if not nz or got[nz[0]:nz[0] + len(want)] != want or any(got[q] != 0.0 for q in range(nz[0] + len(want), len(got))):
                        bad = 'align: row %d of %s is not the row of request %s at one offset with zeros elsewhere: %s' % (i, name, (p, m, f), got)
                if bad:
                    ctx.violate('readspec:align:row', bad, case)
                    break


def _short(x):
    if 'ok' in x:
        o = x['ok']
        return {'ok': {'npix': [i['npix'] for i in o['imgs']], 'flux': [[core.b2f(b) for b in r] for r in o['imgs'][0]['rows']],
                       'loglam': [[core.b2f(b) for b in r] for r in o['imgs'][6]['rows']],
                       'plug': o['plug'], 'zans': o['zans'], 'tsobj': o['tsobj']}}
    return x


def _shrink_req(tree, case, sig):
    r = case['req']
    if not (isinstance(r['plate'], list) and isinstance(r['mjd'], list) and isinstance(r['fiber'], list)
            and len(r['plate']) == len(r['fiber'])):
        return case
    t = list(zip(r['plate'], r['mjd'], r['fiber']))

    def fails(sub):
        rr = {'plate': [x[0] for x in sub], 'mjd': [x[1] for x in sub], 'fiber': [x[2] for x in sub], 'arr': r.get('arr')}
        if r.get('znum') is not None:
            rr['znum'] = r['znum']
        if r.get('run1d_env'):
            rr['run1d_env'] = True
        im, raw = impl_readspec(tree, rr)
        v = oracle(tree, rr, raw, im.get('err'))
        return v is not None and v[0] == sig
    small = core.shrink_list(t, fails, minlen=1)
    small = {'plate': [x[0] for x in small], 'mjd': [x[1] for x in small], 'fiber': [x[2] for x in small], 'arr': r.get('arr')}
    if r.get('znum') is not None:
        small['znum'] = r['znum']
    if r.get('run1d_env'):
        small['run1d_env'] = True
    return dict(case, req=small)


_twin_no = itertools.count()


def _latest_stream(ctx, tree):
    from pydl.pydlspec2d.spec1d import latest_mjd
    rng = ctx.rng
    plates = sorted({p for p, _ in tree.keys})
    cases = [plates, plates[::-1], [plates[0]] * 3] + [[rng.choice(plates) for _ in range(rng.randint(1, 6))] for _ in range(ctx.n(5, 40))]
    model = core.driver([{'p': 'C16', 'op': 'latest', 'files': [list(k) for k in tree.keys], 'plates': c} for c in cases])
    for c, m in zip(cases, model):
        case = {'stream': 'latest', 'tree': tree.spec, 'plates': c}
        try:
            impl = [int(x) for x in latest_mjd(np.array(c, dtype='i4'), path=tree.top)]
        except Exception as e:
            impl = {'err': core.exc_kind(e)}
        ctx.seen(case)
        ctx.count('latest_mjd')
        if impl != m:
            ctx.disagree('latest', case, impl, m)
        want = [max(mm for q, mm in tree.keys if q == p) for p in c]
        if impl != want:
            ctx.violate('latest_mjd:not-the-largest', 'latest_mjd(%s) = %s, files on disk say %s' % (c, impl, want), case)
    # history: the answer belongs to the tree that is asked NOW.  A second tree with the same plate numbers observed on other
    # nights (latest_mjd reads file names only), the first tree again, then a newer file appearing in the second tree.
    twin = os.path.join(ctx.tmpdir(), 'twin-%d' % next(_twin_no))
    os.makedirs(twin)
    tk = []
    for p in plates:
        lm = max(mm for q, mm in tree.keys if q == p)
        for mm in {lm + rng.choice([-7, 3, 40]), lm - rng.randint(10, 400)}:
            tk.append((p, mm))
            open(os.path.join(twin, 'spPlate-%04d-%05d.fits' % (p, mm)), 'w').close()
    steps = [('twin', twin, tk), ('first', tree.top, list(tree.keys))]
    p0 = plates[0]
    newer = max(mm for q, mm in tk if q == p0) + 5
    steps.append(('twin+newer', twin, tk + [(p0, newer)]))
    for name, top, keys in steps:
        if name == 'twin+newer':
            open(os.path.join(twin, 'spPlate-%04d-%05d.fits' % (p0, newer)), 'w').close()
        case = {'stream': 'latest', 'tree': tree.spec, 'plates': plates, 'history': name, 'files': [list(k) for k in keys]}
        try:
            impl = [int(x) for x in latest_mjd(np.array(plates, dtype='i4'), path=top)]
        except Exception as e:
            impl = {'err': core.exc_kind(e)}
        ctx.seen(case)
        ctx.count('latest_mjd:history:' + name)
        want = [max(mm for q, mm in keys if q == p) for p in plates]
        if impl != want:
            ctx.violate('latest_mjd:history', 'after asking other trees, latest_mjd(%s, path=<%s>) = %s, files there say %s'
                        % (plates, name, impl, want), case)


def append_oracle(a1, a2, ps):
    """written from the docstring / statement: rows of spec1 then spec2, shifted right by nadd, zeros elsewhere"""
    n1, p1 = a1.shape
    n2, p2 = a2.shape
    nadd1 = -ps if ps < 0 else 0
    nadd2 = ps if ps > 0 else 0
    W = max(p1 + nadd1, p2 + nadd2)
    want = [[0] * W for _ in range(n1 + n2)]
    filled = set()
    for i in range(n1):
        for q in range(p1):
            want[i][q + nadd1] = a1[i, q].item()
            filled.add((i, q + nadd1))
    for i in range(n2):
        for q in range(p2):
            assert (n1 + i, q + nadd2) not in filled
            want[n1 + i][q + nadd2] = a2[i, q].item()
    return W, want


def _append_cases(ctx):
    rng = ctx.rng
    out = []
    if ctx.tier == 'thorough':
        # bounded-exhaustive: every pair of blocks up to 3 rows x 4 pixels (0 rows / 0 pixels included), shifts -4..4
        for n1, p1, n2, p2 in itertools.product(range(0, 4), range(0, 5), range(0, 4), range(0, 5)):
            for ps in range(-4, 5):
                out.append((n1, p1, n2, p2, ps, 'i4', 'i4', 'exhaustive'))
    else:
        # quick: the same family up to 2 x 2 blocks, shifts -3..3
        for n1, p1, n2, p2 in itertools.product(range(0, 3), repeat=4):
            for ps in range(-3, 4):
                out.append((n1, p1, n2, p2, ps, 'i4', 'i4', 'exhaustive'))
    for n1, p1, n2, p2, ps in [(2, 3, 1, 3, 0), (2, 3, 1, 4, 0), (1, 4, 2, 3, 0), (2, 3, 1, 3, 1), (2, 3, 1, 3, -2), (1, 1, 1, 1, 5),
                               (0, 3, 2, 2, 1), (2, 2, 0, 5, -1), (1, 0, 1, 0, 0), (1, 0, 1, 0, 2), (1, 2, 1, 7, -5), (1, 7, 1, 2, 5)]:
        out.append((n1, p1, n2, p2, ps, 'f4', 'f4', 'directed'))
    dts = ['f4', 'f8', 'i4', 'i2', 'i8', '>f4', '>i4']
    for _ in range(ctx.n(600, 6000)):
        d1 = rng.choice(dts)
        d2 = d1 if rng.random() < 0.7 else rng.choice(dts)
        out.append((rng.randint(0, 5), rng.randint(0, 9), rng.randint(0, 5), rng.randint(0, 9),
                    rng.choice([0, 0, rng.randint(-10, 10), rng.randint(-3, 3)]), d1, d2, 'random'))
    return out


def _append_stream(ctx, cases=None):
    from pydl.pydlspec2d.spec1d import spec_append
    rng = ctx.rng
    cases = cases if cases is not None else _append_cases(ctx)
    lines, full = [], []
    for n1, p1, n2, p2, ps, d1, d2, kind in cases:
        a1 = (np.arange(n1 * p1).reshape(n1, p1) * 2 + 1 + 1000 * rng.randint(0, 9)).astype(d1)
        a2 = (np.arange(n2 * p2).reshape(n2, p2) * 2 + 2 + 1000 * rng.randint(0, 9)).astype(d2)
        full.append((a1, a2))
        lines.append({'p': 'C16', 'op': 'append', 's1': {'npix': p1, 'rows': a1.astype(np.int64).tolist()},
                      's2': {'npix': p2, 'rows': a2.astype(np.int64).tolist()}, 'pixshift': ps})
    model = core.driver_parallel(lines)
    for (n1, p1, n2, p2, ps, d1, d2, kind), (a1, a2), m in zip(cases, full, model):
        case = {'stream': 'append', 'shape1': [n1, p1], 'shape2': [n2, p2], 'pixshift': ps, 'dtype1': d1, 'dtype2': d2,
                's1': a1.astype(np.int64).tolist(), 's2': a2.astype(np.int64).tolist()}
        b1, b2 = a1.copy(), a2.copy()
        try:
            conv = rng.randrange(3)
            r = spec_append(a1, a2) if (ps == 0 and conv == 0) else spec_append(a1, a2, pixshift=ps) if conv < 2 else spec_append(a1, a2, np.int64(ps))
            impl = {'npix': int(r.shape[1]), 'rows': [[int(x) for x in row] for row in r]}
            exact = all(float(x) == int(x) for row in r for x in row) and r.shape[0] == n1 + n2
        except Exception as e:
            r, impl, exact = None, {'err': core.exc_kind(e)}, False
        ctx.seen(case, nontrivial=n1 + n2 > 0)
        ctx.count('append:%s:%s' % (kind, 'neg' if ps < 0 else 'pos' if ps > 0 else 'zero'))
        if 0 in (n1, p1, n2, p2):
            ctx.count('append:empty-block:%s' % ('rows' if 0 in (n1, n2) else 'pixels'))
        if impl != m:
            ctx.disagree('append', case, impl, m)
        W, want = append_oracle(a1, a2, ps)
        if r is None:
            ctx.violate('append:exception', 'spec_append raised %s' % impl['err'], case)
        elif not exact or impl != {'npix': W, 'rows': want}:
            ctx.violate('append:cells', 'spec_append result differs from "spec1 rows then spec2 rows, each shifted right by its '
                        'nadd, zeros elsewhere": got %s want %s' % (impl, {'npix': W, 'rows': want}), case)
        elif not (np.array_equal(a1, b1) and np.array_equal(a2, b2)):
            ctx.violate('append:input-modified', 'spec_append modified an input array', case)


# ---------------------------------------------------------------- the check
def _trees(ctx):
    th = ctx.tier == 'thorough'
    out = [Tree(ctx, gen_tree_spec(ctx.rng, kind, th), '%s%d' % (kind, k))
           for k, kind in enumerate(['full', 'bare', 'mixed', 'sdss'] + (['full', 'bare', 'full', 'sdss', 'mixed'] if th else []))]
    # extension: plate numbers that contain one another's digits (266 / 2660 / 1266 / 10266), at least one plate >= 10000
    from harness.props import c16_fs
    out += [Tree(ctx, c16_fs.gen_decoy_spec(ctx.rng), 'decoy%d' % k) for k in range(2 if th else 1)]
    return out


def run(ctx):
    ok = core.audit(ctx, LEAN_MODULES, THEOREMS)
    _append_stream(ctx)
    from harness.props import c16_fs
    c16_fs.names_stream(ctx)
    c16_fs.latest_fs_stream(ctx)
    trees = _trees(ctx)
    for t in trees:
        ctx.count('tree:%s:files=%d' % (t.spec['kind'], len(t.keys)))
        _latest_stream(ctx, t)
        kind = t.spec['kind']
        n = {'full': ctx.n(220, 900), 'bare': ctx.n(160, 700), 'mixed': ctx.n(80, 300), 'sdss': ctx.n(40, 200),
             'decoy': ctx.n(60, 300)}[kind]
        _readspec_stream(ctx, t, _directed(t) + gen_requests(ctx, t, n))
        _readspec_stream(ctx, t, _znum_requests(ctx, t, {'full': ctx.n(60, 250), 'mixed': ctx.n(20, 80)}.get(kind, ctx.n(10, 40))))
        _readspec_stream(ctx, t, gen_all_requests(ctx, t, {'full': ctx.n(40, 200), 'sdss': ctx.n(12, 60)}.get(kind, ctx.n(20, 80))))
        if kind in ('full', 'bare'):
            _align_stream(ctx, t, ctx.n(30, 150))
        # the same real calls against the model that works on the directory LISTING (file names formed / globbed in the model)
        c16_fs.readspec_fs_stream(ctx, t, {'sdss': ctx.n(8, 40), 'decoy': ctx.n(40, 200)}.get(kind, ctx.n(25, 120)))
    if not ok or ctx.disagreements:
        # directed failing-input search on the real code: more oracle-only requests on every tree
        for t in trees:
            if t.spec['kind'] != 'mixed':
                _readspec_stream(ctx, t, gen_requests(ctx, t, ctx.n(400, 3000)), oracle_only=True)
        ctx.notes.append('failing-input search run (oracle only) because an obligation or the correspondence is broken')


def replay(ctx, case):
    core.audit(ctx, LEAN_MODULES, THEOREMS)
    s = case.get('stream')
    if s == 'append':
        _append_stream(ctx, [(case['shape1'][0], case['shape1'][1], case['shape2'][0], case['shape2'][1], case['pixshift'],
                              case['dtype1'], case['dtype2'], 'replay')])
    elif s == 'readspec':
        t = Tree(ctx, case['tree'], 'replay')
        _readspec_stream(ctx, t, [(case.get('conv', 'replay'), case['req'])], oracle_only=bool(case.get('oracle_only')))
    elif s == 'readspecfs':
        from harness.props import c16_fs
        t = Tree(ctx, case['tree'], 'replay')
        c16_fs.readspec_fs_stream(ctx, t, 20)
    elif s == 'align':
        run(ctx)
    elif s == 'latest':
        t = Tree(ctx, case['tree'], 'replay')
        _latest_stream(ctx, t)
    else:
        run(ctx)


LEVEL_TEXT = ('Machine-checked Lean 4 theorems over an executable model of readspec\'s calling conventions (incl. fiber=None via '
              'number_of_fibers), grouping / reading / reordering logic (incl. znum=) and of spec_append: for every request vector '
              '(any order, repeats, mixtures, scalar or vector conventions) row i of every image is row fibre_i-1 of the file of '
              '(plate_i, mjd_i), right-padded with zeros to the longest pixel count and never shifted; table rows likewise; with '
              'znum=k row i of zans is fit k of fibre_i (spZall row (fibre_i-1)*nper+k-1) and everything else is unchanged; with '
              'fiber=None the rows are fibres 1..n of the plate in order; loglam row i is COEFF0+COEFF1*p on that plate\'s pixels; '
              'spec_append places every cell exactly once, shifted right by |pixshift| (spec1 for a negative, spec2 for a positive '
              'shift), zeros elsewhere, empty blocks included - proved by induction for arbitrary lengths and for any sorting '
              'permutation argsort may return. The model is tied to the code on every run by I/O correspondence on generated FITS '
              'survey trees (every convention above is compared with the model, not only judged by the oracle) and an independent '
              'oracle that compares every returned cell with the arrays that were written. Since extension 2 the file-system lookup is '
              'inside the model and under theorems: spPlate file names / paths / plate directories are injective in (plate, MJD) for all '
              'naturals (plates >= 10000 too), the glob of a plate never picks another plate\'s file (266 / 2660 / 1266 / 10266), '
              'latest_mjd over a directory listing (glob + regular expression + int) returns the maximum MJD among that plate\'s names, '
              'which is the MJD of a listed file, and raises on a globbed name without MJD; number_of_fibers for plate vectors; and the '
              'row theorem is stated end to end over directory listings (readspec_row_i_listing: row i comes from the file NAMED '
              'spPlate-pppp-mmmmm.fits of request i). Error theorems: a request without file, mixed availability of spZbest / photoPlate '
              '(short table at the reorder step), fiber=None with a repeated plate all raise (nothing returned); the numpy index wrap for fibre <= 0 / znum '
              'outside 1..nper is stated exactly (which row).')
LEVEL_NOTE = ('Trusted: Lean kernel, axioms propext/Classical.choice/Quot.sound at most, the hand-written model (validated only by the '
              'correspondence sample), astropy.io.fits, the argsort / unique contracts. Outside the statement: align= (unfinished code: '
              'the shift reaches spec_append as a float, so any real alignment raises TypeError, a single request raises IndexError; '
              'not modelled, oracle-only stream: whatever is returned must still be the requested rows). Also outside the statement, but now '
              'pinned down by theorems: fibre <= 0 (readspec_fiber_wrap: fibre x with -nfib < x <= 0 returns the rows of fibre x+nfib; not a '
              '"requested spectrum") and znum outside 1..nper (zIndex_cases: e.g. znum = nper+1 reads fit 1 of the next fibre). Error '
              'behaviour under theorems: missing spPlate file, fiber=None with repeated plates, malformed spPlate name, short table at the '
              'reorder step. Mixed availability of spZbest / photoPlate among the requested plate-MJDs raises for every request '
              'vector and any argsort (readspec_mixed_tables_raise, the whole loop; znum unset). Modelled and compared but NOT covered by a '
              'theorem: mixed availability of spZall with znum= (same mechanism, stepX not re-proved), fiber=None with an MJD vector '
              '(raises), error paths of normalize. fiber=None: readspec_all_fibers states the rows outright for one plate; for '
              'several distinct plates readspec_all_fibers_plates proves the request vector, its layout and the Domain hypothesis of the row '
              'theorems. That readspec leaves the caller\'s request arrays unmodified (idempotent arguments) is an aliasing fact outside a pure '
              'model: checked by the harness only (second call with the same arrays). File-system lookup: names, glob, regular expression, '
              'latest_mjd and the existence test "name is in the listing" are in the model and under theorems (hypotheses: no \'P\' in the '
              'directory name, 5-digit MJD); still parameters / correspondence only: the choice of $SPECTRO_REDUX vs $BOSS_SPECTRO_REDUX by '
              'int(run2d) (topdir is an input), the names of the spZbest / spZall / photoPlate files (their presence is a field of the file '
              'record), platelist.fits column access (a list of rows).')

"""C16 extension: file-system lookup (spec_path, file names, latest_mjd over directory listings, readspec on a listing).

Streams (model side: Model/SpecFiles.lean through the driver ops fsnames / latestfs / readspecfs):
  fsnames     spec_path() of the real code against `specPath`; the model's file names against Python's own % formatting and
              against the injectivity statement (distinct (plate, MJD) -> distinct names), plates up to 6 digits
  latestfs    latest_mjd() of the real code on generated directories (empty files: only names are read) with decoy plates
              (266 / 2660 / 1266 / 10266 ...), plates >= 10000, files of other kinds, a sub-directory, now and then a malformed
              name; both layouts (path= : one directory; topdir/run2d/pppp : one directory per plate); the listing the model
              gets is os.listdir of what is on disk; oracle = maximum over the (plate, MJD) pairs that were written
  globmatch   CPython's glob.glob with latest_mjd's pattern on those directories against `globMatch` on os.listdir
  readspecfs  readspec(path=tree) against `readspecFS`: the model gets os.listdir(tree) and the file contents keyed by the
              name on disk, forms the names itself and globs the listing for mjd=None
"""
import os
import numpy as np
from harness import core
from harness.props import c16 as base


def _decoys(rng, force_big=None):
    force_big = (rng.random() < 0.6) if force_big is None else force_big
    b = rng.choice([rng.randint(1, 9), rng.randint(10, 99), rng.randint(100, 999), 266, 999, 100])
    cand = [b, 10 * b, 1000 + b, 10000 + b, 10 * b + rng.randint(0, 9), 10000 + 10 * b, 100000 + b, 9999, 10000, 1000]
    cand = sorted({c for c in cand if 0 < c < 1000000})
    k = rng.randint(2, min(6, len(cand)))
    pl = rng.sample(cand, k)
    if b not in pl:
        pl[0] = b
    if force_big and not any(p >= 10000 for p in pl):
        pl.append(10000 + b)
    if not force_big:
        pl = [p for p in pl if p < 10000] or [b]
    return pl


def gen_decoy_spec(rng):
    """tree kind 'decoy': plate numbers that contain one another's digits, at least one plate >= 10000; otherwise as 'full'"""
    while True:
        plates = [p for p in _decoys(rng, True) if p < 100000][:4]
        if any(p >= 10000 for p in plates) and len(plates) >= 2:
            break
    files = []
    for p in plates:
        for m in rng.sample(range(55100, 59000), rng.choice([1, 2])):
            files.append([p, m])
    rng.shuffle(files)
    nper = rng.randint(2, 3)
    npixs = rng.sample(range(3, 12), len(files))
    out = []
    for k, (p, m) in enumerate(files):
        out.append({'plate': p, 'mjd': m, 'no': k, 'nfib': rng.randint(2, 6), 'npix': npixs[k],
                    'c0': float('%.12g' % rng.uniform(3.3, 3.9)), 'c1': float('%.12g' % rng.uniform(5e-5, 3e-4)),
                    'zbest': True, 'photo': True, 'nper': nper})
    return {'kind': 'decoy', 'files': out, 'platelist': base.gen_platelist(rng, out, True)}


# ---------------------------------------------------------------- fsnames
def names_stream(ctx):
    from pydl.pydlspec2d.spec1d import spec_path
    rng = ctx.rng
    lines, cases = [], []
    for _ in range(ctx.n(40, 400)):
        n = rng.randint(1, 6)
        pairs = []
        for p in _decoys(rng)[:n]:
            pairs.append([p, rng.choice([rng.randint(10000, 99999), rng.randint(0, 9999), rng.randint(50000, 60000)])])
        if rng.random() < 0.3:
            pairs.append(list(pairs[0]))
        mode = rng.choice(['path', 'topdir', 'topdir', 'topdir/'])
        topdir = '/data/%s%d' % (rng.choice(['redux', 'sPec', 'x']), rng.randint(0, 9)) + ('/' if mode == 'topdir/' else '')
        run2d = rng.choice(['26', 'v5_7_0', 'r2d', '103'])
        path = '/some/where/%d' % rng.randint(0, 99) if mode == 'path' else None
        cases.append({'stream': 'fsnames', 'pairs': pairs, 'path': path, 'topdir': topdir, 'run2d': run2d})
        lines.append({'p': 'C16', 'op': 'fsnames', 'path': path, 'topdir': topdir, 'run2d': run2d, 'pairs': pairs})
    model = core.driver(lines)
    for case, m in zip(cases, model):
        pairs = case['pairs']
        pl = np.array([p for p, _ in pairs], dtype='i4')
        try:
            impl = [str(x) for x in spec_path(pl, path=case['path'], topdir=case['topdir'], run2d=case['run2d'])]
        except Exception as e:
            impl = {'err': core.exc_kind(e)}
        ctx.seen(case)
        ctx.count('fsnames:%s:%s' % ('path' if case['path'] else 'topdir', 'plate>=10000' if any(p >= 10000 for p, _ in pairs) else 'plate<10000'))
        if impl != m['dirs']:
            ctx.disagree('fsnames', case, impl, m['dirs'])
        # the names readspec forms, by Python's own formatting (independent of the model)
        want = ['spPlate-%04d-%05d.fits' % (p, mm) for p, mm in pairs]
        if m['names'] != want or (isinstance(impl, list) and m['files'] != [os.path.join(d, w) for d, w in zip(impl, want)]):
            ctx.disagree('fsnames:names', case, want, m['names'])
        # statement: two requests share a file only when they are the same (plate, MJD)
        seen = {}
        for (p, mm), d, w in zip(pairs, impl if isinstance(impl, list) else [''] * len(pairs), want):
            f = os.path.join(d, w)
            if f in seen and seen[f] != (p, mm):
                ctx.violate('readspec:file-name-shared', 'requests %s and %s share the file name %s' % (seen[f], (p, mm), f), case)
            seen[f] = (p, mm)


# ---------------------------------------------------------------- latestfs
_dir_no = [0]


def latest_fs_stream(ctx):
    from pydl.pydlspec2d.spec1d import latest_mjd
    rng = ctx.rng
    lines, cases, impls = [], [], []
    glines, gcases = [], []
    for _ in range(ctx.n(30, 250)):
        _dir_no[0] += 1
        top = os.path.join(ctx.tmpdir(), 'fs%d' % _dir_no[0])
        os.makedirs(top)
        plates = _decoys(rng)
        layout = rng.choice(['path', 'path', 'topdir'])
        run2d = 'r2d'
        files = []        # (plate, mjd) written
        for p in plates:
            for m in rng.sample(range(51000, 60000), rng.choice([0, 1, 1, 2, 3])):
                files.append((p, m))
        malformed = rng.random() < 0.12
        dirs = {}

        def put(d, name):
            os.makedirs(d, exist_ok=True)
            open(os.path.join(d, name), 'w').close()
        for p, m in files:
            d = top if layout == 'path' else os.path.join(top, run2d, '%04d' % p)
            put(d, 'spPlate-%04d-%05d.fits' % (p, m))
            if rng.random() < 0.4:     # things the glob must not pick
                put(d, rng.choice(['photoPlate-%04d-%05d.fits', 'spZbest-%04d-%05d.fits', 'spPlate-%04d-%05d.fit',
                                   'xspPlate-%04d-%05d.fits', 'spPlate-%04d-%05d.fits.gz', 'spplate-%04d-%05d.fits']) % (p, m + 7))
        if layout == 'path':
            os.makedirs(os.path.join(top, 'r1d'), exist_ok=True)
            put(top, 'platelist.fits')
        bad_plate = None
        if malformed and files:
            bad_plate = files[0][0]
            d = top if layout == 'path' else os.path.join(top, run2d, '%04d' % bad_plate)
            put(d, rng.choice(['spPlate-%04d-final.fits', 'spPlate-%04d-123456.fits', 'spPlate-%04d-.fits', 'spPlate-%04d-1234.fits']) % bad_plate)
        ask = list(plates) + [rng.choice(plates)]
        if rng.random() < 0.3:
            ask.append(rng.randint(1, 20000))      # most likely a plate without files
        rng.shuffle(ask)
        for d, _, names in os.walk(top):
            dirs[d] = sorted(names + [x for x in os.listdir(d) if os.path.isdir(os.path.join(d, x))])
        if layout == 'path':
            # CPython's glob with the pattern of latest_mjd against `globMatch` on os.listdir (ties the glob model to glob itself)
            import glob as _glob
            for q in sorted(set(ask)):
                real = sorted(os.path.basename(x) for x in _glob.glob('{0}/spPlate-{1:04d}-*.fits'.format(top, q)))
                glines.append({'p': 'C16', 'op': 'globmatch', 'plate': q, 'names': dirs[top]})
                gcases.append(({'stream': 'globmatch', 'plate': q, 'names': dirs[top]}, real))
        kw = {'path': top} if layout == 'path' else {'topdir': top, 'run2d': run2d}
        try:
            impl = [int(x) for x in latest_mjd(np.array(ask, dtype='i4'), **kw)]
        except Exception as e:
            impl = {'err': core.exc_kind(e)}
        case = {'stream': 'latestfs', 'layout': layout, 'files': [list(f) for f in files], 'ask': ask,
                'listing': {os.path.relpath(d, top): v for d, v in dirs.items()}, 'malformed_for': bad_plate}
        cases.append(case)
        impls.append(impl)
        lines.append({'p': 'C16', 'op': 'latestfs', 'path': top if layout == 'path' else None, 'topdir': top, 'run2d': run2d,
                      'dirs': [[d, v] for d, v in dirs.items()], 'plates': ask})
    for (gcase, real), m in zip(gcases, core.driver(glines) if glines else []):
        ctx.seen(gcase, nontrivial=bool(real))
        ctx.count('globmatch:%s' % ('picks %d' % min(len(real), 3)))
        if sorted(m) != real:
            ctx.disagree('globmatch', gcase, real, sorted(m))
    model = core.driver(lines)
    for case, impl, m in zip(cases, impls, model):
        ctx.seen(case)
        big = any(p >= 10000 for p, _ in case['files'] if p in case['ask'])
        ctx.count('latestfs:%s:%s:%s' % (case['layout'], 'plate>=10000' if big else 'plate<10000',
                                         'ok' if isinstance(impl, list) else impl['err']))
        if case['malformed_for'] is not None:
            ctx.count('latestfs:malformed-name-present')
        same = (impl == m) if isinstance(impl, list) and isinstance(m, list) else (isinstance(impl, dict) == isinstance(m, dict))
        if not same:
            ctx.disagree('latestfs', case, impl, m)
        if case['malformed_for'] is None:
            # statement level: the largest MJD among the plate's files, 0 without files; decoys play no role
            want = [max([mm for q, mm in case['files'] if q == p] or [0]) for p in case['ask']]
            if impl != want:
                ctx.violate('latest_mjd:not-the-largest', 'latest_mjd(%s) = %s, the files written say %s (files %s)'
                            % (case['ask'], impl, want, sorted(case['files'])), case)


# ---------------------------------------------------------------- readspecfs
def readspec_fs_stream(ctx, tree, count):
    reqs = [(c, r) for c, r in base.gen_requests(ctx, tree, count) if r.get('znum') is None]
    reqs = base._directed(tree)[:2] + reqs
    tj = []
    for f in tree.json:
        tj.append(dict(f, name='spPlate-%04d-%05d.fits' % (f['plate'], f['mjd'])))
    listing = sorted(os.listdir(tree.top))
    for t in tj:
        assert t['name'] in listing
    chunk = 40
    with base.Env(tree.top):
        for i in range(0, len(reqs), chunk):
            blk = reqs[i:i + chunk]
            model = core.driver([{'p': 'C16', 'op': 'readspecfs', 'tree': tj, 'dir': tree.top, 'listing': listing,
                                  'reqs': [{'plate': r['plate'], 'mjd': r['mjd'], 'fiber': r['fiber']} for _, r in blk]}])[0]
            for (conv, r), m in zip(blk, model):
                case = {'stream': 'readspecfs', 'conv': conv, 'tree': tree.spec, 'req': r}
                impl, raw = base.impl_readspec(tree, r)
                ctx.seen(case, nontrivial='ok' in impl)
                ctx.count('readspecfs:%s:%s:%s' % (tree.spec['kind'], 'mjd=None' if r['mjd'] is None else 'mjd given',
                                                   'ok' if 'ok' in impl else impl['err']))
                same = (impl == m) if ('ok' in impl and 'ok' in m) else (('err' in impl) == ('err' in m))
                if not same:
                    ctx.disagree('readspecfs', case, base._short(impl), base._short(m))

"""C17 - rejection, mask interpolation, sky masking act on exactly the intended pixels (DESIGN §5 C17)."""
import os
import math
import itertools
import numpy as np
from harness import core
from harness.props import c17_ext
from harness.props import c17_ext2
from harness.props import c17_ext3

ID = 'C17'
LEAN_MODULES = ['PydlVerif.Props.C17']
P = 'PydlVerif.C17.'
THEOREMS = [P + t for t in (
    'reject_mask', 'reject_invvar_units', 'qdone_iff_unchanged',
    'maskinterp_only_masked', 'maskinterp_linear', 'ends_constant', 'single_good',
    'independent_of_masked_values', 'maskinterp_x_writeback', 'maskinterp_x_linear', 'maskinterp_axis_line',
    'aesthetics_only_bad', 'median_reflect', 'skymask_dilate',
    # extension round
    'finishMask_spec', 'reject_mask_nd', 'qdone_iff_unchanged_full', 'groupbadpix_without_maxrej',
    'ends_constant_x', 'single_good_x', 'independent_of_masked_values_x', 'maskinterp_axis_line_x',
    # second extension round
    'median_reflect_2d', 'median_none_2d', 'median_2d_clauses', 'median_none', 'median_1d_boundary',
    'median_reflect_refusals', 'median_reflect_single',
    'aesthetics_full_only_bad', 'aesthetics_clean', 'aesthetics_unknown_raises', 'aesthetics_is_maskinterp', 'aesthetics_nothing',
    'aesthetics_replaced_values', 'aesthetics_mean_values', 'aesthetics_mean_exact',
    'damp_formula', 'damp_values', 'damp_ends_good', 'damp_halves_first_good', 'damp_no_good_raises',
    'maskinterp_all_masked', 'maskinterp_refusals', 'reject_refusals',
    # third extension round
    'maxrej_never_limits', 'maxrej_ok_is_rule', 'maxrej_ignored_when_skipped', 'maxrej_1d_ignored', 'maxrej_nogroupdim_ignored',
    'maxrej_nd_groupdim_raises', 'maxrej_checks_clauses', 'groupbadpix_no_groups', 'skymask_image')]
RULE = ('djs_reject: every combination of sigma-scalar/sigma-array/invvar/none x lower/upper/maxdev set or not x inmask/outmask '
        'given or not x sticky x grow 0..3 on 1-D data of 0..14 pixels (exact dyadic residuals placed on a grid of k*sigma away '
        'from the limits, plus random floats), 2-D data with grow=0, shape mismatches; djs_maskinterp: 1-3-D (and 0/4-D refusals), '
        'every IDL axis, index and x mode, const, masks all-good/all-bad/one-good/random, int and bool masks; aesthetics: 4 methods + '
        'unknown; djs_median(reflect): n 1..40, widths 1..11 (odd, even), 2-D oracle-only; skymask: mask dtypes int16/int32/int64/uint64/None, '
        'ngrow 0..5, rows of 1..24 pixels (shorter than the window included). A case is non-trivial when at least one pixel is '
        'masked / rejected / flagged or an input is refused; distinct = distinct case payloads. Extension streams (c17_ext.py): rejf = '
        'djs_reject with maxrej=None on 1-4-D data x grow 0..3 x arbitrary (also inconsistent) groupdim/groupsize/groupbadpix x '
        'inmask/outmask/sticky, every outlier pattern on small 2-D/3-D arrays (<= 6 / 9 pixels) x grow 0..3; maxrej-observed = calls WITH '
        'maxrej, counted only (ignored / applied / raises), never judged; med2 = 2-D reflecting median incl. axes of length 1, axes shorter '
        'than the padding, even widths; damp = aesthetics(damp) with leading/trailing/no bad pixels, no good pixel, a 600-pixel spectrum. '
        'Third extension (c17_ext3.py): rejm = djs_reject WITH maxrej scalar/list/ndarray x groupdim/groupsize None/scalar/list/ndarray (consistent or not) x groupbadpix on 0-4-D data '
        '(axes of length 0, 1, 2.., shape mismatches, model=None) plus a grid over all small shapes; skyi = skymask on images of 0-4 rows, ngrow -1..5, non-2-D refusals; med2s = 2-D reflecting '
        'median around axes of length 1 / shorter than ceil(w/2) / width > size. '
        'Second extension (c17_ext2.py): medb / med2b = djs_median 1-D (n 1..30) / 2-D (axes 1..11) x widths 1..11 odd and even x boundary '
        'none/reflect/nearest/wrap/unknown; aesf = aesthetics with all five methods and an unknown one on clean, partly masked (leading / '
        'trailing / inner runs) and fully masked spectra')
TRUSTED = ['hand-written models lean/PydlVerif/Model/Reject.lean, Interp.lean tied to the code by the bit-exact I/O correspondence of this run',
           'numpy argsort (sorting permutation), scipy.signal.medfilt (median of an odd window), numpy mean/std, libm sqrt: parameters of the model',
           'oracles: scipy.ndimage.median_filter(mode="reflect"), scipy.ndimage.binary_dilation, direct Python restatement of the rejection and interpolation rules']
ASSUMPTIONS = ['finite float64 data (no NaN/inf); x vectors have distinct values along each line',
               'djs_reject: lower, upper >= 0, maxdev > 0, sigma >= 0; bool masks; maxrej=None (calls with maxrej are outside the statement and not '
               'modelled: observed only); grow acts on the C-order flattened array (IDL where() semantics): the neighbours of a rejected point of an '
               'N-D array are its neighbours in the flattening',
               'when neither sigma nor invvar is given the scalar np.std fallback is treated as the supplied sigma',
               'aesthetics: invvar >= 0 (method "mean" overwrites invvar < 0 too), 1-D flux; method "damp" is outside the statement: by design (IDL too) it '
               'multiplies the whole spectrum, good pixels included, by erf damping factors when bad pixels lead or trail; modelled and compared, erf is a parameter',
               'djs_median reflect: array at least ceil(w/2) long (shorter arrays are refused with ValueError), odd width (even widths are refused by scipy medfilt)',
               'skymask: a pixel is flagged when bit 27 or 28 of its two\'s-complement integer value is set (negative int16 values sign-extend)']

def F(v):
    """float -> bit pattern, every NaN canonical"""
    v = float(v)
    return 0x7ff8000000000000 if v != v else core.f2b(v)


def _canon(m):
    """canonicalise NaN patterns in a model answer"""
    if isinstance(m, dict):
        return {k: _canon(v) for k, v in m.items()}
    if isinstance(m, list):
        return [_canon(v) for v in m]
    if isinstance(m, int) and not isinstance(m, bool) and (m & 0x7ff0000000000000) == 0x7ff0000000000000 and (m & 0xfffffffffffff):
        return 0x7ff8000000000000
    return m


def _bits(l):
    return [F(v) for v in l]


def _unbits(l):
    return [core.b2f(b) for b in l]


def _same(a, b):
    """bit-exact list comparison"""
    return len(a) == len(b) and all(F(u) == F(v) for u, v in zip(a, b))


# ================================================================ np.interp
def _interp(ctx):
    rng = ctx.rng
    cases = []
    for _ in range(ctx.n(1200, 20000)):
        n = rng.choice([0, 1, 1, 2, 2, 3, 4, 5, 8])
        xp = sorted(set(round(rng.uniform(-10, 10), rng.choice([0, 1, 6])) for _ in range(n)))
        fp = [rng.choice([rng.uniform(-100, 100), float(rng.randrange(-5, 6))]) for _ in xp]
        xs = [rng.uniform(-12, 12) for _ in range(4)] + list(xp) + [x + 1e-9 for x in xp[:2]]
        cases.append({'stream': 'interp', 'xp': xp, 'fp': fp, 'x': xs})
    lines = [{'p': 'C17', 'op': 'interp', 'xp': _bits(c['xp']), 'fp': _bits(c['fp']), 'x': _bits(c['x'])} for c in cases]
    model = core.driver_parallel(lines)
    for c, m in zip(cases, model):
        try:
            impl = {'ok': _bits(np.interp(np.array(c['x']), np.array(c['xp']), np.array(c['fp'])))}
        except Exception as e:
            impl = {'err': core.exc_kind(e)}
        ctx.seen(c, nontrivial=len(c['xp']) > 0)
        ctx.count('interp:n=%d' % min(len(c['xp']), 3))
        if impl != m:
            ctx.disagree('interp', c, impl, m)


# ================================================================ djs_maskinterp
def _impl_mi(c):
    from pydl.pydlutils.image import djs_maskinterp
    y = np.array(c['y'], dtype=c.get('ydtype', 'd')).reshape(c['yshape'])
    mask = np.array(c['mask'], dtype=c.get('mdtype', 'i4')).reshape(c['mshape'])
    x = None if c['xshape'] is None else np.array(c['x'], dtype='d').reshape(c['xshape'])
    y0 = y.copy()
    try:
        r = djs_maskinterp(y, mask, xval=x, axis=c['axis'], const=c['const'])
        out = {'ok': _bits(np.asarray(r, dtype='d').ravel())}
    except Exception as e:
        return {'err': core.exc_kind(e)}
    if _bits(y.ravel()) != _bits(y0.ravel()):
        # history: the caller interpolates the same data again (other mask): the answer must be that of THOSE arguments
        try:
            m2 = np.zeros_like(mask)
            again = _bits(np.asarray(djs_maskinterp(y, m2, xval=x, axis=c['axis'], const=c['const']), dtype='d').ravel())
            fresh = _bits(np.asarray(djs_maskinterp(y0.copy(), m2.copy(), xval=x, axis=c['axis'], const=c['const']), dtype='d').ravel())
            if again != fresh:
                out['history'] = 'the data array was overwritten by the first call: a second call with nothing masked returns other values than the data'
        except Exception as e:
            out['history'] = 'second call raises ' + core.exc_kind(e)
    return out


def _line_mi(c):
    return {'p': 'C17', 'op': 'mi', 'yshape': c['yshape'], 'mshape': c['mshape'], 'xshape': c['xshape'],
            'y': _bits(c['y']), 'bad': [int(v != 0) for v in c['mask']], 'x': _bits(c['x']) if c['xshape'] is not None else [],
            'axis': c['axis'], 'const': c['const']}


def _gen_mi(ctx):
    rng = ctx.rng
    cases = []

    def mk(shape, axis, xmode, const, density, mshape=None, xshape=None, kind='rand'):
        n = int(np.prod(shape)) if shape else 1
        y = [rng.choice([round(rng.uniform(-50, 50), 3), float(rng.randrange(-3, 4)), rng.uniform(-1e3, 1e3)]) for _ in range(n)]
        if density == 'allgood':
            mask = [0] * n
        elif density == 'allbad':
            mask = [rng.choice([1, 2, -1])] * n
        else:
            pbad = {'sparse': 0.2, 'half': 0.5, 'dense': 0.85}[density]
            mask = [rng.choice([1, 1, 3, -2]) if rng.random() < pbad else 0 for _ in range(n)]
        mdtype = rng.choice(['i4', 'i2', 'i8', 'bool', 'u1'])
        if mdtype in ('bool', 'u1'):
            mask = [int(v != 0) for v in mask]
        xs = None
        if xmode:
            # distinct abscissae, in random order along each line
            base = rng.sample(range(-5 * n - 5, 5 * n + 5), n)
            xs = [b * rng.choice([1.0]) + rng.choice([0.0, 0.25, 0.5]) for b in base]
            if rng.random() < 0.5:
                xs = [v * 0.37 for v in xs]
            if rng.random() < 0.3:
                xs = sorted(xs)
        ms = list(shape) if mshape is None else mshape
        nm = int(np.prod(ms)) if ms else 1
        mask = (mask * (nm // max(n, 1) + 1))[:nm]
        xsh = None
        if xmode:
            xsh = list(shape) if xshape is None else xshape
            nx = int(np.prod(xsh)) if xsh else 1
            xs = (xs * (nx // max(n, 1) + 1))[:nx]
        cases.append({'stream': 'mi', 'kind': kind, 'yshape': list(shape), 'mshape': ms, 'xshape': xsh, 'y': y, 'mask': mask,
                      'mdtype': mdtype, 'x': xs, 'axis': axis, 'const': const})

    dens = ['allgood', 'allbad', 'sparse', 'half', 'dense', 'dense']
    for _ in range(ctx.n(2000, 60000)):
        ndim = rng.choice([1, 1, 2, 2, 3])
        shape = [rng.choice([1, 2, 3, 4, 5, 7, 12] if ndim == 1 else [1, 2, 3, 4, 5]) for _ in range(ndim)]
        if ndim == 1 and rng.random() < 0.3:
            shape = [rng.randrange(1, 30)]
        axis = rng.randrange(ndim) if ndim > 1 else rng.choice([None, 0])
        mk(shape, axis, rng.random() < 0.45, rng.random() < 0.5, rng.choice(dens))
    # refusals
    for _ in range(ctx.n(40, 400)):
        ndim = rng.choice([2, 3, 4, 2, 3])
        shape = [rng.choice([1, 2, 3]) for _ in range(ndim)]
        k = rng.randrange(5)
        if k == 0:
            mk(shape, None, rng.random() < 0.5, False, 'half', kind='axis-none')
        elif k == 1:
            mk(shape, rng.choice([-1, ndim, ndim + 2]), rng.random() < 0.5, False, 'half', kind='axis-bad')
        elif k == 2:
            ms = list(shape)
            ms[rng.randrange(ndim)] += 1
            mk(shape, 0, False, False, 'half', mshape=ms, kind='mask-shape')
        elif k == 3:
            xs = list(shape)
            xs[rng.randrange(ndim)] += 1
            mk(shape, 0, True, False, 'half', xshape=xs, kind='x-shape')
        else:
            mk(shape, rng.randrange(ndim), rng.random() < 0.5, rng.random() < 0.5, 'half', kind='ndim%d' % ndim)
    # bounded-exhaustive: every mask of every length up to 6 (quick) / 9 (thorough), index mode, const on and off
    for n in range(1, ctx.n(7, 10)):
        y = [round(rng.uniform(-9, 9), 2) for _ in range(n)]
        for bits in range(2 ** n):
            for const in (False, True):
                cases.append({'stream': 'mi', 'kind': 'rand', 'yshape': [n], 'mshape': [n], 'xshape': None, 'y': y,
                              'mask': [(bits >> k) & 1 for k in range(n)], 'mdtype': 'i4', 'x': None, 'axis': None, 'const': const})
    mk([3], 0, False, False, 'half', mshape=[4], kind='mask-shape')
    mk([3], 0, True, False, 'half', xshape=[2], kind='x-shape')
    # counts stored in an integer array: the interpolated values are still real numbers (the result is a float array)
    for c in list(cases):
        if c['kind'] == 'rand' and len(c['yshape']) == 1 and rng.random() < 0.1:
            cases.append(dict(c, y=[float(round(v)) for v in c['y']], ydtype=rng.choice(['i8', 'i4', 'i2'])))
    return cases


def _mi_expect_error(c):
    if c['mshape'] != c['yshape']:
        return True
    if c['xshape'] is not None and c['xshape'] != c['yshape']:
        return True
    nd = len(c['yshape'])
    if nd == 1:
        return False
    if c['axis'] is None or c['axis'] < 0 or c['axis'] > nd - 1:
        return True
    return nd not in (2, 3)


def _lines_of(arr, k):
    a = np.moveaxis(arr, k, -1)
    return a.reshape(-1, a.shape[-1])


def _oracle_mi(ctx, c, impl):
    """independent restatement: only masked samples change; linear between nearest good neighbours in index / x order;
    constant ends; single good value everywhere; no good value: unchanged"""
    experr = _mi_expect_error(c)
    if 'err' in impl:
        if not experr or impl['err'] != 'ValueError':
            ctx.violate('mi:exception:' + impl['err'], 'djs_maskinterp raised %s on valid input' % impl['err'], c)
        return
    if experr:
        ctx.violate('mi:not-refused:' + c['kind'], 'invalid input accepted', c)
        return
    shape = c['yshape']
    nd = len(shape)
    k = 0 if nd == 1 else nd - 1 - c['axis']
    y = np.array(c['y']).reshape(shape)
    out = np.array(_unbits(impl['ok'])).reshape(shape)
    mask = np.array(c['mask']).reshape(shape)
    x = np.array(c['x']).reshape(shape) if c['xshape'] is not None else None
    Y, O, M = _lines_of(y, k), _lines_of(out, k), _lines_of(mask, k)
    X = _lines_of(x, k) if x is not None else None
    for li in range(Y.shape[0]):
        yl, ol, ml = Y[li], O[li], M[li]
        L = len(yl)
        xl = X[li] if X is not None else np.arange(L, dtype='d')
        good = ml == 0
        ng = int(good.sum())
        if ng == L or ng == 0:
            if not _same(list(ol), list(yl)):
                ctx.violate('mi:changed-without-interpolation', 'line %d: all good / no good sample but values changed' % li, c)
            continue
        if ng == 1:
            v = yl[good][0]
            if not all(o == v for o in ol):
                ctx.violate('mi:single-good', 'line %d: one good value %r but output %r' % (li, v, list(ol)), c)
            continue
        order = sorted(range(L), key=lambda i: xl[i])
        gpos = [p for p, i in enumerate(order) if good[i]]
        for p, i in enumerate(order):
            if good[i]:
                if F(ol[i]) != F(yl[i]):
                    ctx.violate('mi:good-changed', 'line %d: unmasked sample %d changed %r -> %r' % (li, i, yl[i], ol[i]), c)
                continue
            before = [q for q in gpos if q < p]
            after = [q for q in gpos if q > p]
            if not before:
                if ol[i] != yl[order[after[0]]]:
                    ctx.violate('mi:end-not-constant', 'line %d: leading masked sample %d = %r, first good value %r' % (li, i, ol[i], yl[order[after[0]]]), c)
            elif not after:
                if ol[i] != yl[order[before[-1]]]:
                    ctx.violate('mi:end-not-constant', 'line %d: trailing masked sample %d = %r, last good value %r' % (li, i, ol[i], yl[order[before[-1]]]), c)
            else:
                a, b = order[before[-1]], order[after[0]]
                want = yl[a] + (yl[b] - yl[a]) * (xl[i] - xl[a]) / (xl[b] - xl[a])
                tol = 1e-9 * max(1.0, abs(yl[a]), abs(yl[b]))
                if not abs(ol[i] - want) <= tol:
                    ctx.violate('mi:not-linear', 'line %d: masked sample %d = %r, linear interpolation between samples %d and %d gives %r' % (li, i, ol[i], a, b, want), c)


def _maskinterp(ctx, cases=None):
    rng = ctx.rng
    cases = cases if cases is not None else _gen_mi(ctx)
    model = core.driver_parallel([_line_mi(c) for c in cases], chunk=500)
    for c, m in zip(cases, model):
        impl = _impl_mi(c)
        nbad = sum(1 for v in c['mask'] if v != 0)
        ctx.seen(c, nontrivial=nbad > 0 or 'err' in impl)
        ctx.count('mi:%dD:%s:%s:%s' % (len(c['yshape']), 'x' if c['xshape'] is not None else 'idx', 'const' if c['const'] else 'noconst',
                                       'err' if 'err' in impl else 'ok'))
        if c['kind'] != 'rand':
            ctx.count('mi:refusal:' + c['kind'])
        hist = impl.pop('history', None) if isinstance(impl, dict) else None
        if hist:
            ctx.violate('mi:history', hist, c)
        if impl != m:
            ctx.disagree('mi', c, impl, m)
        _oracle_mi(ctx, c, impl)
        # masked values do not influence the result (when a good sample exists on every line)
        if 'ok' in impl and nbad and c['kind'] == 'rand':
            c2 = dict(c, y=[v if mk == 0 else rng.uniform(-1e6, 1e6) for v, mk in zip(c['y'], c['mask'])], ydtype='d')
            shape = c['yshape']
            k = 0 if len(shape) == 1 else len(shape) - 1 - c['axis']
            M = _lines_of(np.array(c['mask']).reshape(shape), k)
            if all((ml == 0).any() for ml in M):
                impl2 = _impl_mi(c2)
                if impl2 != impl:
                    ctx.violate('mi:masked-values-leak', 'output depends on the values under the mask', c)


# ================================================================ aesthetics
def _aesthetics(ctx):
    rng = ctx.rng
    from pydl.pydlspec2d.spec2d import aesthetics
    cases = []
    for _ in range(ctx.n(1600, 40000)):
        n = rng.choice([1, 2, 3, 5, 8, 13, 30])
        flux = [rng.choice([round(rng.uniform(-20, 20), 2), rng.uniform(-1e3, 1e3)]) for _ in range(n)]
        d = rng.choice([0.0, 0.2, 0.5, 0.9, 1.0])
        # a tiny inverse variance (faint-flux units, 1e-10 .. 1e-300) is not zero: such a pixel is good
        iv = [0.0 if rng.random() < d else rng.choice([1.0, rng.uniform(0.01, 50), rng.uniform(0.01, 50), 10.0 ** rng.uniform(-300, -9)]) for _ in range(n)]
        if rng.random() < 0.1 and n > 1:
            k = rng.randrange(n)
            iv = [0.0] * n
            iv[k] = 2.5
        method = rng.choice(['traditional', 'traditional', 'noconst', 'mean', 'nothing', 'bogus'])
        cases.append({'stream': 'aes', 'flux': flux, 'invvar': iv, 'method': method})
    lines = []
    impls = []
    for c in cases:
        flux, iv = np.array(c['flux']), np.array(c['invvar'])
        with np.errstate(all='ignore'):
            mean = float(flux[iv > 0].mean()) if (iv > 0).any() else float('nan')
        try:
            r = aesthetics(flux.copy(), iv.copy(), method=c['method'])
            impl = {'ok': _bits(np.asarray(r, dtype='d'))}
        except Exception as e:
            impl = {'err': core.exc_kind(e)}
        impls.append(impl)
        lines.append({'p': 'C17', 'op': 'aes', 'flux': _bits(c['flux']), 'invvar': _bits(c['invvar']), 'method': c['method'], 'mean': F(mean)})
    model = [_canon(m) for m in core.driver_parallel(lines)]
    for c, impl, m in zip(cases, impls, model):
        nzero = sum(1 for v in c['invvar'] if v == 0)
        ctx.seen(c, nontrivial=nzero > 0)
        ctx.count('aes:%s:%s' % (c['method'], 'err' if 'err' in impl else ('masked' if nzero else 'clean')))
        if impl != m:
            ctx.disagree('aes', c, impl, m)
        if 'err' in impl:
            if not (c['method'] == 'bogus' and nzero > 0 and impl['err'].startswith('PydlException')):
                ctx.violate('aes:exception:' + impl['err'], 'aesthetics(%s) raised %s' % (c['method'], impl['err']), c)
            continue
        out = _unbits(impl['ok'])
        for i, (f, v, o) in enumerate(zip(c['flux'], c['invvar'], out)):
            if v != 0 and not (o == f):
                ctx.violate('aes:good-flux-changed:' + c['method'], 'pixel %d has invvar %r but flux %r -> %r' % (i, v, f, o), c)
                break


# ================================================================ djs_median reflect
def _median(ctx):
    rng = ctx.rng
    from pydl.pydlutils.math import djs_median
    from scipy.ndimage import median_filter
    cases = []
    for _ in range(ctx.n(1600, 40000)):
        n = rng.choice([1, 2, 3, 4, 5, 6, 9, 17, rng.randrange(1, 41)])
        w = rng.choice([1, 2, 3, 3, 4, 5, 5, 6, 7, 9, 11])
        # '+ 0.0' turns -0.0 into 0.0: which of two equal zeros a median returns is not part of the property
        a = [rng.choice([float(rng.randrange(-5, 6)), round(rng.uniform(-9, 9), 2)]) + 0.0 for _ in range(n)]
        cases.append({'stream': 'med', 'a': a, 'w': w, 'boundary': rng.choice(['reflect', 'reflect', 'nearest'])})
    model = core.driver_parallel([{'p': 'C17', 'op': 'med', 'a': _bits(c['a']), 'w': c['w']} for c in cases])
    for c, m in zip(cases, model):
        a = np.array(c['a'])
        try:
            impl = {'ok': _bits(djs_median(a.copy(), width=c['w'], boundary=c['boundary']))}
        except Exception as e:
            impl = {'err': core.exc_kind(e)}
        n, w = len(c['a']), c['w']
        pad = (w + 1) // 2
        dom = w == 1 or (w % 2 == 1 and (n >= pad or n == 1))
        ctx.seen(c, nontrivial=w > 1)
        ctx.count('med:%s:%s' % ('odd' if w % 2 else 'even', 'err' if 'err' in impl else 'ok'))
        if impl != m:
            ctx.disagree('med', c, impl, m)
        if not dom:
            ctx.count('med:outside-domain')
            if impl != {'err': 'ValueError'}:
                ctx.violate('med:short-or-even-not-refused', 'n=%d w=%d: expected ValueError, got %s' % (n, w, impl), c)
            continue
        want = median_filter(a, size=w, mode='reflect')
        if 'err' in impl or _unbits(impl['ok']) != [float(v) for v in want]:
            ctx.violate('med:not-reflecting-median', 'n=%d w=%d differs from scipy.ndimage.median_filter(mode="reflect"): %s' % (n, w, impl), c)
    # 2-D: oracle only (the Lean model covers the 1-D branch)
    for _ in range(ctx.n(250, 5000)):
        w = rng.choice([3, 3, 5, 7])
        pad = (w + 1) // 2
        sh = (rng.randrange(pad, pad + 7), rng.randrange(pad, pad + 7))
        a = np.array([[round(rng.uniform(-9, 9), 2) + 0.0 for _ in range(sh[1])] for _ in range(sh[0])])
        c = {'stream': 'med2d', 'a': a.tolist(), 'w': w}
        ctx.seen(c)
        ctx.count('med2d:w=%d' % w)
        try:
            r = djs_median(a.copy(), width=w, boundary='reflect')
            ok = np.array_equal(r, median_filter(a, size=w, mode='reflect'))
            what = 'differs from scipy.ndimage.median_filter(mode="reflect")'
        except Exception as e:
            ok, what = False, 'raised ' + core.exc_kind(e)
        if not ok:
            ctx.violate('med2d:not-reflecting-median', '2-D %s w=%d %s' % (sh, w, what), c)


# ================================================================ djs_reject
def _impl_rej(c):
    from pydl.pydlutils.math import djs_reject
    shape = c['shape']
    arr = lambda l, dt: None if l is None else np.array(l, dtype=dt).reshape(c.get('shape_' + dt, shape) if False else shape)
    data = np.array(c['data'], dtype='d').reshape(shape)
    model = None if c['model'] is None else np.array(c['model'], dtype='d').reshape(c.get('mshape', shape))
    outmask = None if c['outmask'] is None else np.array(c['outmask'], dtype=bool).reshape(c.get('oshape', shape))
    inmask = None if c['inmask'] is None else np.array(c['inmask'], dtype=bool).reshape(c.get('ishape', shape))
    kw = {}
    if c['smode'] == 'sigma-scalar':
        kw['sigma'] = float(c['s'])
    elif c['smode'] == 'sigma-array':
        kw['sigma'] = np.array(c['s'], dtype='d').reshape(shape)
    elif c['smode'] == 'invvar':
        kw['invvar'] = np.array(c['s'], dtype='d').reshape(shape)
    for k in ('lower', 'upper', 'maxdev'):
        if c[k] is not None:
            kw[k] = c[k]
    try:
        with np.errstate(all='ignore'):
            out, q = djs_reject(data, model, outmask=outmask, inmask=inmask, grow=c['grow'], sticky=c['sticky'], **kw)
        return {'ok': [[int(bool(b)) for b in np.asarray(out).ravel()], bool(q)]}
    except Exception as e:
        return {'err': core.exc_kind(e)}


def _rej_sigma(c):
    """per-pixel sigma (or invvar) list the model gets; the np.std fallback is an external kernel"""
    n = len(c['data'])
    if c['smode'] == 'sigma-scalar':
        return [float(c['s'])] * n
    if c['smode'] in ('sigma-array', 'invvar'):
        return list(c['s'])
    if c['model'] is None or len(c['model']) != n:
        return [0.0] * n
    g = np.ones(n, dtype=bool)
    if c['outmask'] is not None and len(c['outmask']) == n:
        g &= np.array(c['outmask'], dtype=bool)
    if c['inmask'] is not None and len(c['inmask']) == n:
        g &= np.array(c['inmask'], dtype=bool)
    ig = g.nonzero()[0]
    d = np.array(c['data'])[ig] - np.array(c['model'])[ig]
    return [float(np.std(d)) if len(ig) > 0 else 0.0] * n


def _line_rej(c):
    ob = lambda v: None if v is None else F(v)
    return {'p': 'C17', 'op': 'rej', 'data': _bits(c['data']), 'model': None if c['model'] is None else _bits(c['model']),
            'outmask': c['outmask'], 'inmask': c['inmask'], 's': _bits(_rej_sigma(c)), 'useSigma': c['smode'] != 'invvar',
            'lower': ob(c['lower']), 'upper': ob(c['upper']), 'maxdev': ob(c['maxdev']), 'sticky': c['sticky'], 'grow': c['grow']}


def _oracle_rej(c):
    """direct restatement of the rule; returns (mask, qdone, near) - near = some pixel within 1e-9 of a limit"""
    n = len(c['data'])
    if c['model'] is None:
        return None
    sig = _rej_sigma(c)
    prev = [1] * n if c['outmask'] is None else c['outmask']
    inm = [1] * n if c['inmask'] is None else c['inmask']
    near = False
    bad = []
    for j in range(n):
        diff = c['data'][j] - c['model'][j]
        tests = []
        if c['smode'] == 'invvar':
            unit = (1.0 / math.sqrt(sig[j])) if sig[j] > 0 else None   # invvar 0: infinitely uncertain, never rejected
        else:
            unit = sig[j]
        if c['lower'] is not None and unit is not None:
            tests.append((-diff, c['lower'] * unit))
        if c['upper'] is not None and unit is not None:
            tests.append((diff, c['upper'] * unit))
        if c['maxdev'] is not None:
            tests.append((abs(diff), c['maxdev']))
        ex = False
        for v, lim in tests:
            if abs(v - lim) <= 1e-9 * max(abs(v), abs(lim)) and v != lim:
                near = True
            ex = ex or v > lim
        bad.append(bool(inm[j]) and (not c['sticky'] or bool(prev[j])) and ex)
    g = c['grow']
    out = [int(bool(inm[i]) and (not c['sticky'] or bool(prev[i])) and not any(bad[j] for j in range(max(0, i - g), min(n, i + g + 1))))
           for i in range(n)]
    return out, out == [int(bool(p)) for p in prev], near


def _gen_rej(ctx):
    rng = ctx.rng
    cases = []

    def mk(n, smode, lower, upper, maxdev, hasin, hasout, sticky, grow, exact=True, shape=None, kind='grid'):
        if exact:
            model = [rng.randrange(-8, 9) * 0.25 for _ in range(n)]
            if smode == 'invvar':
                s = [rng.choice([0.0, 0.25, 1.0, 1.0, 4.0, 16.0]) for _ in range(n)]
                unit = [0.0 if v == 0 else 1.0 / math.sqrt(v) for v in s]
            elif smode == 'sigma-array':
                s = [rng.choice([0.0, 0.5, 1.0, 1.0, 2.0]) for _ in range(n)]
                unit = s
            elif smode == 'sigma-scalar':
                s = rng.choice([0.0, 0.5, 1.0, 2.0])
                unit = [s] * n
            else:
                s, unit = None, [1.0] * n
            ks = [-8.0, -4.0, -2.0, -1.0, -0.25, 0.0, 0.0, 0.25, 1.0, 2.0, 4.0, 8.0]
            data = [m + rng.choice(ks) * (u if (u != 0 and rng.random() < 0.8) else 1.0) for m, u in zip(model, unit)]
        else:
            model = [rng.uniform(-5, 5) for _ in range(n)]
            data = [m + rng.gauss(0, 2) for m in model]
            if smode == 'invvar':
                s = [rng.choice([0.0, rng.uniform(0.05, 5)]) for _ in range(n)]
            elif smode == 'sigma-array':
                s = [rng.choice([0.0, rng.uniform(0.1, 3)]) for _ in range(n)]
            elif smode == 'sigma-scalar':
                s = rng.uniform(0.1, 3)
            else:
                s = None
        inmask = [int(rng.random() < 0.75) for _ in range(n)] if hasin else None
        outmask = [int(rng.random() < 0.7) for _ in range(n)] if hasout else None
        cases.append({'stream': 'rej', 'kind': kind, 'shape': shape or [n], 'data': data, 'model': model, 'outmask': outmask, 'inmask': inmask,
                      'smode': smode, 's': s, 'lower': lower, 'upper': upper, 'maxdev': maxdev, 'sticky': sticky, 'grow': grow})

    # limits that residuals of the exact grid hit EXACTLY (1, 2, 4 sigma; deviations 0.25, 1, 2): 'exceeds' is strict
    lims = {'lower': [None, 0.0, 1.5, 3.0, 1.0, 2.0, 4.0], 'upper': [None, 0.0, 1.5, 3.0, 1.0, 2.0, 4.0], 'maxdev': [None, 0.375, 3.0, 0.25, 1.0, 2.0]}
    combos = list(itertools.product(['sigma-scalar', 'sigma-array', 'invvar', 'none'], [0, 1, 2, 3], [False, True], [False, True], [False, True]))
    reps = ctx.n(8, 150)
    for smode, grow, hasin, hasout, sticky in combos:
        for _ in range(reps):
            n = rng.choice([1, 2, 3, 5, 8, 14])
            exact = smode != 'none' and rng.random() < 0.8
            lo, up, md = (rng.choice(lims[k]) if exact else rng.choice([None, 0.0, rng.uniform(0.2, 3)]) for k in ('lower', 'upper', 'maxdev'))
            if md == 0.0:
                md = 0.5
            mk(n, smode, lo, up, md, hasin, hasout, sticky, grow, exact=exact, kind='grid' if exact else 'float')
    for _ in range(ctx.n(250, 10000)):   # 2-D / 3-D data, grow = 0 (elementwise)
        shape = [rng.choice([1, 2, 3, 4]) for _ in range(rng.choice([2, 3]))]
        mk(int(np.prod(shape)), rng.choice(['sigma-scalar', 'sigma-array', 'invvar']), rng.choice(lims['lower']), rng.choice(lims['upper']),
           rng.choice(lims['maxdev']), rng.random() < 0.5, rng.random() < 0.5, rng.random() < 0.5, 0, shape=shape, kind='nd')
    for _ in range(ctx.n(30, 1000)):    # refusals and model=None
        n = rng.choice([2, 3, 5])
        mk(n, 'sigma-scalar', 1.5, 1.5, None, True, True, rng.random() < 0.5, rng.choice([0, 1]), kind='refuse')
        c = cases[-1]
        k = rng.randrange(5)
        if k == 0:
            c['model'] = c['model'] + [0.0]
            c['mshape'] = [n + 1]
        elif k == 1:
            c['outmask'] = c['outmask'][:-1]
            c['oshape'] = [n - 1]
        elif k == 2:
            c['inmask'] = c['inmask'] + [1]
            c['ishape'] = [n + 1]
        elif k == 3:
            c['model'] = None
            c['kind'] = 'model-none'
        else:
            c['model'] = None
            c['inmask'] = None
            c['kind'] = 'model-none'
    mk(0, 'sigma-scalar', 1.5, 1.5, None, False, False, False, 1, kind='empty')
    # bounded-exhaustive: every pattern of outliers on up to 6 (quick) / 9 (thorough) pixels x grow 0..3
    for n in range(1, ctx.n(7, 10)):
        for bits in range(2 ** n):
            for grow in (0, 1, 2, 3):
                hasin, hasout, sticky = rng.random() < 0.5, rng.random() < 0.5, rng.random() < 0.5
                cases.append({'stream': 'rej', 'kind': 'exhaustive', 'shape': [n], 'data': [8.0 * ((bits >> k) & 1) for k in range(n)],
                              'model': [0.0] * n, 'outmask': [int(rng.random() < 0.7) for _ in range(n)] if hasout else None,
                              'inmask': [int(rng.random() < 0.75) for _ in range(n)] if hasin else None, 'smode': 'sigma-scalar', 's': 1.0,
                              'lower': None, 'upper': 3.0, 'maxdev': None, 'sticky': sticky, 'grow': grow})
    return cases


def _reject(ctx, cases=None):
    cases = cases if cases is not None else _gen_rej(ctx)
    model = core.driver_parallel([_line_rej(c) for c in cases])
    for c, m in zip(cases, model):
        impl = _impl_rej(c)
        ctx.seen(c)
        ctx.count('rej:%s:%s:grow%d:%s' % (c['kind'], c['smode'], c['grow'], 'err' if 'err' in impl else 'ok'))
        if impl != m:
            ctx.disagree('rej', c, impl, m)
        n = len(c['data'])
        mism = any(k in c for k in ('mshape', 'oshape', 'ishape'))
        if c['model'] is None and 'oshape' not in c:
            want = {'ok': [c['inmask'] if c['inmask'] is not None else c['outmask'], False]}
            if impl != want:
                ctx.violate('rej:model-none', 'model=None must return (inmask or outmask, False): %s' % impl, c)
            continue
        if mism:
            if impl != {'err': 'ValueError'}:
                ctx.violate('rej:shape-mismatch-not-refused', 'got %s' % impl, c)
            continue
        if 'err' in impl:
            ctx.violate('rej:exception:%s:grow%s' % (impl['err'], '0' if c['grow'] == 0 else ('1' if c['grow'] == 1 else '>=2')),
                        'djs_reject raised %s' % impl['err'], _shrink_rej(c, lambda cc: 'err' in _impl_rej(cc)))
            continue
        out, q, near = _oracle_rej(c)
        if near:
            ctx.count('rej:near-threshold-skipped')
            continue
        ctx.count('rej:rejected=%s' % ('0' if all(out) else 'some'))
        if impl['ok'][0] != out:
            def bad(cc):
                r = _impl_rej(cc)
                o = _oracle_rej(cc)
                return 'ok' in r and not o[2] and r['ok'][0] != o[0]
            ctx.violate('rej:mask:grow%s' % ('0' if c['grow'] == 0 else '>0'),
                        'outmask %s differs from the rejection rule %s' % (impl['ok'][0], out), _shrink_rej(c, bad))
        elif impl['ok'][1] != q:
            ctx.violate('rej:qdone', 'qdone=%s but mask %s' % (impl['ok'][1], 'unchanged' if q else 'changed'), c)


def _shrink_rej(c, fails):
    if len(c['shape']) != 1:
        return c
    idx = list(range(len(c['data'])))

    def sub(ix):
        cc = dict(c, shape=[len(ix)])
        for k in ('data', 'model', 'outmask', 'inmask'):
            if c[k] is not None:
                cc[k] = [c[k][i] for i in ix]
        if isinstance(c['s'], list):
            cc['s'] = [c['s'][i] for i in ix]
        return cc
    try:
        if not fails(c):
            return c
        ix = core.shrink_list(idx, lambda ix: fails(sub(ix)), minlen=1)
        return sub(ix)
    except Exception:
        return c


# ================================================================ skymask
MASKBITS_PAR = """#
# maskbits table written by the C17 check (SPPIXMASK bits used by skymask and combine1fiber)
#
typedef struct {
    char flag[20]; # Flag name
    short bit; # Bit number, 0-indexed
    char label[30]; # Bit label
    char description[100]; # text description
} maskbits;

maskbits SPPIXMASK  0 NOPLUG "Fiber not listed in plugmap file"
maskbits SPPIXMASK 24 NODATA "No data available in combine B-spline (INVVAR=0)"
maskbits SPPIXMASK 25 COMBINEREJ "Rejected in combine B-spline"
maskbits SPPIXMASK 27 BADSKYCHI "Relative chi^2 > 3 in sky residuals at this wavelength"
maskbits SPPIXMASK 28 REDMONSTER "Contiguous region of bad chi^2 in sky residuals"
"""
DTYPES = {'int16': (-2**15, 2**15), 'int32': (-2**31, 2**31), 'int64': (-2**63, 2**63), 'uint64': (0, 2**64)}


def _setup_maskbits(ctx):
    import pydl.pydlutils.sdss as sdss
    f = os.path.join(ctx.tmpdir(), 'c17Maskbits.par')
    with open(f, 'w') as fh:
        fh.write(MASKBITS_PAR)
    sdss.maskbits = sdss.set_maskbits(maskbits_file=f)


def _impl_sky(c):
    from pydl.pydlspec2d.spec1d import skymask
    iv = np.array(c['invvar'], dtype='d')
    om = None if c['ormask'] is None else np.array(c['ormask'], dtype=c['dtype'])
    am = np.zeros(iv.shape, dtype='i4')
    try:
        r = skymask(iv, am, om, ngrow=c['ngrow']) if c['ngrow'] != 2 or c.get('explicit') else skymask(iv, am, om)
        return {'ok': [_bits(row) for row in np.asarray(r, dtype='d')]}
    except Exception as e:
        return {'err': core.exc_kind(e)}


def _oracle_sky(c):
    from scipy.ndimage import binary_dilation
    out = []
    for r, row in enumerate(c['invvar']):
        if c['ormask'] is None:
            fl = np.zeros(len(row), dtype=bool)
        else:
            fl = np.array([(int(v) & ((1 << 27) | (1 << 28))) != 0 for v in c['ormask'][r]], dtype=bool)
        if c['ngrow'] > 0 and fl.any():
            fl = binary_dilation(fl, structure=np.ones(2 * c['ngrow'] + 1, dtype=bool))
        out.append([0.0 if b else v for v, b in zip(row, fl)])
    return out


def _gen_sky(ctx):
    rng = ctx.rng
    cases = []
    for _ in range(ctx.n(1600, 60000)):
        nrows = rng.choice([1, 1, 2, 3])
        npix = rng.choice([1, 2, 3, 4, 5, 7, 11, 16, 24])
        dt = rng.choice(['int16', 'int32', 'int32', 'int64', 'uint64', None])
        ngrow = rng.choice([0, 1, 2, 2, 3, 4, 5])
        iv = [[rng.choice([0.0, 1.0, round(rng.uniform(0.01, 9), 3)]) for _ in range(npix)] for _ in range(nrows)]
        om = None
        if dt is not None:
            lo, hi = DTYPES[dt]
            p = rng.choice([0.0, 0.08, 0.3])
            om = []
            for _r in range(nrows):
                row = []
                for _k in range(npix):
                    v = rng.choice([0, 1, 1 << 24, (1 << 25) | 1, (1 << 26) | (1 << 29), rng.randrange(0, 1 << 27)])
                    if rng.random() < p:
                        v |= rng.choice([1 << 27, 1 << 28, (1 << 27) | (1 << 28)])
                    if rng.random() < 0.05:
                        v = rng.randrange(lo, hi)
                    if dt == 'int32' and rng.random() < 0.1:
                        v = v - 2**31 if v < 2**31 else v   # bit 31 set: stored negative
                    if dt == 'uint64' and rng.random() < 0.1:
                        v |= 1 << 63
                    if not (lo <= v < hi):
                        v = ((v - lo) % (hi - lo)) + lo
                    row.append(v)
                om.append(row)
        cases.append({'stream': 'sky', 'invvar': iv, 'ormask': om, 'dtype': dt, 'ngrow': ngrow})
    # bounded-exhaustive: every flag pattern on rows of up to 6 (quick) / 9 (thorough) pixels x ngrow 0..5
    for n in range(1, ctx.n(7, 10)):
        for bits in range(2 ** n):
            for ngrow in range(6):
                dt = rng.choice(['int16', 'int32', 'int64', 'uint64']) if n > 1 else 'int32'
                flag = rng.choice([1 << 27, 1 << 28]) if dt != 'int16' else -1
                cases.append({'stream': 'sky', 'invvar': [[1.0 + k for k in range(n)]], 'dtype': dt, 'ngrow': ngrow, 'explicit': True,
                              'ormask': [[(flag if (bits >> k) & 1 else rng.choice([0, 1, 1 << 10])) for k in range(n)]]})
    return cases


def _skymask(ctx, cases=None):
    _setup_maskbits(ctx)
    cases = cases if cases is not None else _gen_sky(ctx)
    model = core.driver_parallel([{'p': 'C17', 'op': 'sky', 'invvar': [_bits(r) for r in c['invvar']], 'ormask': c['ormask'],
                                   'ngrow': c['ngrow']} for c in cases])
    for c, m in zip(cases, model):
        impl = _impl_sky(c)
        want = _oracle_sky(c)
        nfl = sum(1 for r, row in enumerate(want) for v, w in zip(c['invvar'][r], row) if w != v)
        ctx.seen(c, nontrivial=nfl > 0)
        ctx.count('sky:%s:ngrow%d:%s' % (c['dtype'], c['ngrow'], 'err' if 'err' in impl else 'ok'))
        mm = {'ok': m} if isinstance(m, list) else m
        if impl != mm:
            ctx.disagree('sky', c, impl, mm)
        if 'err' in impl:
            ctx.violate('sky:exception:%s:%s' % (impl['err'], c['dtype']), 'skymask raised %s for %s ormask' % (impl['err'], c['dtype']),
                        _shrink_sky(c, lambda cc: 'err' in _impl_sky(cc)))
            continue
        got = [_unbits(r) for r in impl['ok']]
        if got != want:
            ctx.violate('sky:wrong-pixels:%s' % c['dtype'], 'masked inverse variance %s, expected %s' % (got, want),
                        _shrink_sky(c, lambda cc: 'ok' in _impl_sky(cc) and [_unbits(r) for r in _impl_sky(cc)['ok']] != _oracle_sky(cc)))


def _shrink_sky(c, fails):
    try:
        best = c
        for r in range(len(c['invvar'])):
            cc = dict(c, invvar=[c['invvar'][r]], ormask=None if c['ormask'] is None else [c['ormask'][r]])
            if fails(cc):
                best = cc
                break
        row = best['invvar'][0]
        if len(best['invvar']) != 1:
            return best
        ix = core.shrink_list(list(range(len(row))), lambda ix: fails(dict(
            best, invvar=[[row[i] for i in ix]], ormask=None if best['ormask'] is None else [[best['ormask'][0][i] for i in ix]])), minlen=1)
        return dict(best, invvar=[[row[i] for i in ix]], ormask=None if best['ormask'] is None else [[best['ormask'][0][i] for i in ix]])
    except Exception:
        return c


# ================================================================ the check
def run(ctx):
    core.audit(ctx, LEAN_MODULES, THEOREMS)
    _interp(ctx)
    _maskinterp(ctx)
    _aesthetics(ctx)
    _median(ctx)
    _reject(ctx)
    _skymask(ctx)
    c17_ext.run_all(ctx)
    c17_ext2.run_all(ctx)
    c17_ext3.run_all(ctx)


def replay(ctx, case):
    core.audit(ctx, LEAN_MODULES, THEOREMS)
    s = case.get('stream')
    if s == 'rej':
        _reject(ctx, [case])
    elif s == 'sky':
        _skymask(ctx, [case])
    elif s == 'mi':
        _maskinterp(ctx, [case])
    elif s in ('rejf', 'med2', 'damp'):
        c17_ext.replay(ctx, case)
    elif s in ('medb', 'med2b', 'aesf'):
        c17_ext2.replay(ctx, case)
    elif s in ('rejm', 'skyi', 'med2s'):
        c17_ext3.replay(ctx, case)
    else:
        run(ctx)


LEVEL_TEXT = ('Machine-checked Lean 4 theorems over executable models of djs_reject (maxrej=None; data of any shape, grow included), np.interp, '
              'djs_maskinterp1/djs_maskinterp, aesthetics, the reflecting djs_median and skymask: exact pointwise formula of the '
              'rejection mask incl. grow neighbours and qdone; masked-only change, linear interpolation between nearest good '
              'neighbours (index and x), constant ends, single good value, independence of masked values; aesthetics touches only '
              'invvar=0; reflecting median = median over the symmetric extension; skymask = dilation by ngrow of the flagged pixels - '
              'for all lengths, masks and options. Extension: the end of djs_reject from any working array and the rejection rule for data of any shape '
              '(neighbours in the flattened array), without maxrej the options groupdim/groupsize/groupbadpix are inert, x-mode versions of ends/single-good/independence and the x-mode axis '
              'lines. Second extension: the 2-D reflecting median (pixel (i,j) = window median of the image reflected about its four edges, every shape with '
              'both axes >= ceil(w/2), every odd width), boundary="none" in 1-D and 2-D (inner samples = window median, border samples unchanged), the '
              'other boundary clauses (1-D: forced to reflect; 2-D nearest/wrap/unknown: ValueError), every refusal of djs_median (even kernel, short axis), the single-value broadcast; '
              'aesthetics with every method: clean spectrum returned as it is, unknown method raises, nothing = flux, mean = the supplied mean at every pixel without '
              'positive invvar, traditional/noconst = djs_maskinterp with the explicit replaced values (straight line between the good neighbours, constant ends), '
              'damp = that result times the two erf factors of the code at EVERY pixel (good pixels unchanged exactly when first and last pixel are good; '
              'first good pixel halved when bad pixels lead), ValueError without a good pixel; djs_maskinterp with no unmasked sample returns the input, its refusals, the '
              'refusals / model=None return of djs_reject. Third extension: djs_reject called WITH maxrej is modelled as the code is (option checks, djs_laxisnum, Python max/range '
              'on the dimnum array; the loop body is a parameter) and proved never to limit anything: a call that returns, returns exactly the result of the call without maxrej '
              '(so the rejection rule carries over), 1-D data / no groupdim: equal to the call without maxrej, N-D data with groupdim: always an exception, the len() checks, the '
              'groupbadpix group starts are always empty; skymask on whole images: every row on its own, every ngrow (<= 0 = no dilation), non-2-D refused. The models are tied to the repository on every run by bit-exact I/O correspondence '
              'over all option combinations and checked against independent oracles (scipy.ndimage, numpy.median, direct restatement).')
LEVEL_NOTE = ('Trusted: Lean kernel, axioms propext/Classical.choice/Quot.sound at most, the hand-written models (validated only by the '
              'correspondence sample). Parameters, not verified: argsort, the window median kernel (1-D and 2-D: any function of the window), numpy mean/std '
              '(aesthetics("mean") is proved for the mean handed over; aesthetics_mean_exact instantiates it with the exact sum/count), sqrt, scipy erf (any function; '
              'damp_halves_first_good assumes erf 0 = 0). Theorems are over '
              'exact ordered fields, not IEEE floats. djs_reject called WITH maxrej is outside the property statement: it is modelled, compared (stream rejm: masks, qdone, exception kinds) and characterised by theorems, but the statement '
              'oracle does not judge it; the repository never applies maxrej (ignored for 1-D data and without groupdim, raises for N-D data with groupdim) - recorded as behaviour, not fixed; '
              'lines 380-427 (the loop body) are proved unreachable, their model maxrejBody is a reading no input can test - the theorems hold for any body. Modelled and compared (stream med2s with an independent oracle) but not proved: the 2-D reflecting median when an axis has '
              'length 1 < ceil(w/2) (numpy broadcasts it) or when width > array.size (kernel min(width, size)); aesthetics("damp") uses float32 pixel numbers in the code - exact for '
              'spectra shorter than 2^24 pixels, the model uses the integers. "aesthetics changes flux only where invvar = 0" is proved for traditional, noconst, mean (invvar >= 0), nothing; '
              'for damp it is FALSE by design (IDL too) and the exact factors are proved instead. Domain: lower, upper >= 0, maxdev > 0, sigma >= 0, invvar >= 0 in aesthetics_only_bad, '
              'distinct x values, finite data.')

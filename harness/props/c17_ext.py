"""C17 extension streams: djs_reject on data of any shape with grow, maxrej=None and arbitrary group options (`rejf`),
what the repository does when maxrej is given (`maxrej-observed`, counted only),
the 2-D reflecting median with a model (`med2`), aesthetics('damp') (`damp`)."""
import math
import itertools
import numpy as np
from harness import core


def F(v):
    v = float(v)
    return 0x7ff8000000000000 if v != v else core.f2b(v)


def _bits(l):
    return [F(v) for v in l]


def _unbits(l):
    return [core.b2f(b) for b in l]


# ================================================================ djs_reject on data of any shape, maxrej=None
def _call(c, with_maxrej):
    from pydl.pydlutils.math import djs_reject
    shape = c['shape']
    data = np.array(c['data'], dtype='d').reshape(shape)
    model = np.array(c['model'], dtype='d').reshape(shape)
    outmask = None if c['outmask'] is None else np.array(c['outmask'], dtype=bool).reshape(shape)
    inmask = None if c['inmask'] is None else np.array(c['inmask'], dtype=bool).reshape(shape)
    kw = {}
    if c['smode'] == 'sigma-scalar':
        kw['sigma'] = float(c['s'])
    elif c['smode'] == 'sigma-array':
        kw['sigma'] = np.array(c['s'], dtype='d').reshape(shape)
    else:
        kw['invvar'] = np.array(c['s'], dtype='d').reshape(shape)
    for k in ('lower', 'upper', 'maxdev'):
        if c[k] is not None:
            kw[k] = c[k]
    if with_maxrej:
        kw['maxrej'] = c['maxrej'][0] if c.get('scalar_maxrej') else c['maxrej']
    for k in ('groupdim', 'groupsize'):
        if c[k] is not None:
            kw[k] = c[k]
    try:
        with np.errstate(all='ignore'):
            out, q = djs_reject(data, model, outmask=outmask, inmask=inmask, grow=c['grow'], sticky=c['sticky'],
                                groupbadpix=c['groupbadpix'], **kw)
        if np.asarray(out).shape != tuple(shape):
            return {'err': 'shape:%s' % (np.asarray(out).shape,)}
        return {'ok': [[int(bool(b)) for b in np.asarray(out).ravel()], bool(q)]}
    except Exception as e:
        return {'err': core.exc_kind(e)}


def impl_rejf(c):
    return _call(c, False)


def _sig(c):
    n = len(c['data'])
    return [float(c['s'])] * n if c['smode'] == 'sigma-scalar' else list(c['s'])


def line_rejf(c):
    ob = lambda v: None if v is None else F(v)
    return {'p': 'C17', 'op': 'rejf', 'shape': c['shape'], 'data': _bits(c['data']), 'model': _bits(c['model']),
            'outmask': c['outmask'], 'inmask': c['inmask'], 's': _bits(_sig(c)), 'useSigma': c['smode'] != 'invvar',
            'lower': ob(c['lower']), 'upper': ob(c['upper']), 'maxdev': ob(c['maxdev']), 'sticky': c['sticky'], 'grow': c['grow'],
            'groupdim': c['groupdim'], 'groupsize': c['groupsize'], 'groupbadpix': c['groupbadpix']}


def oracle_rejf(c):
    """Statement-level restatement on the flattened array.  Returns (mask, qdone, near): a point is newly rejected when it
    is not excluded and beyond a limit; a point stays good when it is not excluded and no newly rejected point lies within
    `grow` positions of it in the flattened array.  The group options must not matter (maxrej is None)."""
    n = len(c['data'])
    sig = _sig(c)
    prev = [1] * n if c['outmask'] is None else c['outmask']
    inm = [1] * n if c['inmask'] is None else c['inmask']
    near = False
    cand = []
    for j in range(n):
        diff = c['data'][j] - c['model'][j]
        if c['smode'] == 'invvar':
            unit = (1.0 / math.sqrt(sig[j])) if sig[j] > 0 else None
        else:
            unit = sig[j]
        tests = []
        if c['lower'] is not None and unit is not None:
            tests.append((-diff, c['lower'] * unit))
        if c['upper'] is not None and unit is not None:
            tests.append((diff, c['upper'] * unit))
        if c['maxdev'] is not None:
            tests.append((abs(diff), c['maxdev']))
        ex = False
        for v, lim in tests:
            if abs(v - lim) <= 1e-9 * max(abs(v), abs(lim)) and v != lim:
                near = True
            ex = ex or v > lim
        cand.append(bool(inm[j]) and (not c['sticky'] or bool(prev[j])) and ex)
    g = c['grow']
    out = [int(bool(inm[i]) and (not c['sticky'] or bool(prev[i])) and not any(cand[j] for j in range(max(0, i - g), min(n, i + g + 1))))
           for i in range(n)]
    return out, out == [int(bool(p)) for p in prev], near


def _mk_rej(rng, shape, kind):
    n = int(np.prod(shape))
    nd = len(shape)
    smode = rng.choice(['sigma-scalar', 'sigma-array', 'invvar'])
    exact = rng.random() < 0.6
    if exact:
        model = [rng.randrange(-8, 9) * 0.25 for _ in range(n)]
        if smode == 'invvar':
            s = [rng.choice([0.0, 0.25, 1.0, 1.0, 4.0]) for _ in range(n)]
            unit = [0.0 if v == 0 else 1.0 / math.sqrt(v) for v in s]
        elif smode == 'sigma-array':
            s = [rng.choice([0.0, 0.5, 1.0, 1.0, 2.0]) for _ in range(n)]
            unit = s
        else:
            s = rng.choice([0.5, 1.0, 2.0])
            unit = [s] * n
        ks = [-8.0, -4.0, -2.0, -1.0, -0.25, 0.0, 0.0, 0.0, 0.25, 1.0, 2.0, 4.0, 8.0]
        data = [m + rng.choice(ks) * (u if (u != 0 and rng.random() < 0.8) else 1.0) for m, u in zip(model, unit)]
        lo, up, md = rng.choice([None, 0.0, 1.5, 3.0]), rng.choice([None, 0.0, 1.5, 3.0]), rng.choice([None, None, 0.375, 3.0])
    else:
        model = [rng.uniform(-5, 5) for _ in range(n)]
        data = [m + rng.gauss(0, 3) for m in model]
        if smode == 'invvar':
            s = [rng.choice([0.0, rng.uniform(0.05, 5)]) for _ in range(n)]
        elif smode == 'sigma-array':
            s = [rng.choice([0.0, rng.uniform(0.1, 3)]) for _ in range(n)]
        else:
            s = rng.uniform(0.1, 3)
        lo, up, md = (rng.choice([None, 0.0, rng.uniform(0.2, 2)]) for _ in range(3))
        if md == 0.0:
            md = 0.5
    hasin, hasout, sticky = rng.random() < 0.4, rng.random() < 0.4, rng.random() < 0.4
    return {'stream': 'rejf', 'kind': kind, 'shape': list(shape), 'data': data, 'model': model,
            'outmask': [int(rng.random() < 0.7) for _ in range(n)] if hasout else None,
            'inmask': [int(rng.random() < 0.8) for _ in range(n)] if hasin else None,
            'smode': smode, 's': s, 'lower': lo, 'upper': up, 'maxdev': md, 'sticky': sticky,
            'grow': rng.choice([0, 1, 1, 2, 3]),
            # maxrej is None: whatever the group options are, they must not matter (not even inconsistent ones)
            'groupdim': rng.choice([None, None, [1], [nd], [1, 2], [7]]),
            'groupsize': rng.choice([None, None, [1], [2], [3, 4]]),
            'groupbadpix': rng.random() < 0.5}


def gen_rejf(ctx):
    rng = ctx.rng
    cases = []
    for _ in range(ctx.n(1500, 40000)):
        nd = rng.choice([1, 2, 2, 2, 3, 3, 4])
        if nd == 1:
            shape = [rng.choice([1, 2, 3, 5, 8, 12, 14, 20])]
        else:
            shape = [rng.choice([1, 2, 3, 4, 5] if nd < 4 else [1, 2, 3]) for _ in range(nd)]
        cases.append(_mk_rej(rng, shape, '%dD' % nd))
    # bounded-exhaustive: every outlier pattern on small 2-D / 3-D arrays x grow 0..3 x groupbadpix
    shapes = [(1, 2), (2, 1), (2, 2), (1, 3), (3, 1), (2, 3), (3, 2), (1, 2, 2), (2, 1, 3)] + ctx.n([], [(2, 4), (4, 2), (3, 3), (2, 2, 2)])
    for sh in shapes:
        n = int(np.prod(sh))
        for bits in range(2 ** n):
            for grow in (0, 1, 2, 3):
                hasin, hasout, sticky = rng.random() < 0.4, rng.random() < 0.4, rng.random() < 0.4
                cases.append({'stream': 'rejf', 'kind': 'exhaustive', 'shape': list(sh), 'data': [8.0 * ((bits >> k) & 1) for k in range(n)],
                              'model': [0.0] * n, 'outmask': [int(rng.random() < 0.7) for _ in range(n)] if hasout else None,
                              'inmask': [int(rng.random() < 0.75) for _ in range(n)] if hasin else None, 'smode': 'sigma-scalar', 's': 1.0,
                              'lower': None, 'upper': 3.0, 'maxdev': None, 'sticky': sticky, 'grow': grow,
                              'groupdim': None, 'groupsize': None, 'groupbadpix': rng.random() < 0.5})
    return cases


def run_rejf(ctx, cases=None):
    cases = cases if cases is not None else gen_rejf(ctx)
    model = core.driver_parallel([line_rejf(c) for c in cases])
    for c, m in zip(cases, model):
        impl = impl_rejf(c)
        ctx.seen(c)
        nd = len(c['shape'])
        grp = '+'.join(k for k in ('groupdim', 'groupsize', 'groupbadpix') if c[k]) or 'nogroup'
        ctx.count('rejf:%dD:%s:grow%s:%s' % (nd, grp, '0' if c['grow'] == 0 else '>0', 'err' if 'err' in impl else 'ok'))
        if impl != m:
            ctx.disagree('rejf', c, impl, m)
        if 'err' in impl:
            ctx.violate('rejf:exception:%s:%dD' % (impl['err'].split(':')[0], min(nd, 2)), 'djs_reject raised %s' % impl['err'],
                        shrink_rejf(c, lambda cc: 'err' in impl_rejf(cc)))
            continue
        # the group options are inert without maxrej
        if c['groupdim'] is not None or c['groupsize'] is not None or c['groupbadpix']:
            plain = impl_rejf(dict(c, groupdim=None, groupsize=None, groupbadpix=False))
            if plain != impl:
                ctx.violate('rejf:group-options-not-inert', 'maxrej=None but the result depends on groupdim/groupsize/groupbadpix: %s vs %s' % (impl, plain), c)
        out, q, near = oracle_rejf(c)
        if near:
            ctx.count('rejf:near-threshold-skipped')
            continue
        ctx.count('rejf:rejected=%s' % ('0' if all(out) else 'some'))
        if impl['ok'][0] != out:
            def bad(cc):
                r = impl_rejf(cc)
                o = oracle_rejf(cc)
                return 'ok' in r and not o[2] and r['ok'][0] != o[0]
            why = 'grow-nd' if nd > 1 and c['grow'] > 0 else 'plain'
            ctx.violate('rejf:mask:%s' % why, 'outmask %s differs from the rejection rule %s' % (impl['ok'][0], out), shrink_rejf(c, bad))
        elif impl['ok'][1] != q:
            ctx.violate('rejf:qdone', 'qdone=%s but mask %s' % (impl['ok'][1], 'unchanged' if q else 'changed'), c)


def shrink_rejf(c, fails):
    if len(c['shape']) != 1:
        return c
    idx = list(range(len(c['data'])))

    def sub(ix):
        cc = dict(c, shape=[len(ix)])
        for k in ('data', 'model', 'outmask', 'inmask'):
            if c[k] is not None:
                cc[k] = [c[k][i] for i in ix]
        if isinstance(c['s'], list):
            cc['s'] = [c['s'][i] for i in ix]
        return cc
    try:
        if not fails(c):
            return c
        ix = core.shrink_list(idx, lambda ix: fails(sub(ix)), minlen=1)
        return sub(ix)
    except Exception:
        return c


# ================================================================ djs_reject WITH maxrej: observed, never judged
def observe_maxrej(ctx):
    """maxrej/groupdim/groupsize/groupbadpix are outside the property statement (modelled since the third round: c17_ext3 `rejm`).  This stream only
    records what the repository does with them (counters in the evidence): is the result the one of the same call without
    maxrej ('ignored'), different ('applied'), or an exception.  No disagreement and no violation can come from here."""
    rng = ctx.rng
    for _ in range(ctx.n(150, 2000)):
        nd = rng.choice([1, 1, 2, 3])
        shape = [rng.choice([2, 3, 5, 8])] if nd == 1 else [rng.choice([1, 2, 3]) for _ in range(nd)]
        c = _mk_rej(rng, shape, 'observe')
        c['stream'] = 'maxrej-observed'
        L = rng.choice([1, 1, 2])
        c['maxrej'] = [rng.choice([0, 1, 2]) for _ in range(L)]
        c['groupdim'] = rng.choice([None, [rng.randrange(1, nd + 1) for _ in range(L)]])
        c['groupsize'] = rng.choice([None, [rng.choice([1, 2, 3]) for _ in range(L)]])
        c['scalar_maxrej'] = L == 1 and rng.random() < 0.3
        with_mr = _call(c, True)
        without = _call(c, False)
        if 'err' in with_mr:
            what = 'raises-' + with_mr['err'].split(':')[0]
        elif with_mr == without:
            nrej = 0 if 'err' in without else sum(1 for b in without['ok'][0] if not b)
            what = 'ignored' if nrej > c['maxrej'][0] else 'same-result(nothing-to-limit)'
        else:
            what = 'applied'
        ctx.count('maxrej-observed:%dD:%s%s:%s' % (nd, 'groupdim' if c['groupdim'] else 'nogroupdim', ':badpix' if c['groupbadpix'] else '', what))


# ================================================================ 2-D reflecting median, model and oracle
def run_med2(ctx, cases=None):
    rng = ctx.rng
    from pydl.pydlutils.math import djs_median
    from scipy.ndimage import median_filter
    if cases is None:
        cases = []
        for _ in range(ctx.n(350, 8000)):
            w = rng.choice([1, 2, 3, 3, 3, 4, 5, 5, 7])
            pad = (w + 1) // 2
            if rng.random() < 0.75:
                sh = (rng.randrange(pad, pad + 6), rng.randrange(pad, pad + 6))
            else:
                sh = (rng.randrange(1, 6), rng.randrange(1, 6))
            a = [round(rng.uniform(-9, 9), 2) + 0.0 for _ in range(sh[0] * sh[1])]
            cases.append({'stream': 'med2', 'shape': list(sh), 'a': a, 'w': w})
    model = core.driver_parallel([{'p': 'C17', 'op': 'med2', 'n0': c['shape'][0], 'n1': c['shape'][1], 'a': _bits(c['a']), 'w': c['w']}
                                  for c in cases])
    for c, m in zip(cases, model):
        a = np.array(c['a']).reshape(c['shape'])
        w = c['w']
        pad = (w + 1) // 2
        try:
            r = djs_median(a.copy(), width=w, boundary='reflect')
            impl = {'ok': _bits(np.asarray(r, dtype='d').ravel())} if np.asarray(r).shape == a.shape else {'err': 'shape'}
        except Exception as e:
            impl = {'err': core.exc_kind(e)}
        dom = w == 1 or (w % 2 == 1 and min(c['shape']) >= pad)
        ctx.seen(c, nontrivial=w > 1)
        ctx.count('med2:%s:%s' % ('domain' if dom else 'outside', 'err' if 'err' in impl else 'ok'))
        if impl != m:
            ctx.disagree('med2', c, impl, m)
        if not dom:
            continue
        want = median_filter(a, size=w, mode='reflect')
        if 'err' in impl or _unbits(impl['ok']) != [float(v) for v in want.ravel()]:
            ctx.violate('med2d:not-reflecting-median', '2-D %s w=%d differs from scipy.ndimage.median_filter(mode="reflect"): %s'
                        % (c['shape'], w, impl.get('err', 'values')), c)


# ================================================================ aesthetics('damp')
def run_damp(ctx, cases=None):
    rng = ctx.rng
    from pydl.pydlspec2d.spec2d import aesthetics
    from scipy.special import erf
    if cases is None:
        cases = []
        for _ in range(ctx.n(500, 12000)):
            n = rng.choice([1, 2, 3, 5, 8, 13, 30])
            flux = [rng.choice([round(rng.uniform(-20, 20), 2), rng.uniform(-1e3, 1e3)]) for _ in range(n)]
            d = rng.choice([0.0, 0.2, 0.5, 0.9, 1.0])
            iv = [0.0 if rng.random() < d else rng.choice([1.0, rng.uniform(0.01, 50), 10.0 ** rng.uniform(-300, -9)]) for _ in range(n)]
            k = rng.randrange(4)
            if k == 0:
                iv[0] = 1.0
                iv[-1] = 2.0
            elif k == 1:
                iv[0] = 0.0
            elif k == 2:
                iv[-1] = 0.0
            cases.append({'stream': 'damp', 'flux': flux, 'invvar': iv})
        # a long spectrum: the damping length 250 is reached
        n = 600
        iv = [0.0] * 300 + [1.0] * 10 + [0.0] * 290
        cases.append({'stream': 'damp', 'flux': [round(rng.uniform(1, 20), 2) for _ in range(n)], 'invvar': iv})
    lines, impls = [], []
    for c in cases:
        flux, iv = np.array(c['flux']), np.array(c['invvar'])
        n = len(flux)
        good = np.nonzero(iv)[0]
        args = []
        if len(good) > 0:
            lo, hi = int(good.min()), int(good.max())
            if lo > 0:
                d1 = float(min(lo, 250))
                args += [(float(i) - float(lo)) / d1 for i in range(n)]
            if hi < n - 1:
                d2 = float(max(min(hi, 250), 1))
                args += [(float(hi) - float(i)) / d2 for i in range(n)]
        vals = [float(v) for v in erf(np.array(args, dtype='d'))] if args else []
        try:
            r = aesthetics(flux.copy(), iv.copy(), method='damp')
            impl = {'ok': _bits(np.asarray(r, dtype='d'))}
        except Exception as e:
            impl = {'err': core.exc_kind(e)}
        impls.append(impl)
        lines.append({'p': 'C17', 'op': 'damp', 'flux': _bits(c['flux']), 'invvar': _bits(c['invvar']), 'erfarg': _bits(args), 'erfval': _bits(vals)})
    model = core.driver_parallel(lines)
    for c, impl, m in zip(cases, impls, model):
        iv, flux = c['invvar'], c['flux']
        n = len(flux)
        nzero = sum(1 for v in iv if v == 0)
        ctx.seen(c, nontrivial=nzero > 0)
        lead, trail = iv[0] == 0, iv[-1] == 0
        ctx.count('damp:%s:%s' % ('allbad' if nzero == n else ('clean' if nzero == 0 else 'lead%d-trail%d' % (lead, trail)), 'err' if 'err' in impl else 'ok'))
        if impl != m:
            ctx.disagree('damp', c, impl, m)
        if nzero == n:
            if impl != {'err': 'ValueError'}:
                ctx.violate('damp:allbad-not-refused', 'no good pixel: expected ValueError, got %s' % impl, c)
            continue
        if 'err' in impl:
            ctx.violate('damp:exception:' + impl['err'], "aesthetics('damp') raised %s" % impl['err'], c)
            continue
        out = _unbits(impl['ok'])
        good = [i for i in range(n) if iv[i] != 0]
        lo, hi = good[0], good[-1]
        for i in good:
            f = 1.0
            if lo > 0:
                f *= 0.5 * (1.0 + math.erf((i - lo) / float(min(lo, 250))))
            if hi < n - 1:
                f *= 0.5 * (1.0 + math.erf((hi - i) / float(max(min(hi, 250), 1))))
            want = flux[i] * f
            if (f == 1.0 and out[i] != flux[i]) or abs(out[i] - want) > 1e-9 * max(1.0, abs(flux[i])):
                ctx.violate('damp:good-flux', 'pixel %d has invvar %r: flux %r -> %r, expected flux times the damping factor %r' % (i, iv[i], flux[i], out[i], f), c)
                break


def run_all(ctx):
    run_rejf(ctx)
    observe_maxrej(ctx)
    run_med2(ctx)
    run_damp(ctx)


def replay(ctx, case):
    s = case.get('stream')
    if s == 'rejf':
        run_rejf(ctx, [case])
    elif s == 'med2':
        run_med2(ctx, [case])
    elif s == 'damp':
        run_damp(ctx, [case])
    else:
        return False
    return True

"""C17, second extension round: the remaining branches of djs_median(width=) and aesthetics tied to their models.

Streams (model vs real code, bit-exact):
  medb   djs_median 1-D,  boundary in none/reflect/nearest/wrap/<unknown>   (model `djsMedian1`)
  med2b  djs_median 2-D,  boundary in none/reflect/nearest/wrap/<unknown>   (model `djsMedian2`)
  aesf   aesthetics with every method incl. 'damp' and an unknown name     (model `aestheticsFull`)
Oracles (numpy / scipy.ndimage / plain Python, neither pydl nor the model):
  'none'    : a sample whose window lies inside the array = numpy.median of the window, every other sample unchanged;
              ValueError exactly when min(width, size) is even
  'reflect' : scipy.ndimage.median_filter(mode='reflect') on the domain (odd width, every axis >= ceil(w/2))
  1-D other : the same as 'reflect' (the code forces it); 2-D nearest / wrap / unknown: ValueError
  aesthetics: clean spectrum returned as it is by every method; unknown method refused; good pixels untouched
              (not 'damp'); 'mean' puts fsum(good)/n into the others; traditional / noconst put the straight line between the
              nearest good neighbours, first / last good value at the ends; 'damp' = that times the two erf factors."""
import math
import numpy as np
from harness import core


def F(v):
    v = float(v)
    return 0x7ff8000000000000 if v != v else core.f2b(v)


def _bits(l):
    return [F(v) for v in l]


def _unbits(l):
    return [core.b2f(b) for b in l]


BOUNDS = ['none', 'none', 'reflect', 'nearest', 'wrap', 'bogus']


# ================================================================ djs_median 1-D, every boundary
def run_medb(ctx, cases=None):
    rng = ctx.rng
    from pydl.pydlutils.math import djs_median
    from scipy.ndimage import median_filter
    if cases is None:
        cases = []
        for _ in range(ctx.n(900, 20000)):
            n = rng.choice([1, 2, 3, 4, 5, 6, 9, 17, rng.randrange(1, 31)])
            w = rng.choice([1, 2, 3, 3, 4, 5, 5, 6, 7, 9, 11])
            a = [rng.choice([float(rng.randrange(-5, 6)), round(rng.uniform(-9, 9), 2)]) + 0.0 for _ in range(n)]
            cases.append({'stream': 'medb', 'a': a, 'w': w, 'boundary': rng.choice(BOUNDS)})
    model = core.driver_parallel([{'p': 'C17', 'op': 'medb', 'a': _bits(c['a']), 'w': c['w'], 'boundary': c['boundary']} for c in cases])
    for c, m in zip(cases, model):
        a = np.array(c['a'])
        n, w, b = len(c['a']), c['w'], c['boundary']
        try:
            r = djs_median(a.copy(), width=w, boundary=b)
            impl = {'ok': _bits(np.asarray(r, dtype='d'))} if np.asarray(r).shape == a.shape else {'err': 'shape'}
        except Exception as e:
            impl = {'err': core.exc_kind(e)}
        ctx.seen(c, nontrivial=w > 1)
        ctx.count('medb:%s:%s:%s' % (b, 'odd' if w % 2 else 'even', 'err' if 'err' in impl else 'ok'))
        if impl != m:
            ctx.disagree('medb', c, impl, m)
        if w == 1:
            if impl != {'ok': _bits(c['a'])}:
                ctx.violate('medb:width1-not-identity', 'width=1 must return the input, got %s' % impl, c)
            continue
        if b == 'none':
            if min(w, n) % 2 == 0:
                if impl != {'err': 'ValueError'}:
                    ctx.violate('medb:none:even-kernel-not-refused', 'n=%d w=%d: expected ValueError, got %s' % (n, w, impl), c)
                continue
            h = (w - 1) // 2
            want = [float(np.median(a[i - h:i + h + 1])) if (i >= h and i + h < n) else float(a[i]) for i in range(n)]
            if 'err' in impl or _unbits(impl['ok']) != want:
                ctx.violate('medb:none:wrong', "boundary='none' n=%d w=%d: %s, expected %s" % (n, w, impl, want), c)
            continue
        pad = (w + 1) // 2
        dom = w % 2 == 1 and (n >= pad or n == 1)
        if not dom:
            if impl != {'err': 'ValueError'}:
                ctx.violate('medb:short-or-even-not-refused', 'n=%d w=%d boundary=%s: expected ValueError, got %s' % (n, w, b, impl), c)
            continue
        want = median_filter(a, size=w, mode='reflect')
        if 'err' in impl or _unbits(impl['ok']) != [float(v) for v in want]:
            ctx.violate('medb:not-reflecting-median', 'n=%d w=%d boundary=%s differs from scipy.ndimage.median_filter(mode="reflect"): %s' % (n, w, b, impl), c)


# ================================================================ djs_median 2-D, every boundary
def run_med2b(ctx, cases=None):
    rng = ctx.rng
    from pydl.pydlutils.math import djs_median
    from scipy.ndimage import median_filter
    if cases is None:
        cases = []
        for _ in range(ctx.n(700, 15000)):
            w = rng.choice([1, 2, 3, 3, 3, 4, 5, 5, 7])
            pad = (w + 1) // 2
            if rng.random() < 0.7:
                sh = (rng.randrange(pad, pad + 7), rng.randrange(pad, pad + 7))
            else:
                sh = (rng.randrange(1, 6), rng.randrange(1, 6))
            a = [round(rng.uniform(-9, 9), 2) + 0.0 for _ in range(sh[0] * sh[1])]
            cases.append({'stream': 'med2b', 'shape': list(sh), 'a': a, 'w': w, 'boundary': rng.choice(BOUNDS)})
    model = core.driver_parallel([{'p': 'C17', 'op': 'med2b', 'n0': c['shape'][0], 'n1': c['shape'][1], 'a': _bits(c['a']), 'w': c['w'],
                                   'boundary': c['boundary']} for c in cases])
    for c, m in zip(cases, model):
        a = np.array(c['a']).reshape(c['shape'])
        n0, n1 = c['shape']
        w, b = c['w'], c['boundary']
        try:
            r = djs_median(a.copy(), width=w, boundary=b)
            impl = {'ok': _bits(np.asarray(r, dtype='d').ravel())} if np.asarray(r).shape == a.shape else {'err': 'shape'}
        except Exception as e:
            impl = {'err': core.exc_kind(e)}
        ctx.seen(c, nontrivial=w > 1)
        ctx.count('med2b:%s:%s:%s' % (b, 'odd' if w % 2 else 'even', 'err' if 'err' in impl else 'ok'))
        if impl != m:
            ctx.disagree('med2b', c, impl, m)
        if w == 1:
            if impl != {'ok': _bits(c['a'])}:
                ctx.violate('med2b:width1-not-identity', 'width=1 must return the input, got %s' % impl, c)
            continue
        if b in ('nearest', 'wrap', 'bogus'):
            if impl != {'err': 'ValueError'}:
                ctx.violate('med2b:unimplemented-boundary-not-refused', 'boundary=%s: expected ValueError, got %s' % (b, impl), c)
            continue
        if b == 'none':
            if min(w, n0 * n1) % 2 == 0:
                if impl != {'err': 'ValueError'}:
                    ctx.violate('med2b:none:even-kernel-not-refused', 'shape=%s w=%d: expected ValueError, got %s' % (c['shape'], w, impl), c)
                continue
            h = (w - 1) // 2
            want = [float(np.median(a[i - h:i + h + 1, j - h:j + h + 1])) if (i >= h and i + h < n0 and j >= h and j + h < n1) else float(a[i, j])
                    for i in range(n0) for j in range(n1)]
            if 'err' in impl or _unbits(impl['ok']) != want:
                ctx.violate('med2b:none:wrong', "boundary='none' shape=%s w=%d: %s, expected %s" % (c['shape'], w, impl, want), c)
            continue
        pad = (w + 1) // 2
        if w % 2 == 1 and min(n0, n1) >= pad:
            want = median_filter(a, size=w, mode='reflect')
            if 'err' in impl or _unbits(impl['ok']) != [float(v) for v in want.ravel()]:
                ctx.violate('med2d:not-reflecting-median', '2-D %s w=%d differs from scipy.ndimage.median_filter(mode="reflect"): %s'
                            % (c['shape'], w, impl.get('err', 'values')), c)
        elif (n0 < pad and n0 != 1) or (n1 < pad and n1 != 1) or (w % 2 == 0 and w <= n0 * n1 and min(n0, n1) >= pad):
            if impl != {'err': 'ValueError'}:
                ctx.violate('med2b:short-or-even-not-refused', 'shape=%s w=%d: expected ValueError, got %s' % (c['shape'], w, impl), c)


# ================================================================ aesthetics, every method
METHODS = ['traditional', 'noconst', 'mean', 'damp', 'damp', 'nothing', 'bogus']


def _erf_args(iv):
    n = len(iv)
    good = [i for i in range(n) if iv[i] != 0]
    args = []
    if good:
        lo, hi = good[0], good[-1]
        if lo > 0:
            d1 = float(min(lo, 250))
            args += [(float(i) - float(lo)) / d1 for i in range(n)]
        if hi < n - 1:
            d2 = float(max(min(hi, 250), 1))
            args += [(float(hi) - float(i)) / d2 for i in range(n)]
    return args


def run_aesf(ctx, cases=None):
    rng = ctx.rng
    from pydl.pydlspec2d.spec2d import aesthetics
    from scipy.special import erf
    if cases is None:
        cases = []
        for _ in range(ctx.n(1200, 30000)):
            n = rng.choice([1, 2, 3, 5, 8, 13, 30])
            flux = [rng.choice([round(rng.uniform(-20, 20), 2), rng.uniform(-1e3, 1e3)]) for _ in range(n)]
            d = rng.choice([0.0, 0.2, 0.5, 0.9, 1.0])
            iv = [0.0 if rng.random() < d else rng.choice([1.0, rng.uniform(0.01, 50), 10.0 ** rng.uniform(-300, -9)]) for _ in range(n)]
            k = rng.randrange(5)
            if k == 0:
                iv[0] = 1.0
                iv[-1] = 2.0
            elif k == 1:
                iv[0] = 0.0
            elif k == 2:
                iv[-1] = 0.0
            cases.append({'stream': 'aesf', 'flux': flux, 'invvar': iv, 'method': rng.choice(METHODS)})
    lines, impls = [], []
    for c in cases:
        flux, iv = np.array(c['flux']), np.array(c['invvar'])
        args = _erf_args(c['invvar']) if c['method'] == 'damp' else []
        vals = [float(v) for v in erf(np.array(args, dtype='d'))] if args else []
        with np.errstate(all='ignore'):
            mean = float(flux[iv > 0].mean()) if (iv > 0).any() else float('nan')
        try:
            r = aesthetics(flux.copy(), iv.copy(), method=c['method'])
            impl = {'ok': _bits(np.asarray(r, dtype='d'))}
        except Exception as e:
            impl = {'err': core.exc_kind(e)}
        impls.append(impl)
        lines.append({'p': 'C17', 'op': 'aesf', 'flux': _bits(c['flux']), 'invvar': _bits(c['invvar']), 'method': c['method'], 'mean': F(mean),
                      'erfarg': _bits(args), 'erfval': _bits(vals)})
    model = core.driver_parallel(lines)
    for c, impl, m in zip(cases, impls, model):
        iv, flux, meth = c['invvar'], c['flux'], c['method']
        n = len(flux)
        nzero = sum(1 for v in iv if v == 0)
        ctx.seen(c, nontrivial=nzero > 0)
        ctx.count('aesf:%s:%s' % (meth, 'err' if 'err' in impl else ('masked' if nzero else 'clean')))
        if 'ok' in m:
            m = {'ok': [F(core.b2f(x)) for x in m['ok']]}     # every NaN pattern canonical
        if impl != m:
            ctx.disagree('aesf', c, impl, m)
        if nzero == 0:
            if impl != {'ok': _bits(flux)}:
                ctx.violate('aesf:clean-spectrum-changed', 'no invvar == 0 but aesthetics(%s) gave %s' % (meth, impl), c)
            continue
        if meth == 'bogus':
            if not ('err' in impl and impl['err'].startswith('PydlException')):
                ctx.violate('aesf:unknown-method-not-refused', 'unknown method: got %s' % impl, c)
            continue
        if meth == 'damp' and nzero == n:
            if impl != {'err': 'ValueError'}:
                ctx.violate('damp:allbad-not-refused', 'no good pixel: expected ValueError, got %s' % impl, c)
            continue
        if 'err' in impl:
            ctx.violate('aesf:exception:' + impl['err'], 'aesthetics(%s) raised %s' % (meth, impl['err']), c)
            continue
        out = _unbits(impl['ok'])
        good = [i for i in range(n) if iv[i] != 0]
        if meth == 'nothing':
            want, tol = list(flux), 0.0
        elif meth == 'mean':
            pos = [flux[i] for i in range(n) if iv[i] > 0]
            gm = math.fsum(pos) / len(pos) if pos else float('nan')
            want, tol = [flux[i] if iv[i] > 0 else gm for i in range(n)], 1e-12
        else:
            # the straight line between the nearest good neighbours, constant ends; all bad: unchanged
            want = []
            for i in range(n):
                if iv[i] != 0 or not good:
                    want.append(flux[i])
                    continue
                lft = [g for g in good if g < i]
                rgt = [g for g in good if g > i]
                if not lft:
                    want.append(flux[rgt[0]])
                elif not rgt:
                    want.append(flux[lft[-1]])
                else:
                    a, b = lft[-1], rgt[0]
                    want.append(flux[a] + (flux[b] - flux[a]) * (i - a) / (b - a))
            tol = 1e-9
            if meth == 'damp':
                lo, hi = good[0], good[-1]
                for i in range(n):
                    f = 1.0
                    if lo > 0:
                        f *= 0.5 * (1.0 + math.erf((i - lo) / float(min(lo, 250))))
                    if hi < n - 1:
                        f *= 0.5 * (1.0 + math.erf((hi - i) / float(max(min(hi, 250), 1))))
                    want[i] = want[i] * f
        for i in range(n):
            exact = (meth != 'damp' and iv[i] != 0 and (meth != 'mean' or iv[i] > 0)) or tol == 0.0
            o, wv = out[i], want[i]
            okv = (o == wv) if exact else (o == wv or (o != o and wv != wv) or abs(o - wv) <= tol * max(1.0, abs(wv), max(abs(v) for v in flux)))
            if not okv:
                kind = 'good-flux-changed' if (iv[i] != 0 and meth != 'damp') else 'replaced-value'
                ctx.violate('aesf:%s:%s' % (kind, meth), 'pixel %d (invvar %r): flux %r -> %r, expected %r' % (i, iv[i], flux[i], o, wv), c)
                break


def run_all(ctx):
    run_medb(ctx)
    run_med2b(ctx)
    run_aesf(ctx)


def replay(ctx, case):
    s = case.get('stream')
    if s == 'medb':
        run_medb(ctx, [case])
    elif s == 'med2b':
        run_med2b(ctx, [case])
    elif s == 'aesf':
        run_aesf(ctx, [case])
    else:
        return False
    return True

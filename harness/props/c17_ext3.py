"""C17 third extension streams:
`rejm`  djs_reject called WITH maxrej (scalar / list / ndarray), groupdim / groupsize (None / scalar / list / ndarray, consistent
        and inconsistent), groupbadpix, data of 0..4 dimensions (axes of length 0, 1, 2.. included): the real routine against
        the model `djsRejectMaxrej` - masks and qdone exactly, exceptions as kinds.  The property statement does not cover
        maxrej: these cases are COMPARED (a difference is a correspondence disagreement) and counted, the statement oracle
        does not judge them.
`skyi`  skymask on whole 2-D images (several rows, ngrow <= 0 included) and its refusals, against the model `skymaskImage`.
`med2s` the 2-D reflecting median around short axes (length 1 is broadcast, width > size), model `djsMedianReflect2`,
        oracle = scipy median filter of the broadcast image."""
import itertools
import numpy as np
from harness import core
from harness.props import c17_ext
from harness.props.c17_ext import F, _bits, _unbits, _mk_rej, _sig


# ================================================================ djs_reject WITH maxrej
def _py(v):
    """case encoding -> Python argument: None, {'k':'scalar','v':3}, {'k':'list','v':[..]}, {'k':'array','v':[..]}"""
    if v is None:
        return None
    if v['k'] == 'scalar':
        return int(v['v'])
    if v['k'] == 'list':
        return list(v['v'])
    return np.array(v['v'], dtype='i8')


def _js(v):
    return None if v is None else (int(v['v']) if v['k'] == 'scalar' else list(v['v']))


def _arrays(c):
    shape = c['shape']
    data = np.array(c['data'], dtype='d').reshape(shape)
    model = None if c['model'] is None else np.array(c['model'], dtype='d').reshape(c.get('mshape', shape))
    outmask = None if c['outmask'] is None else np.array(c['outmask'], dtype=bool).reshape(c.get('oshape', shape))
    inmask = None if c['inmask'] is None else np.array(c['inmask'], dtype=bool).reshape(c.get('ishape', shape))
    kw = {}
    if c['smode'] == 'sigma-scalar':
        kw['sigma'] = float(c['s'])
    elif c['smode'] == 'sigma-array':
        kw['sigma'] = np.array(c['s'], dtype='d').reshape(shape)
    else:
        kw['invvar'] = np.array(c['s'], dtype='d').reshape(shape)
    for k in ('lower', 'upper', 'maxdev'):
        if c[k] is not None:
            kw[k] = c[k]
    return data, model, outmask, inmask, kw


def impl_rejm(c, with_maxrej=True):
    from pydl.pydlutils.math import djs_reject
    data, model, outmask, inmask, kw = _arrays(c)
    if with_maxrej:
        kw['maxrej'] = _py(c['maxrej'])
        for k in ('groupdim', 'groupsize'):
            if c[k] is not None:
                kw[k] = _py(c[k])
    try:
        with np.errstate(all='ignore'):
            out, q = djs_reject(data, model, outmask=outmask, inmask=inmask, grow=c['grow'], sticky=c['sticky'],
                                groupbadpix=c['groupbadpix'], **kw)
        if np.asarray(out).shape != tuple(c['shape']):
            return {'err': 'shape:%s' % (np.asarray(out).shape,)}
        return {'ok': [[int(bool(b)) for b in np.asarray(out).ravel()], bool(q)]}
    except Exception as e:
        return {'err': core.exc_kind(e)}


def line_rejm(c):
    ob = lambda v: None if v is None else F(v)
    return {'p': 'C17', 'op': 'rejm', 'shape': c['shape'], 'data': _bits(c['data']),
            'model': None if c['model'] is None else _bits(c['model']),
            'outmask': c['outmask'], 'inmask': c['inmask'], 's': _bits(_sig(c)), 'useSigma': c['smode'] != 'invvar',
            'lower': ob(c['lower']), 'upper': ob(c['upper']), 'maxdev': ob(c['maxdev']), 'sticky': c['sticky'], 'grow': c['grow'],
            'maxrej': _js(c['maxrej']), 'groupdim': _js(c['groupdim']), 'groupsize': _js(c['groupsize']),
            'groupbadpix': c['groupbadpix']}


def _arg(rng, L, vals, forms=('list', 'list', 'array', 'scalar')):
    k = rng.choice(forms)
    if k == 'scalar':
        return {'k': 'scalar', 'v': rng.choice(vals)}
    return {'k': k, 'v': [rng.choice(vals) for _ in range(L)]}


def _shape(rng):
    nd = rng.choice([1, 1, 1, 2, 2, 2, 3, 3, 4, 0])
    if nd == 0:
        return []
    if nd == 1:
        return [rng.choice([0, 1, 2, 3, 5, 8, 12])]
    return [rng.choice([0, 1, 1, 2, 2, 3, 4] if nd < 4 else [1, 2]) for _ in range(nd)]


def gen_rejm(ctx):
    rng = ctx.rng
    cases = []
    for _ in range(ctx.n(1400, 30000)):
        shape = _shape(rng)
        nd = len(shape)
        c = _mk_rej(rng, shape, 'rejm')
        c['stream'] = 'rejm'
        if nd > 1 and rng.random() < 0.5:
            c['grow'] = 0
        L = rng.choice([0, 1, 1, 1, 2, 2, 3])
        c['maxrej'] = _arg(rng, L, [0, 0, 1, 2, 5])
        L2 = L if rng.random() < 0.8 else rng.choice([0, 1, 2, 3])
        c['groupdim'] = None if rng.random() < 0.4 else _arg(rng, L2, list(range(-1, nd + 3)) + [1, 1, max(nd, 1)],
                                                              ('list', 'list', 'list', 'array', 'scalar'))
        L3 = L if rng.random() < 0.8 else rng.choice([0, 1, 2, 3])
        c['groupsize'] = None if rng.random() < 0.5 else _arg(rng, L3, [1, 2, 3, 100], ('list', 'list', 'list', 'array', 'scalar'))
        c['groupbadpix'] = rng.random() < 0.5
        n = len(c['data'])
        r = rng.random()
        if r < 0.04:
            c['model'] = None
        elif r < 0.08 and n > 0:
            c['model'] = c['model'] + [0.0]
            c['mshape'] = [n + 1]
        elif r < 0.12 and n > 0 and c['inmask'] is not None:
            c['inmask'] = c['inmask'] + [1]
            c['ishape'] = [n + 1]
        elif r < 0.16 and n > 0 and c['outmask'] is not None:
            c['outmask'] = c['outmask'] + [1]
            c['oshape'] = [n + 1]
        cases.append(c)
    # bounded-exhaustive: every shape with axes 0..2 (quick: 1..2) up to three dimensions x forms of the three options
    dims = ctx.n([1, 2], [0, 1, 2, 3])
    shapes = [[a] for a in dims + [4]] + [list(t) for t in itertools.product(dims, repeat=2)] + \
             [list(t) for t in itertools.product(dims[:3], repeat=3)] + [[1, 1, 1, 1], [2, 1, 1, 1]]
    S = lambda v: {'k': 'scalar', 'v': v}
    Ls = lambda v: {'k': 'list', 'v': v}
    A = lambda v: {'k': 'array', 'v': v}
    mrs = [S(1), Ls([1]), A([0]), Ls([1, 0])]
    gds = [None, S(1), Ls([1]), A([2]), Ls([1, 2]), Ls([3]), Ls([0]), Ls([4])]
    gss = [None, S(2), Ls([2]), A([1, 1])]
    for sh in shapes:
        n = int(np.prod(sh))
        for mr, gd, gs, gb in itertools.product(mrs, gds, gss, (False, True)):
            cases.append({'stream': 'rejm', 'kind': 'grid', 'shape': sh, 'data': [9.0 * ((k + 1) % 2) for k in range(n)], 'model': [0.0] * n,
                          'outmask': None, 'inmask': None, 'smode': 'sigma-scalar', 's': 1.0, 'lower': None, 'upper': 3.0,
                          'maxdev': None, 'sticky': False, 'grow': 0, 'maxrej': mr, 'groupdim': gd, 'groupsize': gs, 'groupbadpix': gb})
    return cases


def run_rejm(ctx, cases=None):
    cases = cases if cases is not None else gen_rejm(ctx)
    model = core.driver_parallel([line_rejm(c) for c in cases])
    for c, m in zip(cases, model):
        impl = impl_rejm(c)
        nd = len(c['shape'])
        ctx.seen(c)
        if impl != m:
            ctx.disagree('rejm', c, impl, m)
        # counted only - the statement does not cover maxrej: what did the option do?
        if 'err' in impl:
            what = 'raises-' + impl['err'].split(':')[0]
        else:
            without = impl_rejm(c, with_maxrej=False)
            if without != impl:
                what = 'applied'
            else:
                nrej = sum(1 for b in impl['ok'][0] if not b)
                mr = c['maxrej']['v'] if c['maxrej']['k'] == 'scalar' else (min(c['maxrej']['v']) if c['maxrej']['v'] else 0)
                what = 'ignored(more-rejected-than-maxrej)' if nrej > mr else 'same-as-without'
        gd = 'nogroupdim' if c['groupdim'] is None else 'groupdim-' + c['groupdim']['k']
        ctx.count('rejm:%dD:maxrej-%s:%s%s:%s' % (min(nd, 4), c['maxrej']['k'], gd, ':badpix' if c['groupbadpix'] else '', what))


# ================================================================ skymask on whole images
def impl_skyi(c):
    from pydl.pydlspec2d.spec1d import skymask
    inv = np.array(c['invvar'], dtype='d').reshape(c['shape'])
    om = None if c['ormask'] is None else np.array(c['ormask'], dtype=c['dtype']).reshape(c['shape'])
    try:
        r = skymask(inv, None, om, ngrow=c['ngrow'])
        if np.asarray(r).shape != inv.shape:
            return {'err': 'shape'}
        return {'ok': _bits(np.asarray(r, dtype='d').ravel())}
    except Exception as e:
        return {'err': core.exc_kind(e)}


def run_skyi(ctx, cases=None):
    rng = ctx.rng
    from harness.props import c17
    c17._setup_maskbits(ctx)
    if cases is None:
        cases = []
        for _ in range(ctx.n(400, 8000)):
            r = rng.random()
            if r < 0.1:
                shape = rng.choice([[rng.randrange(0, 6)], [2, 2, 2], [1, 3, 1], []])
            else:
                shape = [rng.choice([0, 1, 2, 3, 4]), rng.choice([0, 1, 2, 3, 5, 9, 17])]
            n = int(np.prod(shape))
            dtype = rng.choice(['i4', 'i8', 'i2', 'u8'])
            vals = [0, 0, 0, 1 << 27, 1 << 28, (1 << 27) | 5, 3 << 27, 1 << 26, 1 << 29] if dtype != 'i2' else [0, 0, 1, -1, 77]
            if dtype in ('i4', 'i8'):
                vals = vals + [-1, -(1 << 27), -(1 << 28) - 1]
            om = None if rng.random() < 0.15 else [rng.choice(vals) for _ in range(n)]
            cases.append({'stream': 'skyi', 'shape': shape, 'invvar': [rng.choice([0.0, 1.0, round(rng.uniform(0.1, 9), 3)]) for _ in range(n)],
                          'ormask': om, 'dtype': dtype, 'ngrow': rng.choice([-1, 0, 1, 2, 2, 3, 5])})
    lines = [{'p': 'C17', 'op': 'skyi', 'shape': c['shape'], 'invvar': _bits(c['invvar']), 'ormask': c['ormask'], 'ngrow': c['ngrow']}
             for c in cases]
    model = core.driver_parallel(lines)
    for c, m in zip(cases, model):
        impl = impl_skyi(c)
        sh = c['shape']
        ctx.seen(c, nontrivial=c['ormask'] is not None)
        ctx.count('skyi:%dD:%s:ngrow%s:%s' % (len(sh), 'none' if c['ormask'] is None else c['dtype'],
                                               '<=0' if c['ngrow'] <= 0 else '>0', 'err' if 'err' in impl else 'ok'))
        if impl != m:
            ctx.disagree('skyi', c, impl, m)
        # oracle: the statement on the image, row by row (Python integers; rows do not leak into each other)
        if len(sh) != 2:
            if impl != {'err': 'ValueError'}:
                ctx.violate('skyi:not-2d-accepted', 'invvar of shape %s: expected ValueError, got %s' % (sh, impl), c)
            continue
        if 'err' in impl:
            ctx.violate('skyi:exception:' + impl['err'], 'skymask raised %s' % impl['err'], c)
            continue
        out = _unbits(impl['ok'])
        g = max(c['ngrow'], 0)
        nr, npx = sh
        for r in range(nr):
            for i in range(npx):
                hit = c['ormask'] is not None and any(
                    ((c['ormask'][r * npx + j] >> 27) & 1) or ((c['ormask'][r * npx + j] >> 28) & 1)
                    for j in range(max(0, i - g), min(npx, i + g + 1)))
                want = 0.0 if hit else c['invvar'][r * npx + i]
                if out[r * npx + i] != want:
                    ctx.violate('skyi:pixel', 'row %d pixel %d: got %r, expected %r' % (r, i, out[r * npx + i], want), c)
                    break
            else:
                continue
            break


# ================================================================ 2-D reflecting median around short axes
def run_med2s(ctx, cases=None):
    rng = ctx.rng
    from pydl.pydlutils.math import djs_median
    from scipy.ndimage import median_filter
    if cases is None:
        cases = []
        for _ in range(ctx.n(300, 6000)):
            w = rng.choice([2, 3, 3, 4, 5, 5, 7, 9, 11])
            long = rng.randrange(1, 9)
            sh = rng.choice([(1, long), (long, 1), (1, 1), (rng.randrange(1, 4), rng.randrange(1, 4))])
            a = [round(rng.uniform(-9, 9), 2) + 0.0 for _ in range(sh[0] * sh[1])]
            cases.append({'stream': 'med2s', 'shape': list(sh), 'a': a, 'w': w})
    model = core.driver_parallel([{'p': 'C17', 'op': 'med2', 'n0': c['shape'][0], 'n1': c['shape'][1], 'a': _bits(c['a']), 'w': c['w']}
                                  for c in cases])
    for c, m in zip(cases, model):
        a = np.array(c['a']).reshape(c['shape'])
        w = c['w']
        pad = (w + 1) // 2
        n0, n1 = c['shape']
        try:
            r = djs_median(a.copy(), width=w, boundary='reflect')
            impl = {'ok': _bits(np.asarray(r, dtype='d').ravel())} if np.asarray(r).shape == a.shape else {'err': 'shape'}
        except Exception as e:
            impl = {'err': core.exc_kind(e)}
        ctx.seen(c)
        okax = lambda n: n >= pad or n == 1
        kind = 'refused-axis' if not (okax(n0) and okax(n1)) else ('broadcast' if (n0 < pad or n1 < pad) else 'plain')
        ctx.count('med2s:%s:w%s:%s' % (kind, 'odd' if w % 2 else 'even', 'err' if 'err' in impl else 'ok'))
        if impl != m:
            ctx.disagree('med2s', c, impl, m)
        if kind == 'refused-axis':
            if impl != {'err': 'ValueError'}:
                ctx.violate('med2s:short-axis-accepted', 'shape %s width %d: expected ValueError, got %s' % (c['shape'], w, impl), c)
            continue
        if kind == 'broadcast' and w % 2 == 1 and w <= n0 * n1:
            # the statement proved in Lean (median_reflect_2d_broadcast): the broadcast axis contributes copies of its one value,
            # i.e. the result is the reflecting median filter of the image tiled to `pad` along the short axes, at index 0 there
            reps = (pad if n0 < pad else 1, pad if n1 < pad else 1)
            big = np.tile(a, reps)
            want = median_filter(big, size=w, mode='reflect')[:n0, :n1]
            if 'err' in impl or _unbits(impl['ok']) != [float(v) for v in want.ravel()]:
                ctx.violate('med2s:broadcast-median', 'shape %s w=%d: differs from the reflecting median of the tiled image: %s'
                            % (c['shape'], w, impl.get('err', 'values')), c)


def run_all(ctx):
    run_rejm(ctx)
    run_skyi(ctx)
    run_med2s(ctx)


def replay(ctx, case):
    s = case.get('stream')
    if s == 'rejm':
        run_rejm(ctx, [case])
    elif s == 'skyi':
        run_skyi(ctx, [case])
    elif s == 'med2s':
        run_med2s(ctx, [case])
    else:
        return False
    return True

"""C18 - great-circle distance and SDSS great-circle coordinates (DESIGN §5 C18)."""
import math
import numpy as np
from harness import core

ID = 'C18'
LEAN_MODULES = ['PydlVerif.Props.C18']
P = 'PydlVerif.C18.'
THEOREMS = [P + t for t in (
    'gcirc_symm', 'gcirc_self', 'gcirc_range', 'gcirc_units', 'haversine_chord', 'gcirc_vector', 'gcirc_arccos_dot',
    'rot_inverse', 'rot_inverse_rev', 'rot_isometry', 'radec_munu_vec_roundtrip', 'munu_radec_vec_roundtrip',
    'radec_munu_radec', 'munu_radec_munu', 'munu_preserves_sep', 'nu_zero_circle', 'nu_zero_iff', 'node_fixed',
    'incl_formula', 'frame_eq', 'angles_x_inverse', 'x_angles_inverse')]
RULE = ('gcirc: point pairs built from a first point uniform on the sphere (or a pole / the RA seam), a position angle and a '
        'separation log-uniform from 1e-7 arcsec to 180 deg, plus coincident, exactly antipodal and antipodal-perturbed-by-10^-k '
        'families, in all three unit conventions, array and scalar calls, bad units; transforms: every stripe 0..90, points uniform on '
        'the sphere, the poles of both systems and their neighbourhoods, the node, points of the stripe circle; angles<->x: both '
        'latitude conventions, polar caps down to 1e-9 rad. Non-trivial = reaches the haversine / rotation arithmetic with finite '
        'input; distinct = distinct case payloads')
TRUSTED = ['hand-written model lean/PydlVerif/Model/Geom.lean tied to the code by the I/O correspondence of this run',
           'libm / numpy sin cos arcsin arccos arctan2 sqrt (parameters of the model; Mathlib real functions in the theorems)',
           'astropy units, Angle/Longitude wrapping and frame-transform machinery',
           'python decimal arithmetic (oracle, 60 digits, own series)']
ASSUMPTIONS = ['inputs are finite binary64 numbers; declinations / latitudes within [-90, 90] (astropy refuses others); RA within [-360, 720]',
               'x_to_angles is applied to unit vectors (it divides z by the SQUARED norm, which is 1 only there)',
               'angles_to_x / x_to_angles receive float arrays (an integer dtype would truncate the result)',
               'reading of "relative 1e-6 from micro-arcsecond to antipodal": gcirc differences its radian coordinates in binary64, so '
               'its result is the exact distance of two points whose radian coordinates carry a rounding of a few ulp (deg2rad of each '
               'coordinate in the degree/hour conventions; the subtraction across the RA seam in all conventions). Against the points AS '
               'GIVEN the check demands |error| <= 1e-6*separation + 2^-50*max(1,|radian coordinate|) rad (the floor is ~1e-9 arcsec, '
               'below the resolution of the inputs themselves; it is immaterial from 1e-3 arcsec = 9 decades below 180 deg upwards). '
               'Whenever the two coordinate differences are exact in binary64 (nearby points, no seam between them) it demands 1e-6 '
               'relative with NO floor against the radian coordinates the formula receives, down to 1e-7 arcsec.',
               'round trips and transforms are held to 1e-9 rad, except within 0.1 deg of a pole of the output system where '
               'arcsin/arccos of a binary64 number cannot resolve better than ~2e-8 rad (tolerance 2e-7 rad there; 4e-8 rad for arccos)']
LEVEL_TEXT = ('Machine-checked Lean 4 theorems over an executable model of gcirc, the mu/nu rotation, stripe_to_eta/incl and '
              'angles_to_x/x_to_angles, interpreted over the reals with Mathlib sin/cos/arcsin/arccos/arg, for ALL inputs: symmetry, '
              'gcirc(p,p)=0, range [0,pi], equality of the three unit conventions, haversine = chord (hence gcirc = 2 arcsin(|u-v|/2) '
              '= arccos(u.v)), the rotation is an isometry inverted exactly by the inverse transform (any commutative ring), '
              'ICRS->(mu,nu)->ICRS and (mu,nu)->ICRS->(mu,nu) are the identity (Cartesian level for all inputs; angles for |lat|<90, '
              'longitude mod 360), separations are preserved, nu=0 is the great circle of the stated inclination through the node, '
              'angles<->x are mutual inverses. Tied to the real code on every run by I/O correspondence at 1e-9 (incl. the astropy '
              'ICRS<->SDSSMuNu transforms for every stripe 0..90) and by an independent 60-digit decimal vector oracle.')
LEVEL_NOTE = ('Theorems are over exact reals: float rounding is not modelled. "Never NaN" (sqrt argument <= 1 under rounding) is '
              'SEARCHED (antipodal and near-antipodal families, 6e5 / 1.2e7 pairs per run), not proved; the clip that keeps the frame '
              'transforms free of NaN is modelled and exercised at the poles of both systems. Trusted: Lean kernel, Mathlib, axioms '
              'propext/Classical.choice/Quot.sound, the hand-written model (validated by the correspondence sample only), libm, '
              'astropy frame machinery, python decimal.')

NODE = 95.0
ASEC = 3600.0
PI = math.pi


# ---------------------------------------------------------------- helpers
def _fb(rows):
    return [[core.f2b(x) for x in r] for r in rows]


def _rows(ans):
    return [[core.b2f(b) for b in r] for r in ans]


def _circ(a, b):
    """circular difference of two longitudes in degrees"""
    return abs((a - b + 180.0) % 360.0 - 180.0)


def _unit_scale(units):
    return 1.0 if units == 0 else math.degrees(1.0) * ASEC


def _to_units(units, p):
    """a point pair given in degrees -> the floats handed to gcirc in the convention `units`"""
    ra1, dec1, ra2, dec2 = p
    if units == 0:
        return [float(np.deg2rad(ra1)), float(np.deg2rad(dec1)), float(np.deg2rad(ra2)), float(np.deg2rad(dec2))]
    if units == 1:
        return [ra1 / 15.0, dec1, ra2 / 15.0, dec2]
    return [ra1, dec1, ra2, dec2]


def _radians_of(units, a):
    """the radian coordinates gcirc's formula receives (numpy conversions, not pydl code)"""
    if units == 0:
        return list(a)
    if units == 1:
        return [float(np.deg2rad(15.0 * a[0])), float(np.deg2rad(a[1])), float(np.deg2rad(15.0 * a[2])), float(np.deg2rad(a[3]))]
    return [float(np.deg2rad(x)) for x in a]


def _gcirc_truth(job):
    """(worker) exact separations, in radians, of (i) the points as given in their convention and (ii) the
    radian coordinates the formula receives; returned as floats plus the exact relative errors of `got`."""
    from decimal import Decimal as D
    from harness.props import c18_oracle as O
    units, a, got = job
    if units == 0:
        u, v = O.unit_rad(D(a[0]), D(a[1])), O.unit_rad(D(a[2]), D(a[3]))
    elif units == 1:
        u, v = O.unit_deg(D(a[0]) * 15, a[1]), O.unit_deg(D(a[2]) * 15, a[3])
    else:
        u, v = O.unit_deg(a[0], a[1]), O.unit_deg(a[2], a[3])
    t_in = O.sep_vec(u, v)
    r = _radians_of(units, a)
    t_rad = O.sep_vec(O.unit_rad(D(r[0]), D(r[1])), O.unit_rad(D(r[2]), D(r[3])))
    from fractions import Fraction as F
    exact = (F(r[2]) - F(r[0]) == F(r[2] - r[0])) and (F(r[3]) - F(r[1]) == F(r[3] - r[1]))
    if got is None or got != got:
        return float(t_in), float(t_rad), None, None, exact
    g = D(got) / 3600 * O.DEG if units else D(got)
    return float(t_in), float(t_rad), float(abs(g - t_in)), float(abs(g - t_rad)), exact


def _pmap(ctx, fn, jobs, heavy=False):
    if ctx.tier == 'thorough' and (len(jobs) > 2000 or (heavy and len(jobs) >= 8)):
        import multiprocessing as mp
        with mp.get_context('fork').Pool(14) as pool:
            return pool.map(fn, jobs, chunksize=1 if heavy else 200)
    return [fn(j) for j in jobs]


def _sphere_point(rng):
    return rng.uniform(0.0, 360.0), math.degrees(math.asin(rng.uniform(-1.0, 1.0)))


def _offset(ra, dec, sep_rad, pa):
    """a second point at about sep_rad from (ra, dec) in direction pa (float64; the exact separation is the oracle's business)"""
    d1 = math.radians(dec)
    if sep_rad < 1e-5 and abs(dec) < 89.0:
        return ra + math.degrees(sep_rad * math.sin(pa) / math.cos(d1)), dec + math.degrees(sep_rad * math.cos(pa))
    s2 = math.sin(d1) * math.cos(sep_rad) + math.cos(d1) * math.sin(sep_rad) * math.cos(pa)
    s2 = max(-1.0, min(1.0, s2))
    d2 = math.asin(s2)
    dra = math.atan2(math.sin(pa) * math.sin(sep_rad) * math.cos(d1), math.cos(sep_rad) - math.sin(d1) * s2)
    return ra + math.degrees(dra), math.degrees(d2)


# ---------------------------------------------------------------- gcirc
def _gcirc_pairs(ctx):
    rng = ctx.rng
    out = []
    n = ctx.n(1500, 40000)
    for _ in range(n):
        ra, dec = _sphere_point(rng)
        lg = rng.uniform(-7.0, math.log10(648000.0))
        sep = (10.0 ** lg) / ASEC
        ra2, dec2 = _offset(ra, dec, math.radians(sep), rng.uniform(0, 2 * PI))
        out.append(('sep', [ra, dec, ra2, dec2]))
    for _ in range(n // 4):
        # first point at or near a pole
        s = rng.choice([-1.0, 1.0])
        dec = s * 90.0 if rng.random() < 0.4 else s * (90.0 - 10.0 ** rng.uniform(-9, 0))
        ra = rng.uniform(0, 360)
        sep = (10.0 ** rng.uniform(-7.0, math.log10(648000.0))) / ASEC
        ra2, dec2 = _offset(ra, dec, math.radians(sep), rng.uniform(0, 2 * PI))
        out.append(('pole', [ra, dec, ra2, max(-90.0, min(90.0, dec2))]))
    for _ in range(n // 4):
        ra, dec = _sphere_point(rng)
        if rng.random() < 0.2:
            dec = rng.choice([0.0, 90.0, -90.0, 45.0, 30.0, -60.0])
        if rng.random() < 0.2:
            ra = rng.choice([0.0, 90.0, 180.0, 270.0, 95.0, 359.99999999])
        out.append(('coincident', [ra, dec, ra, dec]))
    for _ in range(n // 2):
        ra, dec = _sphere_point(rng)
        k = rng.random()
        if k < 0.15:
            dec = rng.choice([0.0, 90.0, -90.0, 45.0, 30.0, 60.0, 1e-8, 89.99999999])
        if k > 0.85:
            ra = rng.choice([0.0, 90.0, 180.0, 270.0, 45.0])
        ra2 = ra + rng.choice([180.0, -180.0]) if rng.random() < 0.7 else (ra + 180.0) % 360.0
        if rng.random() < 0.5:
            out.append(('antipodal', [ra, dec, ra2, -dec]))
        else:
            e = 10.0 ** rng.uniform(-14, -1)
            out.append(('near-antipodal', [ra, dec, ra2 + rng.uniform(-e, e), max(-90.0, min(90.0, -dec + rng.uniform(-e, e)))]))
    for _ in range(n // 4):
        # the RA seam, RA outside [0, 360), equal RA, equal dec
        k = rng.randrange(4)
        ra, dec = _sphere_point(rng)
        sep = (10.0 ** rng.uniform(-7.0, 5.0)) / ASEC
        if k == 0:
            out.append(('seam', [360.0 - sep * rng.random(), dec, sep * rng.random(), dec + sep * rng.uniform(-1, 1) * (abs(dec) < 89)]))
        elif k == 1:
            ra2, dec2 = _offset(ra, dec, math.radians(sep), rng.uniform(0, 2 * PI))
            out.append(('ra-offset', [ra - 360.0, dec, ra2 + rng.choice([0.0, 360.0]), dec2]))
        elif k == 2:
            out.append(('same-ra', [ra, dec, ra, max(-90.0, min(90.0, dec + sep))]))
        else:
            out.append(('same-dec', [ra, dec, ra + sep, dec]))
    return out


def _impl_gcirc(units, rows, scalar=False):
    from pydl.goddard.astro import gcirc
    try:
        if scalar:
            return [{'ok': float(gcirc(r[0], r[1], r[2], r[3], units=units))} for r in rows]
        a = np.array(rows, dtype=np.float64).reshape(len(rows), 4)
        r = gcirc(a[:, 0], a[:, 1], a[:, 2], a[:, 3], units=units)
        return [{'ok': float(x)} for x in np.atleast_1d(r)]
    except Exception as e:
        return [{'err': core.exc_kind(e)}] * len(rows)


def _gcirc_check(ctx, cases):
    """cases: list of dicts {stream:'gcirc', fam, units, a:[4 floats in the convention], scalar}"""
    byu = {}
    for c in cases:
        byu.setdefault((c['units'], c.get('scalar', False)), []).append(c)
    for (units, scalar), cs in sorted(byu.items()):
        rows = [c['a'] for c in cs]
        impl = _impl_gcirc(units, rows, scalar)
        swapped = _impl_gcirc(units, [[r[2], r[3], r[0], r[1]] for r in rows], scalar)
        model = [m for part in core.driver_parallel(
            [{'p': 'C18', 'op': 'gcirc', 'units': units, 'pts': _fb(rows[i:i + 500])} for i in range(0, len(rows), 500)], chunk=20)
            for m in part]
        model = [{'ok': core.b2f(m['ok'])} if 'ok' in m else m for m in model]
        if units not in (0, 1, 2):
            for c, i, m in zip(cs, impl, model):
                ctx.seen(c)
                ctx.count('gcirc:badunits')
                if i != m:
                    ctx.disagree('gcirc', c, i, m)
                if i != {'err': 'ValueError'}:
                    ctx.violate('gcirc:bad-units-accepted', 'units=%r not refused with ValueError: %s' % (units, i), c)
            continue
        truth = _pmap(ctx, _gcirc_truth, [(units, c['a'], i.get('ok')) for c, i in zip(cs, impl)])
        scale = _unit_scale(units)
        for c, i, sw, m, (t_in, t_rad, e_in, e_rad, exact) in zip(cs, impl, swapped, model, truth):
            ctx.seen(c)
            dec = int(math.floor(math.log10(t_in * math.degrees(1) * ASEC))) if t_in > 0 else 'zero'
            ctx.count('gcirc:units%d:%s' % (units, 'scalar' if scalar else 'array'))
            ctx.count('gcirc:sep-decade(arcsec):%s' % dec)
            ctx.count('gcirc:fam:' + c['fam'])
            # correspondence
            if 'ok' not in i or 'ok' not in m:
                if i != m:
                    ctx.disagree('gcirc', c, i, m)
            else:
                near_anti = PI - t_in < 1e-3
                ok = (abs(i['ok'] - m['ok']) <= 1e-7 * scale) if near_anti else core.close(i['ok'], m['ok'])
                if (i['ok'] != i['ok']) != (m['ok'] != m['ok']):
                    ok = False
                if not ok:
                    ctx.disagree('gcirc', c, i, m)
            # property oracle
            if 'ok' not in i:
                ctx.violate('gcirc:exception', 'gcirc raised %s on finite input' % i, c)
                continue
            g = i['ok']
            if g != g:
                ctx.violate('gcirc:nan', 'gcirc returned NaN (true separation %.17g rad)' % t_in, c)
                continue
            if not (0.0 <= g <= 180.0 * ASEC if units else 0.0 <= g <= PI):
                ctx.violate('gcirc:range', 'distance %r outside [0, 180 deg]' % g, c)
            if c['a'][0] == c['a'][2] and c['a'][1] == c['a'][3] and g != 0.0:
                ctx.violate('gcirc:self-nonzero', 'gcirc(p, p) = %r' % g, c)
            s = sw.get('ok')
            if s is None or not (abs(s - g) <= 1e-12 * max(abs(s), abs(g))):
                ctx.violate('gcirc:asymmetric', 'gcirc(p,q)=%r gcirc(q,p)=%r' % (g, s), c)
            else:
                ctx.count('gcirc:symmetric-bit-exact' if s == g else 'gcirc:symmetric-within-1e-12')
            # the formula against the vector formula on the radian coordinates it receives: every separation,
            # whenever the two coordinate differences are exact in binary64 (nearby points, no RA seam between them)
            ctx.count('gcirc:coordinate-differences-' + ('exact' if exact else 'rounded'))
            if exact and e_rad > 1e-6 * t_rad:
                ctx.violate('gcirc:formula-inexact', 'gcirc differs from the exact vector formula on its radian coordinates '
                            'by %.3g rad (separation %.6g rad)' % (e_rad, t_rad), c)
            # against the points as given
            floor = 2.0 ** -50 * max([1.0] + [abs(x) for x in _radians_of(units, c['a'])])
            if e_in > 1e-6 * t_in + floor:
                ctx.violate('gcirc:inexact', 'gcirc differs from the exact vector formula by %.3g rad (separation %.6g rad)'
                            % (e_in, t_in), c)


def _gcirc(ctx):
    rng = ctx.rng
    cases = []
    for fam, p in _gcirc_pairs(ctx):
        for units in (0, 1, 2):
            cases.append({'stream': 'gcirc', 'fam': fam, 'units': units, 'a': _to_units(units, p)})
    for c in rng.sample(cases, min(len(cases), ctx.n(300, 3000))):
        cases.append(dict(c, scalar=True))
    for units in (3, -1, 7, 10):
        cases.append({'stream': 'gcirc', 'fam': 'badunits', 'units': units, 'a': [10.0, 20.0, 30.0, 40.0]})
    _gcirc_check(ctx, cases)
    _gcirc_units(ctx)
    _nan_search(ctx)
    _gcirc_triangle(ctx)


def _gcirc_units(ctx):
    """the three conventions give the same angle"""
    from pydl.goddard.astro import gcirc
    rng = ctx.rng
    n = ctx.n(3000, 100000)
    h1 = np.array([rng.uniform(0, 24) for _ in range(n)])
    h2 = np.array([rng.uniform(0, 24) if rng.random() < 0.5 else h + 10.0 ** rng.uniform(-12, 0) for h in h1])
    d1 = np.array([math.degrees(math.asin(rng.uniform(-1, 1))) for _ in range(n)])
    d2 = np.array([math.degrees(math.asin(rng.uniform(-1, 1))) if rng.random() < 0.5 else max(-90., min(90., d + 10.0 ** rng.uniform(-12, 0)))
                   for d in d1])
    g1 = gcirc(h1, d1, h2, d2, units=1)
    g2 = gcirc(15.0 * h1, d1, 15.0 * h2, d2, units=2)
    g0 = gcirc(np.deg2rad(15.0 * h1), np.deg2rad(d1), np.deg2rad(15.0 * h2), np.deg2rad(d2), units=0)
    g0s = np.rad2deg(g0) * ASEC
    for k in range(n):
        c = {'stream': 'gcirc-units', 'a': [float(h1[k]), float(d1[k]), float(h2[k]), float(d2[k])]}
        ctx.seen(c)
        vals = [float(g1[k]), float(g2[k]), float(g0s[k])]
        ctx.count('gcirc-units:' + ('bit-exact' if vals[0] == vals[1] == vals[2] else 'within-1e-12'))
        m = max(vals)
        if any(v != v for v in vals) or max(vals) - min(vals) > 1e-12 * m:
            ctx.violate('gcirc:units-differ', 'hours/degrees/radians conventions give %r' % vals, c)


def _gcirc_triangle(ctx):
    """metric sanity on the real code: triangle inequality (slack 1e-9 rad)"""
    from pydl.goddard.astro import gcirc
    rng = ctx.rng
    n = ctx.n(2000, 100000)
    pts = np.array([[_sphere_point(rng), _sphere_point(rng), _sphere_point(rng)] for _ in range(n)])
    a, b, c = pts[:, 0], pts[:, 1], pts[:, 2]
    # degenerate triangles: c on the arc a-b
    ab = gcirc(a[:, 0], a[:, 1], b[:, 0], b[:, 1])
    bc = gcirc(b[:, 0], b[:, 1], c[:, 0], c[:, 1])
    ac = gcirc(a[:, 0], a[:, 1], c[:, 0], c[:, 1])
    bad = np.nonzero(~(ac <= ab + bc + 2e-4))[0]
    ctx.count('gcirc-triangle', n)
    ctx.evaluations += n
    for k in bad[:3]:
        ctx.violate('gcirc:triangle', 'd(a,c)=%r > d(a,b)+d(b,c)=%r' % (float(ac[k]), float(ab[k] + bc[k])),
                    {'stream': 'gcirc-triangle', 'pts': pts[k].tolist()})


# ---------------------------------------------------------------- stripes
def _stripes(ctx):
    from pydl.pydlutils.coord import stripe_to_eta, stripe_to_incl
    from harness.props import c18_oracle as O
    ss = list(range(-5, 121))
    model = _rows(core.driver([{'p': 'C18', 'op': 'stripe', 'pts': _fb([[float(s)] for s in ss])}])[0])
    for s, m in zip(ss, model):
        c = {'stream': 'stripe', 'stripe': s}
        ctx.seen(c)
        ctx.count('stripe:' + ('north' if s <= 46 else 'south'))
        impl = [float(stripe_to_eta(s)), float(stripe_to_incl(s))]
        if impl != m:
            ctx.disagree('stripe', c, impl, m)
        want = float(O.stripe_incl_deg(s))
        if impl[1] != want or impl[0] != want - 32.5:
            ctx.violate('stripe:incl', 'stripe_to_eta/incl(%d) = %r, survey geometry says incl %r' % (s, impl, want), c)


# ---------------------------------------------------------------- mu / nu
def _impl_r2m(stripe, ra, dec):
    from astropy import units as u
    from astropy.coordinates import ICRS
    from pydl.pydlutils.coord import SDSSMuNu
    m = ICRS(ra=np.asarray(ra) * u.deg, dec=np.asarray(dec) * u.deg).transform_to(SDSSMuNu(stripe=stripe))
    return np.atleast_1d(m.mu.deg).astype(float), np.atleast_1d(m.nu.deg).astype(float)


def _impl_m2r(stripe, mu, nu):
    from astropy import units as u
    from astropy.coordinates import ICRS
    from pydl.pydlutils.coord import SDSSMuNu
    r = SDSSMuNu(mu=np.asarray(mu) * u.deg, nu=np.asarray(nu) * u.deg, stripe=stripe).transform_to(ICRS())
    return np.atleast_1d(r.ra.deg).astype(float), np.atleast_1d(r.dec.deg).astype(float)


def _sph_close(lon1, lat1, lon2, lat2, tol_rad):
    """are two points (degrees) within tol_rad of each other on the sphere (small-difference formula)"""
    if any(x != x for x in (lon1, lat1, lon2, lat2)):
        # NaN: the same coordinates must be NaN on both sides (used by the correspondence only)
        return (lon1 != lon1) == (lon2 != lon2) and (lat1 != lat1) == (lat2 != lat2)
    dlat = math.radians(abs(lat1 - lat2))
    dlon = math.radians(_circ(lon1, lon2)) * math.cos(math.radians(0.5 * (lat1 + lat2)))
    return math.hypot(dlat, dlon) <= tol_rad


def _tol(*lats):
    """1e-9 rad, 2e-7 rad when an output latitude is within 0.1 deg of a pole (conditioning of arcsin/arccos at +-1)"""
    return 2e-7 if any(abs(x) > 89.9 for x in lats) else 1e-9


def _corr_tol(lat):
    # 1e-9 relative on degrees up to 360 -> 3.6e-7 deg = 6.3e-9 rad; near the poles the conditioning of arcsin
    return 2e-7 if abs(lat) > 89.9 else 6.3e-9


def _munu_truth(job):
    """(worker) oracle checks for one stripe; returns a list of (signature, what, idx)"""
    from decimal import Decimal as D
    from harness.props import c18_oracle as O
    stripe, ra, dec, mu, nu, ra_b, dec_b, mu0, ra0, dec0 = job
    incl = O.stripe_incl_deg(stripe)
    e1, e2, nrm = O.stripe_frame(incl)
    bad = []
    vin, vout = [], []
    nan = set()
    for k in range(len(ra)):
        v = O.unit_deg(ra[k], dec[k])
        vin.append(v)
        vout.append(None)
        if mu[k] != mu[k] or nu[k] != nu[k]:
            nan.add(k)
            bad.append(('munu:nan-forward', 'ICRS(%r, %r) -> (mu,nu) = (%r, %r)' % (ra[k], dec[k], mu[k], nu[k]), k))
            continue
        if ra_b[k] != ra_b[k] or dec_b[k] != dec_b[k]:
            nan.add(k)
            bad.append(('munu:nan-inverse', 'ICRS(%r, %r) -> (mu,nu) = (%r, %r) -> ICRS(%r, %r)'
                        % (ra[k], dec[k], mu[k], nu[k], ra_b[k], dec_b[k]), k))
            continue
        tmu, tnu = O.vec_to_munu(v, incl)
        # forward transform against the geometric construction (displacement on the sphere)
        w = O.unit_deg(mu[k], nu[k])          # in the (mu, nu) system's own axes
        wt = O.unit_deg(tmu, tnu)
        d = float(O.sep_vec(w, wt))
        if not d <= _tol(float(tnu), nu[k]):
            bad.append(('munu:forward-wrong', 'ICRS->(mu,nu) is %.3g rad from the great-circle construction (true mu,nu = %.12f, %.12f)'
                        % (d, float(tmu), float(tnu)), k))
        # round trip
        vb = O.unit_deg(ra_b[k], dec_b[k])
        d = float(O.sep_vec(v, vb))
        if not d <= _tol(float(tnu), nu[k], dec[k], dec_b[k]):
            bad.append(('munu:roundtrip', 'ICRS->(mu,nu)->ICRS moved the point by %.3g rad' % d, k))
        # inverse transform of the computed (mu, nu) against the construction
        d = float(O.sep_vec(O.munu_to_vec(mu[k], nu[k], incl), vb))
        if not d <= _tol(dec_b[k], nu[k]):
            bad.append(('munu:inverse-wrong', '(mu,nu)->ICRS is %.3g rad from the great-circle construction' % d, k))
        vout[k] = w
    # separations preserved (consecutive pairs), all in exact arithmetic on the returned floats
    for k in range(0, len(ra) - 1):
        if k in nan or k + 1 in nan:
            continue
        s_in = O.sep_vec(vin[k], vin[k + 1])
        s_out = O.sep_vec(vout[k], vout[k + 1])
        if not float(abs(s_in - s_out)) <= 2 * _tol(nu[k], nu[k + 1]):
            bad.append(('munu:separation', 'separation %.15g rad became %.15g rad' % (float(s_in), float(s_out)), k))
    # nu = 0 traces the great circle of inclination incl through the node
    for k in range(len(mu0)):
        if ra0[k] != ra0[k] or dec0[k] != dec0[k]:
            bad.append(('munu:nan-inverse', '(mu,nu) = (%r, 0) -> ICRS(%r, %r)' % (mu0[k], ra0[k], dec0[k]), -1 - k))
            continue
        r = O.unit_deg(ra0[k], dec0[k])
        off = float(abs(O.dotp(r, nrm)))
        want = O.munu_to_vec(mu0[k], 0, incl)
        d = float(O.sep_vec(r, want))
        if not (off <= 1e-9 and d <= _tol(dec0[k])):
            bad.append(('munu:nu0-off-circle', 'nu=0, mu=%r maps %.3g rad off the great circle of inclination %s through RA 95 '
                        '(%.3g rad from its point at that mu)' % (mu0[k], off, incl, d), -1 - k))
    return bad


def _munu_points(ctx, stripe, incl):
    rng = ctx.rng
    n = ctx.n(24, 400)
    pts = [_sphere_point(rng) for _ in range(n)]
    # ICRS poles, the node, the anti-node, the poles of the stripe system and their neighbourhood, points of the circle
    pts += [(rng.uniform(0, 360), 90.0), (rng.uniform(0, 360), -90.0), (NODE, 0.0), (NODE + 180.0, 0.0), (0.0, 0.0)]
    pole = (NODE + 90.0 + 180.0 * (incl >= 0), 90.0 - abs(incl)) if incl != 0 else (0.0, 90.0)
    for s in (1, -1):
        pra, pdec = (pole[0], pole[1]) if s == 1 else ((pole[0] + 180.0) % 360.0, -pole[1])
        for _ in range(ctx.n(3, 20)):
            e = math.radians(1.0) * 10.0 ** rng.uniform(-9, 0)
            q = _offset(pra, pdec, e, rng.uniform(0, 2 * PI))
            pts.append((q[0] % 360.0, max(-90.0, min(90.0, q[1]))))
    for _ in range(ctx.n(3, 20)):
        e = 10.0 ** rng.uniform(-9, 0)
        pts.append((rng.uniform(0, 360), rng.choice([-1, 1]) * (90.0 - e)))
    pts += [(rng.uniform(-360, 0), rng.uniform(-80, 80)), (rng.uniform(360, 720), rng.uniform(-80, 80))]
    mu0 = [NODE, NODE + 90.0, NODE + 180.0, NODE - 90.0, 0.0] + [rng.uniform(0, 360) for _ in range(ctx.n(8, 100))]
    return pts, mu0


def _munu_stripe(ctx, stripe, pts=None, mu0=None):
    from pydl.pydlutils.coord import stripe_to_incl
    incl = float(stripe_to_incl(stripe))
    if pts is None:
        pts, mu0 = _munu_points(ctx, stripe, incl)
    ra = [p[0] for p in pts]
    dec = [p[1] for p in pts]
    mu, nu = _impl_r2m(stripe, ra, dec)
    # the inverse is exercised on the (mu, nu) the forward transform returned and on (mu0, 0)
    ra_b, dec_b = _impl_m2r(stripe, mu, nu)
    ra0, dec0 = _impl_m2r(stripe, mu0, [0.0] * len(mu0)) if mu0 else (np.zeros(0), np.zeros(0))
    _munu_shapes(ctx, stripe, ra, dec, mu, nu, ra_b, dec_b)
    s = float(stripe)
    ans = core.driver([
        {'p': 'C18', 'op': 'r2m', 'pts': _fb([[s, a, b] for a, b in zip(ra, dec)])},
        {'p': 'C18', 'op': 'm2r', 'pts': _fb([[s, float(a), float(b)] for a, b in zip(mu, nu)] + [[s, m, 0.0] for m in mu0])}])
    m_f = _rows(ans[0])
    m_b = _rows(ans[1])
    for k in range(len(pts)):
        c = {'stream': 'munu', 'stripe': stripe, 'pts': [[ra[k], dec[k]]], 'mu0': []}
        ctx.seen(c)
        ctx.count('munu:r2m' + (':polar' if abs(nu[k]) > 89.9 else ''))
        ctx.count('munu:m2r' + (':polar' if abs(dec_b[k]) > 89.9 else ''))
        if not _sph_close(float(mu[k]), float(nu[k]), m_f[k][0], m_f[k][1], _corr_tol(nu[k])):
            ctx.disagree('r2m', c, [float(mu[k]), float(nu[k])], m_f[k])
        if not (0.0 <= m_f[k][0] < 360.0 and 0.0 <= mu[k] < 360.0):
            ctx.disagree('r2m-wrap', c, [float(mu[k]), float(nu[k])], m_f[k])
        if not _sph_close(float(ra_b[k]), float(dec_b[k]), m_b[k][0], m_b[k][1], _corr_tol(dec_b[k])):
            ctx.disagree('m2r', dict(c, munu=[float(mu[k]), float(nu[k])]), [float(ra_b[k]), float(dec_b[k])], m_b[k])
    for k in range(len(mu0)):
        c = {'stream': 'munu', 'stripe': stripe, 'pts': [], 'mu0': [mu0[k]]}
        ctx.seen(c)
        ctx.count('munu:nu0')
        mm = m_b[len(pts) + k]
        if not _sph_close(float(ra0[k]), float(dec0[k]), mm[0], mm[1], _corr_tol(dec0[k])):
            ctx.disagree('m2r', c, [float(ra0[k]), float(dec0[k])], mm)
    return (stripe, ra, dec, [float(x) for x in mu], [float(x) for x in nu], [float(x) for x in ra_b], [float(x) for x in dec_b],
            mu0, [float(x) for x in ra0], [float(x) for x in dec0])


def _munu_shapes(ctx, stripe, ra, dec, mu, nu, ra_b, dec_b):
    """the transform of a point does not depend on the shape of the coordinate arrays it arrives in ("all sky positions":
    scalars, vectors, 2-D grids - a (3, k) grid included, whose first dimension looks like a Cartesian axis)"""
    from astropy import units as u
    from astropy.coordinates import ICRS
    from pydl.pydlutils.coord import SDSSMuNu
    n = len(ra)
    for shape in ((3, n // 3), (n // 2, 2), (1, min(n, 4))) if n >= 6 else ():
        k = shape[0] * shape[1]
        if k == 0:
            continue
        c = {'stream': 'munu', 'stripe': stripe, 'pts': [[ra[i], dec[i]] for i in range(min(k, 6))], 'mu0': [], 'shape': list(shape)}
        try:
            A, D = np.array(ra[:k]).reshape(shape), np.array(dec[:k]).reshape(shape)
            m = ICRS(ra=A * u.deg, dec=D * u.deg).transform_to(SDSSMuNu(stripe=stripe))
            r = SDSSMuNu(mu=np.array(mu[:k]).reshape(shape) * u.deg, nu=np.array(nu[:k]).reshape(shape) * u.deg, stripe=stripe).transform_to(ICRS())
            got = (np.asarray(m.mu.deg), np.asarray(m.nu.deg), np.asarray(r.ra.deg), np.asarray(r.dec.deg))
        except Exception as e:
            ctx.violate('munu:shape-exception', 'transform of a %s grid of positions raises %s: %s' % (shape, type(e).__name__, str(e)[:100]), c)
            continue
        ctx.count('munu:grid-shape:%dx%d' % shape if shape[0] in (1, 3) else 'munu:grid-shape:kx2')
        want = (np.asarray(mu[:k]), np.asarray(nu[:k]), np.asarray(ra_b[:k]), np.asarray(dec_b[:k]))
        for g, w, name in zip(got, want, ('mu', 'nu', 'ra', 'dec')):
            if g.shape != shape or not np.array_equal(g.ravel(), w, equal_nan=True):
                ctx.violate('munu:shape-dependence', '%s of a %s grid differs from the same points passed as a vector' % (name, shape), c)
                break
    if n >= 1:
        try:
            m = ICRS(ra=float(ra[0]) * u.deg, dec=float(dec[0]) * u.deg).transform_to(SDSSMuNu(stripe=stripe))
            if float(m.mu.deg) != float(mu[0]) or float(m.nu.deg) != float(nu[0]):
                ctx.violate('munu:shape-dependence', 'scalar position gives (%r, %r), the same point in a vector (%r, %r)' % (
                    float(m.mu.deg), float(m.nu.deg), float(mu[0]), float(nu[0])), {'stream': 'munu', 'stripe': stripe, 'pts': [[ra[0], dec[0]]], 'mu0': [], 'shape': []})
            ctx.count('munu:grid-shape:scalar')
        except Exception as e:
            ctx.violate('munu:shape-exception', 'transform of a scalar position raises %s' % type(e).__name__,
                        {'stream': 'munu', 'stripe': stripe, 'pts': [[ra[0], dec[0]]], 'mu0': [], 'shape': []})


def _munu_inv_truth(job):
    """(worker) oracle for (mu, nu) -> ICRS -> (mu, nu) started from arbitrary (mu, nu), incl. nu = +-90"""
    from harness.props import c18_oracle as O
    stripe, mu, nu, ra, dec, mu_b, nu_b = job
    incl = O.stripe_incl_deg(stripe)
    bad = []
    for k in range(len(mu)):
        if ra[k] != ra[k] or dec[k] != dec[k]:
            bad.append(('munu:nan-inverse', '(mu,nu) = (%r, %r) -> ICRS(%r, %r)' % (mu[k], nu[k], ra[k], dec[k]), k))
            continue
        if mu_b[k] != mu_b[k] or nu_b[k] != nu_b[k]:
            bad.append(('munu:nan-forward', '(mu,nu) = (%r, %r) -> ICRS(%r, %r) -> (mu,nu) = (%r, %r)'
                        % (mu[k], nu[k], ra[k], dec[k], mu_b[k], nu_b[k]), k))
            continue
        r = O.unit_deg(ra[k], dec[k])
        d = float(O.sep_vec(O.munu_to_vec(mu[k], nu[k], incl), r))
        if not d <= _tol(dec[k]):
            bad.append(('munu:inverse-wrong', '(mu,nu) = (%r, %r) -> ICRS is %.3g rad from the great-circle construction'
                        % (mu[k], nu[k], d), k))
        d = float(O.sep_vec(O.unit_deg(mu[k], nu[k]), O.unit_deg(mu_b[k], nu_b[k])))
        if not d <= _tol(dec[k], nu[k], nu_b[k]):
            bad.append(('munu:roundtrip-inv', '(mu,nu) -> ICRS -> (mu,nu) moved the point by %.3g rad' % d, k))
    return bad


def _munu_inv_stripe(ctx, stripe, mn=None):
    rng = ctx.rng
    if mn is None:
        mn = [(rng.uniform(0, 360), 90.0), (rng.uniform(0, 360), -90.0), (NODE, 90.0), (0.0, -90.0)]
        mn += [_sphere_point(rng) for _ in range(ctx.n(6, 100))]
        mn += [(rng.uniform(0, 360), rng.choice([-1, 1]) * (90.0 - 10.0 ** rng.uniform(-9, 0))) for _ in range(ctx.n(3, 30))]
        # micro- to milli-arcsecond offsets from the great circle itself (nu = +-1e-7.2 .. 1e-6.3 deg = 1.1e-9 .. 8.7e-9 rad): a rigid
        # rotation keeps them; a tolerance that snaps small nu to 0 does not (seeded change C18-22)
        mn += [(rng.uniform(0, 360), rng.choice([-1, 1]) * 10.0 ** rng.uniform(-7.2, -6.3)) for _ in range(ctx.n(2, 12))]
    mu = [p[0] for p in mn]
    nu = [p[1] for p in mn]
    ra, dec = _impl_m2r(stripe, mu, nu)
    mu_b, nu_b = _impl_r2m(stripe, ra, dec)
    s = float(stripe)
    m = _rows(core.driver([{'p': 'C18', 'op': 'm2r', 'pts': _fb([[s, a, b] for a, b in zip(mu, nu)])}])[0])
    for k in range(len(mn)):
        c = {'stream': 'munu-inv', 'stripe': stripe, 'mn': [[mu[k], nu[k]]]}
        ctx.seen(c)
        ctx.count('munu:m2r-direct' + (':polar' if abs(dec[k]) > 89.9 else '') + (':from-stripe-pole' if abs(nu[k]) == 90.0 else ''))
        if not _sph_close(float(ra[k]), float(dec[k]), m[k][0], m[k][1], _corr_tol(dec[k])):
            ctx.disagree('m2r', c, [float(ra[k]), float(dec[k])], m[k])
    return (stripe, mu, nu, [float(x) for x in ra], [float(x) for x in dec], [float(x) for x in mu_b], [float(x) for x in nu_b])


def _munu_inv(ctx, only=None):
    stripes = list(range(0, 91)) if only is None else [only['stripe']]
    jobs = [_munu_inv_stripe(ctx, s, None if only is None else [tuple(p) for p in only['mn']]) for s in stripes]
    res = _pmap(ctx, _munu_inv_truth, jobs, heavy=True)
    for job, bad in zip(jobs, res):
        for sig, what, k in bad:
            ctx.violate(sig, 'stripe %d: %s' % (job[0], what), {'stream': 'munu-inv', 'stripe': job[0], 'mn': [[job[1][k], job[2][k]]]})


def _nan_search(ctx):
    """"never NaN": numpy-only search over exactly antipodal pairs and pairs within a few ulp of antipodal,
    in the three conventions (sqrt argument > 1 by rounding would give NaN)"""
    from pydl.goddard.astro import gcirc
    g = np.random.default_rng(ctx.rng.getrandbits(64))
    n = ctx.n(200000, 4000000)
    ra = g.uniform(0, 360, n)
    dec = np.degrees(np.arcsin(g.uniform(-1, 1, n)))
    k = n // 10
    dec[:k] = g.choice([0.0, 90.0, -90.0, 45.0, 30.0, 60.0, 89.99999999, 1e-8], k)
    ra[k:2 * k] = g.choice([0.0, 90.0, 180.0, 270.0, 45.0, 95.0], k)
    ra2 = np.where(g.random(n) < 0.5, ra + 180.0, ra - 180.0)
    dec2 = -dec
    # half of them moved by a few ulp
    j = g.random(n) < 0.5
    ra2 = np.where(j, ra2 * (1 + g.integers(-4, 5, n) * 2.0 ** -52), ra2)
    dec2 = np.clip(np.where(j, dec2 * (1 + g.integers(-4, 5, n) * 2.0 ** -52), dec2), -90, 90)
    for units in (0, 1, 2):
        if units == 0:
            a = [np.deg2rad(ra), np.deg2rad(dec), np.deg2rad(ra2), np.deg2rad(dec2)]
            a[2] = np.where(j, a[2], np.where(ra2 > ra, a[0] + np.pi, a[0] - np.pi))
            a[3] = np.where(j, a[3], -a[1])
            hi = PI
        elif units == 1:
            a = [ra / 15.0, dec, np.where(j, ra2 / 15.0, np.where(ra2 > ra, ra / 15.0 + 12.0, ra / 15.0 - 12.0)), dec2]
            hi = 648000.0
        else:
            a = [ra, dec, ra2, dec2]
            hi = 648000.0
        d = gcirc(a[0], a[1], a[2], a[3], units=units)
        ctx.count('gcirc-nan-search:units%d' % units, n)
        ctx.evaluations += n
        badm = np.isnan(d) | ~(d >= 0) | ~(d <= hi) | ~(d >= hi * (1 - 1e-6))
        for i in np.nonzero(badm)[0][:3]:
            c = {'stream': 'gcirc', 'fam': 'nan-search', 'units': units, 'a': [float(x[i]) for x in a]}
            ctx.violate('gcirc:nan' if np.isnan(d[i]) else 'gcirc:antipodal-wrong',
                        'antipodal pair: gcirc = %r (expected %r within 1e-6)' % (float(d[i]), hi), c)


def _munu(ctx, only=None):
    stripes = list(range(0, 91)) if only is None else [only['stripe']]
    jobs = []
    for s in stripes:
        if only is None:
            jobs.append(_munu_stripe(ctx, s))
        else:
            jobs.append(_munu_stripe(ctx, s, [tuple(p) for p in only['pts']], list(only['mu0'])))
    res = _pmap(ctx, _munu_truth, jobs, heavy=True) if len(jobs) > 1 else [_munu_truth(j) for j in jobs]
    for job, bad in zip(jobs, res):
        stripe, ra, dec = job[0], job[1], job[2]
        mu0 = job[7]
        for sig, what, k in bad:
            if k >= 0:
                pts = [[ra[k], dec[k]]] + ([[ra[k + 1], dec[k + 1]]] if sig == 'munu:separation' else [])
                ctx.violate(sig, 'stripe %d: %s' % (stripe, what), {'stream': 'munu', 'stripe': stripe, 'pts': pts, 'mu0': []})
            else:
                ctx.violate(sig, 'stripe %d: %s' % (stripe, what), {'stream': 'munu', 'stripe': stripe, 'pts': [], 'mu0': [mu0[-1 - k]]})
    # the frame attribute: incl of the frame is stripe_to_incl, node is 95 deg
    from pydl.pydlutils.coord import SDSSMuNu, stripe_to_incl
    for s in stripes:
        f = SDSSMuNu(stripe=s)
        if float(f.incl.deg) != float(stripe_to_incl(s)) or float(f.node.to_value("deg")) != NODE:
            ctx.violate('munu:frame-attributes', 'SDSSMuNu(stripe=%d): incl %r node %r' % (s, f.incl, f.node),
                        {'stream': 'munu', 'stripe': s, 'pts': [], 'mu0': []})


# ---------------------------------------------------------------- angles <-> x
def _pol_tol(theta_deg):
    """tolerance (rad) on a polar angle recovered through arccos: 1e-9, more near 0 / 180"""
    s = abs(math.sin(math.radians(theta_deg)))
    return 1e-9 + min(4e-8, 1e-15 / max(s, 1e-300))


def _angles_truth(job):
    from decimal import Decimal as D
    from harness.props import c18_oracle as O
    lat, p, x, back = job
    bad = []
    for k in range(len(p)):
        phi, th = p[k]
        colat = 90.0 - th if lat else th
        v = O.unit_deg(phi, D(90) - D(th) if not lat else D(th))
        if max(abs(float(D(x[k][j]) - v[j])) for j in range(3)) > 1e-14:
            bad.append(('angles:to-x-wrong', 'angles_to_x(%r) = %r, unit vector is %s' % (p[k], x[k], [float(a) for a in v]), k))
        # inverse: polar angle, and longitude modulo 360 (longitude is free at the poles: weight by sin)
        b = back[k]
        if b[0] != b[0] or b[1] != b[1]:
            bad.append(('angles:nan', 'x_to_angles(angles_to_x(%r)) = %r' % (p[k], b), k))
            continue
        tol = _pol_tol(colat)
        dth = math.radians(abs(b[1] - th))
        dph = math.radians(_circ(b[0], phi)) * abs(math.sin(math.radians(colat)))
        if not (dth <= tol and dph <= 1e-9):
            bad.append(('angles:not-inverse', 'x_to_angles(angles_to_x(%r)) = %r' % (p[k], b), k))
        # x_to_angles against the exact angles of the float vector it was given
        xv = tuple(D(c) for c in x[k])
        lon, la = O.lonlat_deg(xv)
        tpol = la if lat else 90 - la
        if not (math.radians(abs(float(D(b[1]) - tpol))) <= tol and
                math.radians(_circ(b[0], float(lon))) * abs(math.sin(math.radians(colat))) <= 1e-9):
            bad.append(('angles:from-x-wrong', 'x_to_angles(%r) = %r, exact %r' % (x[k], b, [float(lon), float(tpol)]), k))
    return bad


def _angles_cases(ctx, lat):
    rng = ctx.rng
    n = ctx.n(400, 20000)
    p = []
    for _ in range(n):
        phi = rng.uniform(-180, 180) if rng.random() < 0.7 else rng.uniform(0, 360)
        k = rng.random()
        if k < 0.6:
            th = math.degrees(math.acos(rng.uniform(-1, 1)))
        elif k < 0.9:
            e = math.degrees(10.0 ** rng.uniform(-9.5, 0))
            th = e if rng.random() < 0.5 else 180.0 - e
        else:
            th = rng.choice([0.0, 180.0, 90.0, 45.0, 1e-7, 180.0 - 1e-7])
        if rng.random() < 0.1:
            phi = rng.choice([0.0, 90.0, 180.0, -90.0, 270.0, -180.0, 359.999999999])
        p.append([phi, 90.0 - th if lat else th])
    return p


def _angles(ctx, only=None):
    from pydl.pydlutils.mangle import angles_to_x, x_to_angles
    jobs = []
    for lat in ((False, True) if only is None else (only['lat'],)):
        p = _angles_cases(ctx, lat) if only is None else [list(q) for q in only['p']]
        a = np.array(p, dtype=np.float64).reshape(len(p), 2)
        x = angles_to_x(a, latitude=lat)
        back = x_to_angles(x, latitude=lat)
        ans = core.driver([{'p': 'C18', 'op': 'a2x', 'lat': lat, 'pts': _fb(p)},
                           {'p': 'C18', 'op': 'x2a', 'lat': lat, 'pts': _fb(x.tolist())}])
        mx, mb = _rows(ans[0]), _rows(ans[1])
        for k in range(len(p)):
            c = {'stream': 'angles', 'lat': lat, 'p': [p[k]]}
            ctx.seen(c)
            colat = 90.0 - p[k][1] if lat else p[k][1]
            ctx.count('angles:lat=%s:%s' % (lat, 'polar' if min(colat, 180 - colat) < 0.1 else 'general'))
            ix = [float(v) for v in x[k]]
            ib = [float(v) for v in back[k]]
            if not all(abs(u - v) <= 1e-9 for u, v in zip(ix, mx[k])):
                ctx.disagree('a2x', c, ix, mx[k])
            okb = (abs(ib[1] - mb[k][1]) <= math.degrees(_pol_tol(colat)) + 1e-9 * 180 and
                   _circ(ib[0], mb[k][0]) * abs(math.sin(math.radians(colat))) <= 3.6e-7) and not any(v != v for v in ib + mb[k])
            if not okb and not (all(v != v for v in ib) and all(v != v for v in mb[k])):
                ctx.disagree('x2a', c, ib, mb[k])
        # a truth value is a truth value: numpy booleans and 0 / 1 select the same convention as False / True
        for flag in (np.bool_(lat), int(lat)):
            try:
                xf = angles_to_x(a[:50], latitude=flag)
                bf = x_to_angles(x[:50], latitude=flag)
                if not (np.array_equal(np.asarray(xf), x[:50], equal_nan=True) and np.array_equal(np.asarray(bf), back[:50], equal_nan=True)):
                    ctx.violate('angles:flag-type-dependence', 'latitude=%r (%s) gives another result than latitude=%s' % (flag, type(flag).__name__, lat),
                                {'stream': 'angles', 'lat': lat, 'p': [list(q) for q in a[:3].tolist()], 'flag': type(flag).__name__})
                ctx.count('angles:flag-type:' + type(flag).__name__)
            except Exception as e:
                ctx.violate('angles:flag-type-exception', 'latitude=%r raises %r' % (flag, e),
                            {'stream': 'angles', 'lat': lat, 'p': [list(q) for q in a[:3].tolist()], 'flag': type(flag).__name__})
        # documented signatures angles_to_x(points, latitude=False) / x_to_angles(points, latitude=False): positional = keyword
        try:
            xp = angles_to_x(a, lat)
            bp = x_to_angles(x, lat)
            if not (np.array_equal(np.asarray(xp), x, equal_nan=True) and np.array_equal(np.asarray(bp), back, equal_nan=True)):
                ctx.violate('angles:positional-latitude-differs',
                            'angles_to_x(p, %s) / x_to_angles(x, %s) differ from the latitude=%s keyword calls' % (lat, lat, lat),
                            {'stream': 'angles', 'lat': lat, 'p': [list(q) for q in a[:3].tolist()]})
        except Exception as e:
            ctx.violate('angles:positional-latitude-exception', 'positional latitude argument raises %r' % (e,),
                        {'stream': 'angles', 'lat': lat, 'p': [list(q) for q in a[:3].tolist()]})
        # "all angle arrays": single-precision arrays and the big-endian arrays a FITS table delivers hold the same angles
        sub = np.concatenate([a[:200], np.array([[0.0, 90.0 if lat else 0.0], [123.0, -90.0 if lat else 180.0], [359.0, 0.0 if lat else 90.0]])])
        for dt in ('>f8', '<f4', '>f4'):
            cdt = {'stream': 'angles', 'lat': lat, 'p': [list(q) for q in sub[-3:].tolist()], 'dtype': dt}
            try:
                ad = sub.astype(dt)
                ref = np.asarray(angles_to_x(np.asarray(ad, dtype='f8'), latitude=lat), dtype='f8')
                xd = np.asarray(angles_to_x(ad, latitude=lat))
                bd = np.asarray(x_to_angles(np.asarray(ref, dtype=dt), latitude=lat))
                bref = np.asarray(x_to_angles(np.asarray(np.asarray(ref, dtype=dt), dtype='f8'), latitude=lat), dtype='f8')
            except Exception as e:
                ctx.violate('angles:dtype-exception', 'angles_to_x / x_to_angles refuse a %s array (poles included): %s %s' % (dt, type(e).__name__, str(e)[:80]), cdt)
                continue
            ctx.count('angles:dtype:' + dt)
            tolx = 0.0 if dt == '>f8' else 2e-6
            d1 = float(np.max(np.abs(xd.astype('f8') - ref))) if ref.size else 0.0
            dpol = float(np.max(np.abs(bd.astype('f8')[:, 1] - bref[:, 1]))) if ref.size else 0.0
            if d1 > tolx or xd.shape != ref.shape or dpol > (0.0 if dt == '>f8' else 0.05):
                ctx.violate('angles:dtype-dependence', 'a %s array converts differently from the same angles in native float64 (max |dx| %.3g, |dtheta| %.3g)' % (dt, d1, dpol), cdt)
        # history: "all angle arrays" includes an array the caller refills in place and converts again - the answer belongs to
        # the present contents of the array, not to what the same object held at an earlier call
        if len(p) >= 4:
            try:
                buf = a[:len(p) // 2].copy()
                x1 = np.array(angles_to_x(buf, latitude=lat))
                buf[:] = a[len(p) - len(buf):]
                x2 = np.array(angles_to_x(buf, latitude=lat))
                xb = x[:len(buf)].copy()
                b1 = np.array(x_to_angles(xb, latitude=lat))
                xb[:] = x[len(p) - len(buf):]
                b2 = np.array(x_to_angles(xb, latitude=lat))
                ctx.count('angles:history:refilled-array')
                if not (np.array_equal(x1, x[:len(buf)], equal_nan=True) and np.array_equal(x2, x[len(p) - len(buf):], equal_nan=True)
                        and np.array_equal(b1, back[:len(buf)], equal_nan=True) and np.array_equal(b2, back[len(p) - len(buf):], equal_nan=True)):
                    k = len(p) - len(buf)
                    ctx.violate('angles:history', 'an array refilled in place and converted again gives the conversion of its earlier contents '
                                '(angles_to_x / x_to_angles(latitude=%s) called twice on one ndarray object)' % lat,
                                {'stream': 'angles', 'lat': lat, 'p': [list(q) for q in a[:2].tolist()] + [list(q) for q in a[k:k + 2].tolist()], 'history': 'refill'})
            except Exception as e:
                ctx.violate('angles:history-exception', 'second conversion of a refilled array raises %r' % (e,),
                            {'stream': 'angles', 'lat': lat, 'p': [list(q) for q in a[:3].tolist()], 'history': 'refill'})
        # two results held at once: converting a second catalogue of the same length must not change the array returned for
        # the first one (results that share a recycled buffer; seeded change C18-23)
        if len(p) >= 4:
            h = len(p) // 2
            try:
                r1 = angles_to_x(a[:h].copy(), latitude=lat)
                keep1 = np.array(r1)
                angles_to_x(a[len(p) - h:].copy(), latitude=lat)
                q1 = x_to_angles(x[:h].copy(), latitude=lat)
                keepq = np.array(q1)
                x_to_angles(x[len(p) - h:].copy(), latitude=lat)
                ctx.count('angles:history:two-results-held')
                if not (np.array_equal(np.asarray(r1), keep1, equal_nan=True) and np.array_equal(np.asarray(q1), keepq, equal_nan=True)):
                    ctx.violate('angles:history:result-overwritten', 'the array returned by angles_to_x / x_to_angles(latitude=%s) changed when a second '
                                'array of the same length was converted' % lat,
                                {'stream': 'angles', 'lat': lat, 'p': [list(q) for q in a[:2].tolist()] + [list(q) for q in a[len(p) - h:len(p) - h + 2].tolist()], 'history': 'two-results'})
            except Exception as e:
                ctx.violate('angles:history-exception', 'conversion of a second array raises %r' % (e,),
                            {'stream': 'angles', 'lat': lat, 'p': [list(q) for q in a[:3].tolist()], 'history': 'two-results'})
        # memory layout: the same (N, 2) / (N, 3) values as a column-major array, the transpose of a stacked (2, N) array,
        # a strided view of a wider array and a reversed view must convert like the C-contiguous array (seeded change C18-21)
        if len(p) >= 2:
            m = min(len(p), 60)
            wide = np.zeros((m, 5)); wide[:, 1] = a[:m, 0]; wide[:, 3] = a[:m, 1]
            widex = np.zeros((m, 7)); widex[:, 0::3] = x[:m]
            lays = [('fortran', np.asfortranarray(a[:m]), np.asfortranarray(x[:m]), slice(None)),
                    ('stack-T', np.array([a[:m, 0], a[:m, 1]]).T, np.array([x[:m, 0], x[:m, 1], x[:m, 2]]).T, slice(None)),
                    ('strided', wide[:, 1::2], widex[:, 0::3], slice(None)),
                    ('reversed', a[:m][::-1], x[:m][::-1], slice(None, None, -1))]
            for nm, av, xv, back_sl in lays:
                try:
                    xs = np.asarray(angles_to_x(av, latitude=lat))
                    bs = np.asarray(x_to_angles(xv, latitude=lat))
                except Exception as e:
                    ctx.violate('angles:layout-exception:' + nm, 'a %s array raises %r' % (nm, e),
                                {'stream': 'angles', 'lat': lat, 'p': [list(q) for q in a[:2].tolist()], 'layout': nm})
                    continue
                ctx.count('angles:layout:' + nm)
                # numpy evaluates sin / cos / arccos with other loops on strided than on contiguous data (last-bit differences):
                # the comparison is at 1e-9 degrees / 1e-12, a mis-paired coordinate is off by degrees
                def _near(u, v, tol):
                    return u.shape == v.shape and bool(np.all((np.abs(u - v) <= tol) | (np.isnan(u) & np.isnan(v))))
                if not (_near(xs, x[:m][back_sl], 1e-12) and _near(bs, back[:m][back_sl], 1e-9)):
                    ctx.violate('angles:layout-dependence:' + nm,
                                'angles_to_x / x_to_angles(latitude=%s) of a %s array differ from the conversion of the same values '
                                'in a C-contiguous array' % (lat, nm),
                                {'stream': 'angles', 'lat': lat, 'p': [list(q) for q in a[:2].tolist()], 'layout': nm})
        # the answer for one point must not depend on how many points are passed in one call (1..5 rows, 1-D single point)
        for nb in (1, 2, 3, 4, 5):
            for start in range(0, min(len(p), 40), nb):
                sub = a[start:start + nb]
                if len(sub) != nb:
                    continue
                try:
                    xs = angles_to_x(sub, latitude=lat)
                    bs = x_to_angles(x[start:start + nb], latitude=lat)
                except Exception as e:
                    ctx.violate('angles:batch-exception:n=%d' % nb, 'batch of %d points raises %r' % (nb, e),
                                {'stream': 'angles', 'lat': lat, 'p': [list(q) for q in sub.tolist()]})
                    continue
                ctx.count('angles:batch-size-%d' % nb)
                same = (np.array_equal(np.asarray(xs), x[start:start + nb], equal_nan=True) and
                        np.array_equal(np.asarray(bs), back[start:start + nb], equal_nan=True))
                if not same:
                    ctx.violate('angles:batch-size-dependence:n=%d' % nb,
                                'angles_to_x / x_to_angles on a batch of %d points differs from the same points in a larger batch' % nb,
                                {'stream': 'angles', 'lat': lat, 'p': [list(q) for q in sub.tolist()]})
        jobs.append((lat, p, x.tolist(), back.tolist()))
    for (lat, p, x, back) in jobs:
        chunks = [(lat, p[i:i + 500], x[i:i + 500], back[i:i + 500]) for i in range(0, len(p), 500)]
        res = _pmap(ctx, _angles_truth, chunks, heavy=True) if len(chunks) > 4 else [_angles_truth(c) for c in chunks]
        for ch, bad in zip(chunks, res):
            for sig, what, k in bad:
                ctx.violate(sig + (':lat' if lat else ''), what, {'stream': 'angles', 'lat': lat, 'p': [ch[1][k]]})


# ---------------------------------------------------------------- the check
def run(ctx):
    core.audit(ctx, LEAN_MODULES, THEOREMS)
    _gcirc(ctx)
    _stripes(ctx)
    _munu(ctx)
    _munu_inv(ctx)
    _angles(ctx)


def replay(ctx, case):
    core.audit(ctx, LEAN_MODULES, THEOREMS)
    s = case.get('stream')
    if s == 'gcirc':
        _gcirc_check(ctx, [case])
    elif s == 'munu':
        _munu(ctx, only=case)
    elif s == 'munu-inv':
        _munu_inv(ctx, only=case)
    elif s == 'angles':
        _angles(ctx, only=case)
    else:
        run(ctx)

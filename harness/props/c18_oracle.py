"""Extended-precision (decimal, 60 working digits) spherical geometry used as the
independent oracle of C18.  Nothing here comes from pydl or from the Lean model:
own series for atan / sin / cos, Machin's formula for pi, vectors instead of the
haversine formula, the great circle of a stripe built from its node direction and
its normal instead of a rotation in a node-shifted frame.
"""
from decimal import Decimal as D, getcontext, localcontext

PREC = 60
getcontext().prec = PREC
_EPS = D(10) ** -(PREC - 2)


def _atan_small(t):
    t2 = t * t
    s = t
    term = t
    n = 1
    while abs(term) > _EPS * D('1e-5'):
        term = -term * t2
        n += 2
        s += term / n
    return s


def atan(t):
    t = D(t)
    k = 0
    while abs(t) > D('0.05'):
        t = t / (1 + (1 + t * t).sqrt())
        k += 1
    return _atan_small(t) * (2 ** k)


PI = 16 * atan(D(1) / 5) - 4 * atan(D(1) / 239)
TWO_PI = 2 * PI
DEG = PI / 180


def _sincos_small(x):
    """Taylor series, |x| <= pi/4 + a bit."""
    x2 = x * x
    s = x
    c = D(1)
    ts = x
    tc = D(1)
    n = 1
    while abs(ts) > _EPS * D('1e-5') or abs(tc) > _EPS * D('1e-5'):
        tc = -tc * x2 / ((2 * n - 1) * (2 * n))
        ts = -ts * x2 / ((2 * n) * (2 * n + 1))
        c += tc
        s += ts
        n += 1
    return s, c


def sincos(x):
    x = D(x)
    # reduce to [-pi/4, pi/4] and a quadrant
    q = (x / (PI / 2)).to_integral_value(rounding='ROUND_HALF_EVEN')
    r = x - q * (PI / 2)
    s, c = _sincos_small(r)
    q = int(q) % 4
    if q == 0:
        return s, c
    if q == 1:
        return c, -s
    if q == 2:
        return -s, -c
    return -c, s


def atan2(y, x):
    y = D(y)
    x = D(x)
    if x == 0 and y == 0:
        return D(0)
    if abs(y) <= abs(x):
        a = atan(y / x)
        if x < 0:
            a = a + PI if y >= 0 else a - PI
        return a
    a = atan(x / y)
    return (PI / 2 - a) if y > 0 else (-PI / 2 - a)


def norm(v):
    return (v[0] * v[0] + v[1] * v[1] + v[2] * v[2]).sqrt()


def dotp(u, v):
    return u[0] * v[0] + u[1] * v[1] + u[2] * v[2]


def cross(u, v):
    return (u[1] * v[2] - u[2] * v[1], u[2] * v[0] - u[0] * v[2], u[0] * v[1] - u[1] * v[0])


def unit_rad(lon, lat):
    sl, cl = sincos(lon)
    sb, cb = sincos(lat)
    return (cb * cl, cb * sl, sb)


def unit_deg(lon, lat):
    """unit vector of a point given in degrees (floats are taken at their exact value)"""
    return unit_rad(D(lon) * DEG, D(lat) * DEG)


def sep_vec(u, v):
    """angle between two vectors: 2 atan2(|u - v|, |u + v|) (exact for unit vectors, well conditioned everywhere)"""
    d = tuple(a - b for a, b in zip(u, v))
    s = tuple(a + b for a, b in zip(u, v))
    return 2 * atan2(norm(d), norm(s))


def lonlat_deg(v):
    """longitude in (-180, 180], latitude, degrees"""
    r = norm(v)
    lon = atan2(v[1], v[0])
    lat = atan2(v[2], (v[0] * v[0] + v[1] * v[1]).sqrt())
    return lon / DEG, lat / DEG


def stripe_incl_deg(stripe):
    """SDSS survey geometry: stripe n is centred on eta = (n - 10) * 2.5 - 32.5 degrees in the north
    (n <= 46), southern stripes continue the numbering half a turn away (n = 82 is the equator again);
    the inclination to the equator is eta + 32.5."""
    n = D(stripe)
    return (n - 10) * D('2.5') if n <= 46 else (n - 82) * D('2.5')


def stripe_frame(incl_deg, node_deg=95):
    """orthonormal frame of the great circle of inclination incl through the node:
    e1 = node direction on the equator, e2 = direction 90 deg further along the circle, n = its pole."""
    sn, cn = sincos(D(node_deg) * DEG)
    si, ci = sincos(D(incl_deg) * DEG)
    e1 = (cn, sn, D(0))
    e2 = (-sn * ci, cn * ci, si)
    n = cross(e1, e2)
    return e1, e2, n


def munu_to_vec(mu_deg, nu_deg, incl_deg, node_deg=95):
    e1, e2, n = stripe_frame(incl_deg, node_deg)
    sm, cm = sincos((D(mu_deg) - D(node_deg)) * DEG)
    sn, cn = sincos(D(nu_deg) * DEG)
    return tuple(cn * (cm * a + sm * b) + sn * c for a, b, c in zip(e1, e2, n))


def vec_to_munu(v, incl_deg, node_deg=95):
    e1, e2, n = stripe_frame(incl_deg, node_deg)
    x, y, z = dotp(v, e1), dotp(v, e2), dotp(v, n)
    mu = atan2(y, x) / DEG + D(node_deg)
    nu = atan2(z, (x * x + y * y).sqrt()) / DEG
    return mu, nu

"""C19 - wavelength, photometric-system and band-flux conversions are self-consistent (DESIGN §5 C19).

airtovac / vactoair (pydl/goddard/astro.py), sdssflux2ab (pydl/photoop/sdssio.py),
filter_thru (pydl/pydlspec2d/spec2d.py) with djs_maskinterp and the filter curves.
"""
import math
import random
import numpy as np
from harness import core
from harness.xlate import c19_consts

ID = 'C19'
LEAN_MODULES = ['PydlVerif.Props.C19']
GEN_MODULE = 'PydlVerif.Gen.C19Consts'
P = 'PydlVerif.C19.'
THEOREMS = [P + t for t in (
    'below_2000_identity', 'below_2000_quantity', 'vac_gt_air', 'roundtrip_bound', 'roundtrip_air_sharp',
    'roundtrip_vac_sharp', 'array_is_map', 'unit_invariance', 'airtovac_units', 'vactoair_units',
    'ab_row_bands', 'ab_row_refused', 'ab_consistent', 'ab_ivar_consistent', 'ab_flux_factor',
    'filter_linear', 'filter_const', 'filter_between_min_max', 'filter_no_overlap',
    'maskInterp_independent', 'filter_mask_independent', 'filter_mask_independent_model',
    'maskInterp_bounds', 'maskInterp_const', 'maskInterp_linear',
    'filter_between_min_max_masked', 'filter_const_masked', 'filter_linear_masked',
    # extension round: mixed arrays, monotonicity, the weight image of filter_thru as the code computes it
    'array_mixed', 'roundtrip_air_all', 'roundtrip_array', 'airtovac_strict_mono', 'vactoair_strict_mono_above',
    'vactoair_strict_mono_below', 'units_order_preserving', 'toairImg_eq', 'toair_only_wavelengths', 'bandFlux_ok',
    'weights_nonneg', 'weights_zero_outside', 'bandflux_no_overlap', 'bandflux_between_min_max',
    'bandflux_between_min_max_masked', 'bandflux_const', 'filter_reverse_invariant', 'bandflux_reverse_invariant',
    'maskInterp_reverse_invariant', 'bandflux_reverse_invariant_masked',
    # extension round 2: filter_thru end to end (trace-set fit inside the model)
    'e2e_is_bandFlux', 'e2e_fit_error', 'loglinear_diffy', 'bandflux_loglinear_closed', 'fit_loglinear',
    'e2e_loglinear_closed', 'pairwise_same_value', 'top_dispatch')]
TECHNIQUE = 'Lean 4 proof over an executable model + constant translator + I/O correspondence'
RULE = ('wave: wavelengths log-uniform in 100 A .. 30 um plus the 2000 A boundary, as Python float, numpy scalar, 0-d / 1-d / 2-d '
        'array (mixed below/above 2000 A) and scalar / array Quantity in A, nm, um, both directions; ab: 1-6 rows x 5 bands in the '
        'three modes plus wrong column counts; interp: random masks incl. all-good / one-good / masked ends; filter: 1-3 traces, '
        'log-linear and curved wavelength solutions, ascending and descending, as image and as trace set, with and without toair, '
        'random / constant flux, masks of density 0-60 % (also negative flags); per case the weight image of the model is compared with '
        'an independent recomputation (all pixels, zero pattern exact) and with the real function probed by unit spectra at the band '
        'edges, both ends and random pixels; resp: np.interp as filter_thru calls it on the five curves and on synthetic curves '
        '(nodes, ends, beyond the ends), bit-exact. '
        'filter end to end (fthru-e2e, ffit): the same cases with NOTHING from the real TraceSet - the model fits d log10(lambda) itself '
        '(C13 model, Gaussian elimination), its fitted image is compared with the real TraceSet\'s (1e-9 relative to max) and its band '
        'fluxes with the real filter_thru (1e-9 max|flux|); counted by log-linear/curved, toair, descending, nx, ntrace. fthru-pw: the '
        'model with numpy\'s pairwise sums against the real band fluxes (<= 2 ulps; bit-exact on every case so far). e2e-rat: exact run of '
        'the end-to-end model at Rat (log10 := id, affine rows, nx 5-100, curve with zero or positive ends, both directions) against '
        'fit_loglinear and e2e_loglinear_closed. Oracle filter:loglinear-closed-form: real band flux of a log-linear solution = '
        'sum(resp f)/sum(resp). fthru-top: the whole call in the model - image or trace set (evaluated by the model, 10**), neither, '
        'other filter_prefix - against the real function (1e-9 max|flux|, same refusals). '
        'wave-rat: the same model text run exactly at Rat against the proved 109/a^3 bound and against the float code (1e-13). '
        'A case is non-trivial when it reaches the conversion arithmetic (not only the guard), a band correction, or a band that '
        'overlaps the wavelengths; distinct = distinct case payloads')
TRUSTED = ['hand-written model lean/PydlVerif/Model/Wave.lean tied to the code by the I/O correspondence of this run',
           'constant translator harness/xlate/c19_consts.py (Python ast; literals re-parsed with decimal and compared with float())',
           'astropy.units scale factors (inputs of the model), numpy elementwise float64 arithmetic, libm pow/log10, numpy sum / interp',
           'hand-written model lean/PydlVerif/Model/WaveFit.lean (filter_thru end to end: the trace-set fit of d log10 lambda through the '
           'C13 model Model/Trace.lean) tied to the code by the fthru-e2e / ffit streams; numpy.linalg.solve is a parameter with the '
           'contract "solves the system" (C13 SolveContract), run as Gaussian elimination with partial pivoting by the driver; the older '
           'streams (fweights, fthru, fthru-pw) still take the fitted image from the real TraceSet (lines 435-439 repeated by the harness)',
           'numpy pairwise summation as modelled for C14 (Model/Idl.lean npSum), used by the fthru-pw stream',
           'independent recomputation of the weight image in the harness (numpy Legendre least squares, np.interp, log10) as oracle']
ASSUMPTIONS = ['wavelengths and fluxes are finite float64 (float32 / integer arrays are outside the statement)',
               'theorems are over an exact ordered field; rounding is covered by the bit-exact / toleranced correspondence only',
               'log10/pow10 contract of ab_consistent: log10(pow10 x) = x, log10(xy) = log10 x + log10 y, pow10 x > 0',
               'Quantity inputs in nm/um are kept 1e-9 (relative) away from the 2000 A guard: astropy converts 200 nm to 1999.9999999999998 A',
               'masked-pixel independence is claimed for traces with at least one unmasked pixel (djs_maskinterp1 returns an all-masked row unchanged)',
               'magnitude / ivar are truth values (IDL /MAGNITUDE, /IVAR; checked as bool, int, numpy bool and 0-d array): the ivar form is '
               'SELECTED by the keyword, an inverse-variance ndarray there is outside the statement (it raises ValueError in `if ivar:`; '
               'only the docstring type is wrong - no behaviour to repair)',
               'filter_thru: flux, waveimg and mask have the same shape (docstring); reversal invariance of the real function is claimed '
               'for log-linear solutions only (the fit of forward differences is not symmetric under reversal for curved ones)']

LO, HI = 100.0, 3.0e5          # quantifier: 100 A .. 30 um
GUARD = 2000.0
PW_TOL = 1e-15                # fthru-pw: model with numpy's pairwise sums against the real band fluxes: <= 2 ulps, or this x max|flux|
UNITS = {'AA': 1.0, 'nm': 10.0, 'um': 1.0e4}
KINDS = ('float', 'npfloat', 'arr0d', 'arr1d', 'arr2d', 'qscalar', 'qarr', 'iarr', 'pyint')
DOC_OFFSETS = [-0.042, 0.036, 0.015, 0.013, -0.002]   # sdss-calib/845, quoted in the docstring
BANDS = 'ugriz'


def _ulps(a, b):
    if a == b:
        return 0
    if math.isnan(a) or math.isnan(b) or math.isinf(a) or math.isinf(b):
        return 1 << 62
    ia, ib = core.f2b(a), core.f2b(b)
    ia = ia if ia < (1 << 63) else (1 << 63) - ia
    ib = ib if ib < (1 << 63) else (1 << 63) - ib
    return abs(ia - ib)


def _bits(a):
    return [int(x) for x in np.ascontiguousarray(a, dtype=np.float64).ravel().view(np.uint64)]


def _arr(bits, shape=None):
    a = np.array([int(b) for b in bits], dtype=np.uint64).view(np.float64)
    return a.reshape(shape) if shape is not None else a


# ================================================================= airtovac / vactoair
def _astropy_unit(name):
    import astropy.units as u
    return {'AA': u.AA, 'nm': u.nm, 'um': u.um}[name]


def _unit_factors(name):
    import astropy.units as u
    un = _astropy_unit(name)
    return float(un.to(u.AA)), float(u.AA.to(un))


def _mk_input(case):
    """the Python object handed to the real function"""
    xs = _arr(case['xs'])
    k = case['kind']
    if k == 'float':
        return float(xs[0])
    if k == 'npfloat':
        return np.float64(xs[0])
    if k == 'arr0d':
        return np.array(xs[0])
    if k == 'arr1d':
        return xs.copy()
    if k == 'iarr':      # integer-valued wavelengths in an integer array (np.arange(3000, 9000, 100))
        return np.array([int(v) for v in xs], dtype=case.get('idtype', 'int64'))
    if k == 'pyint':
        return int(xs[0])
    if k == 'arr2d':
        return xs.copy().reshape(case['shape'])
    un = _astropy_unit(case['unit'])
    if k == 'qscalar':
        return float(xs[0]) * un
    return xs.copy() * un


def _snapshot(obj):
    if isinstance(obj, float):
        return [core.f2b(obj)]
    return _bits(getattr(obj, 'value', obj))


def _call(fn, obj):
    from pydl.goddard.astro import airtovac, vactoair
    f = airtovac if fn == 'a2v' else vactoair
    try:
        r = f(obj)
    except Exception as e:
        return {'err': core.exc_kind(e)}
    unit = None
    val = r
    if hasattr(r, 'unit'):
        unit = r.unit.to_string()
        val = r.value
    try:
        out = {'v': _bits(val), 'unit': unit, 'shape': list(np.shape(val))}
    except Exception as e:   # an answer that is not numeric
        return {'err': 'Other:unusable-result:' + type(r).__name__}
    return out


def _model_line(case):
    if case['kind'] in ('float', 'pyint'):
        return {'p': 'C19', 'op': case['fn'], 'x': case['xs'][0]}
    unit = None
    if case['kind'] in ('qscalar', 'qarr'):
        k, kinv = _unit_factors(case['unit'])
        unit = [core.f2b(k), core.f2b(kinv)]
    return {'p': 'C19', 'op': case['fn'] + '_arr', 'xs': case['xs'], 'unit': unit}


def _wave_values(rng, n, boundary=False):
    """physical wavelengths in A"""
    out = []
    for _ in range(n):
        r = rng.random()
        if boundary and r < 0.15:
            out.append(rng.choice([GUARD, math.nextafter(GUARD, 0.0), math.nextafter(GUARD, 1e9), 1999.5, 2000.5,
                                   2000.0 + rng.random(), 2000.0 - rng.random()]))
        elif r < 0.35:
            out.append(10 ** rng.uniform(math.log10(LO), math.log10(GUARD)) * (1 - 1e-6))
        else:
            out.append(10 ** rng.uniform(math.log10(GUARD), math.log10(HI)) * (1 + 1e-6))
    return out


def _wave_cases(ctx):
    rng = ctx.rng
    cases = []

    def add(fn, kind, phys, unit=None, shape=None, tag='random'):
        k = UNITS[unit] if unit else 1.0
        xs = [p / k for p in phys]
        c = {'stream': 'wave', 'fn': fn, 'kind': kind, 'xs': [core.f2b(x) for x in xs], 'tag': tag}
        if unit:
            c['unit'] = unit
        if shape:
            c['shape'] = shape
        cases.append(c)

    ns = ctx.n(120, 3000)
    for fn in ('a2v', 'v2a'):
        for kind in ('float', 'npfloat', 'arr0d'):
            for p in _wave_values(rng, ns, boundary=True):
                add(fn, kind, [p])
        for unit in UNITS:
            for p in _wave_values(rng, ns // 2, boundary=(unit == 'AA')):
                add(fn, 'qscalar', [p], unit)
        for _ in range(ctx.n(40, 600)):
            n = rng.choice([1, 2, 3, 7, 8, 33, 200])
            add(fn, 'arr1d', _wave_values(rng, n, boundary=True))
            unit = rng.choice(list(UNITS))
            add(fn, 'qarr', _wave_values(rng, n, boundary=(unit == 'AA')), unit)
        for _ in range(ctx.n(10, 100)):
            a, b = rng.randrange(1, 6), rng.randrange(1, 6)
            add(fn, 'arr2d', _wave_values(rng, a * b), shape=[a, b])
        # integer wavelengths: Python ints and integer arrays (a wavelength grid made with np.arange)
        for _ in range(ctx.n(12, 200)):
            n = rng.choice([1, 2, 5, 20, 60])
            start, step = rng.choice([100, 1500, 1990, 2000, 3000, 3500]), rng.choice([1, 7, 100, 1000])
            vals = [float(start + step * i) for i in range(n)] if rng.random() < 0.6 else \
                [float(round(p)) for p in _wave_values(rng, n)]
            add(fn, 'iarr', vals, tag='integers')
            cases[-1]['idtype'] = rng.choice(['int64', 'int64', 'int32'])
            add(fn, 'pyint', [vals[rng.randrange(len(vals))]], tag='integers')
        # all below / all above, every container
        for _ in range(ctx.n(10, 100)):
            n = rng.randrange(1, 9)
            below = [10 ** rng.uniform(2, 3.3) * 0.99 for _ in range(n)]
            above = [10 ** rng.uniform(3.31, 5.47) for _ in range(n)]
            unit = rng.choice(list(UNITS))
            add(fn, 'arr1d', below, tag='all-below')
            add(fn, 'arr1d', above, tag='all-above')
            add(fn, 'qarr', below, unit, tag='all-below')
            add(fn, 'qarr', above, unit, tag='all-above')
        # a dense sweep through the quantifier's range as one array
        m = ctx.n(2000, 100000)
        add(fn, 'arr1d', [10 ** (2 + (math.log10(HI) - 2) * (i + rng.random()) / m) for i in range(m)], tag='sweep')
    return cases


def _phys(case, vals):
    k = UNITS[case.get('unit', 'AA')] if case['kind'] in ('qscalar', 'qarr') else 1.0
    return [v * k for v in vals], k


def _wave_oracle(ctx, case, impl):
    """statement-level checks on the real code's answer; returns list of (signature, what, element index or None)"""
    bad = []
    fn, kind = case['fn'], case['kind']
    xs = [core.b2f(b) for b in case['xs']]
    if 'err' in impl:
        return [('wave:raises-%s:%s' % (impl['err'], kind), '%s raised %s for a valid %s input' % (fn, impl['err'], kind), None)]
    out = [core.b2f(b) for b in impl['v']]
    if len(out) != len(xs) or impl['shape'] != (case.get('shape') or ([] if kind in ('float', 'npfloat', 'arr0d', 'qscalar', 'pyint') else [len(xs)])):
        return [('wave:shape:%s' % kind, 'answer has shape %s for input of %d element(s)' % (impl['shape'], len(xs)), None)]
    isq = kind in ('qscalar', 'qarr')
    if isq:
        want = _astropy_unit(case['unit']).to_string()
        if impl['unit'] != want:
            bad.append(('wave:unit', 'answer in %s, caller used %s' % (impl['unit'], want), None))
    elif impl['unit'] is not None:
        bad.append(('wave:unit', 'answer carries unit %s, caller used none' % impl['unit'], None))
    px, k = _phys(case, xs)
    exact_k = (k == 1.0)
    all_below = all(p < GUARD for p in px)
    # reference: the plain ndarray path on the A values (the path the repository tests exercise)
    ref = _call(fn, np.array(px))
    # round trip through the real functions, same container
    other = 'v2a' if fn == 'a2v' else 'a2v'
    # (the answer of an integer input is a float: feed it back in the corresponding float container)
    bkind = {'iarr': 'arr1d', 'pyint': 'float'}.get(kind, kind)
    back = _call(other, _mk_input(dict(case, kind=bkind, xs=impl['v']))) if not bad else {'err': 'skipped'}
    for i, (x, p, o) in enumerate(zip(xs, px, out)):
        if math.isnan(o) or math.isinf(o):
            bad.append(('wave:not-finite', '%s(%r) = %r' % (fn, x, o), i))
            continue
        if p < GUARD:
            if isq and not exact_k and not all_below:
                if _ulps(o, x) > 8:   # x*k*kinv with astropy's inexact factors
                    bad.append(('wave:below-2000-changed', '%s changed %r %s (below 2000 A) to %r' % (fn, x, case.get('unit'), o), i))
            elif core.f2b(o) != core.f2b(x):
                bad.append(('wave:below-2000-changed', '%s changed %r (below 2000 A) to %r' % (fn, x, o), i))
        else:
            if fn == 'a2v' and not o > x:
                bad.append(('wave:vacuum-not-greater', 'airtovac(%r) = %r is not > air' % (x, o), i))
            if fn == 'v2a' and not o < x:
                bad.append(('wave:air-not-smaller', 'vactoair(%r) = %r is not < vacuum' % (x, o), i))
        if 'v' in ref:
            r = core.b2f(ref['v'][i])
            if isq:
                if abs(o * k - r) > 1e-12 * abs(r):
                    bad.append(('wave:unit-dependence', '%s(%r %s) = %r %s but %s(%r A) = %r A' % (
                        fn, x, case['unit'], o, case['unit'], fn, p, r), i))
            else:
                lim = 2 if kind in ('float', 'npfloat', 'pyint') else 0   # scalar ** 2 goes through libm pow
                if _ulps(o, r) > lim:
                    bad.append(('wave:container-dependence', '%s(%r) as %s = %r, as array element = %r' % (fn, x, kind, o, r), i))
        if 'v' in back:
            y = core.b2f(back['v'][i])
            # vactoair(airtovac(a)) = a for every a; airtovac(vactoair(v)) = v wherever vactoair(v) >= 2000 A
            # (below the guard both functions are the identity)
            applicable = True if fn == 'a2v' else (o * k >= GUARD or p < GUARD)
            if applicable and not abs(y - x) * k <= 1e-6:
                bad.append(('wave:roundtrip', '%s(%s(%r)) = %r, off by %.3g A' % (other, fn, x, y, abs(y - x) * k), i))
        elif back.get('err') != 'skipped' and (p >= GUARD):
            bad.append(('wave:raises-%s:%s' % (back['err'], kind), '%s raised %s on the answer of %s(%r)' % (other, back['err'], fn, x), i))
    # order: airtovac is strictly increasing everywhere, vactoair on [2000 A, inf) and below 2000 A (it steps down by 0.65 A at
    # the guard); checked on inputs whose elements are at least 1e-9 (relative) apart
    order = sorted(range(len(xs)), key=lambda i: xs[i])
    for i, j in zip(order, order[1:]):
        if xs[j] - xs[i] <= 1e-9 * abs(xs[j]) or math.isnan(out[i]) or math.isnan(out[j]):
            continue
        if fn == 'v2a' and px[i] < GUARD <= px[j]:
            continue
        if isq and not exact_k and (px[i] < GUARD) != (px[j] < GUARD):
            continue
        if not out[i] < out[j]:
            bad.append(('wave:order-not-preserved', '%s(%r) = %r but %s(%r) = %r' % (fn, xs[i], out[i], fn, xs[j], out[j]), None))
            break
    return bad


def _wave_run(ctx, cases, use_model=True):
    model = core.driver_parallel([_model_line(c) for c in cases]) if use_model else [None] * len(cases)
    for c, m in zip(cases, model):
        obj = _mk_input(c)
        before = _snapshot(obj)
        impl = _call(c['fn'], obj)
        after = _snapshot(obj)
        xs = [core.b2f(b) for b in c['xs']]
        px, _ = _phys(c, xs)
        ctx.seen(c if len(c['xs']) <= 64 else dict(c, xs=c['xs'][:64], n=len(c['xs'])), nontrivial=any(p >= GUARD for p in px))
        ctx.count('wave:%s:%s:%s' % (c['fn'], c['kind'], 'err' if 'err' in impl else
                                     ('below' if all(p < GUARD for p in px) else 'above' if all(p >= GUARD for p in px) else 'mixed')))
        if before != after or before != c['xs']:
            ctx.violate('wave:input-modified', '%s modified its %s input' % (c['fn'], c['kind']), c)
        if m is not None:
            if isinstance(m, dict) and 'driver_error' in m:
                ctx.disagree('wave', c, impl, m)
            else:
                mv = m if isinstance(m, list) else [m]
                lim = 2 if c['kind'] in ('float', 'npfloat', 'pyint') else 0
                iv = impl.get('v')
                if iv is None or len(iv) != len(mv) or any(_ulps(core.b2f(a), core.b2f(b)) > lim for a, b in zip(iv, mv)):
                    j = 0
                    if iv is not None and len(iv) == len(mv):
                        j = next(i for i, (a, b) in enumerate(zip(iv, mv)) if _ulps(core.b2f(a), core.b2f(b)) > lim)
                    ctx.disagree('wave', _one(c, j), impl if iv is None else {'v': iv[j:j + 1]}, mv[j:j + 1])
                elif iv != mv:
                    ctx.count('wave:scalar-path-pow-differs-by-ulp')
        for sig, what, i in _wave_oracle(ctx, c, impl):
            ctx.violate(sig, what, _minimise_wave(c, sig, i))


def _one(c, i):
    if len(c['xs']) == 1:
        return c
    d = dict(c, xs=[c['xs'][i]])
    if d['kind'] == 'arr2d':
        d['shape'] = [1, 1]
    return d


def _minimise_wave(c, sig, i):
    if i is None or len(c['xs']) == 1:
        return c
    d = _one(c, i)
    impl = _call(d['fn'], _mk_input(d))
    if any(s == sig for s, _, _ in _wave_oracle(None, d, impl)):
        return d
    return c


def _rat_run(ctx):
    """exact run of the model at Rat: the proved bounds hold for the executed model, and the float code
    (real implementation) stays within rounding of the exact value"""
    rng = ctx.rng
    xs = _wave_values(rng, ctx.n(150, 3000), boundary=True)
    model = core.driver_parallel([{'p': 'C19', 'op': 'rt_rat', 'x': core.f2b(x)} for x in xs], chunk=500)
    a2v = _call('a2v', np.array(xs))
    v2a = _call('v2a', np.array(xs))
    for i, (x, m) in enumerate(zip(xs, model)):
        c = {'stream': 'wave-rat', 'x': core.f2b(x)}
        ctx.seen(c, nontrivial=x >= GUARD)
        ctx.count('wave-rat:' + ('above' if x >= GUARD else 'below'))
        if 'driver_error' in m or not (m['air_ok'] and m['vac_ok'] and m['gt']):
            ctx.disagree('wave-rat', c, 'theorem bounds 109/a^3, vacuum > air', m)
            continue
        for key, impl in (('a2v_e15', a2v), ('v2a_e15', v2a)):
            exact = m[key] / 1e15
            got = core.b2f(impl['v'][i]) if 'v' in impl else float('nan')
            if not core.close(got, exact, 1e-13):
                ctx.disagree('wave-rat', dict(c, fn=key[:3]), got, exact)


# ================================================================= sdssflux2ab
def _flag(v, rep):
    """the keyword value as the caller may write it: the flags are truth values (IDL /MAGNITUDE, /IVAR)"""
    return {'bool': bool(v), 'int': int(v), 'npbool': np.bool_(v), 'arr0d': np.array(bool(v))}[rep]


def _ab_call(rows, magnitude, ivar, rep='bool', order='='):
    from pydl.photoop.sdssio import sdssflux2ab
    magnitude, ivar = _flag(magnitude, rep), _flag(ivar, rep)
    a = np.array(rows, dtype=np.float64)
    if a.ndim != 2:
        a = a.reshape(len(rows), -1)
    if order != '=':
        # the same numbers in the byte order a FITS table column arrives in (big-endian), or explicitly little-endian
        a = a.astype(np.dtype(np.float64).newbyteorder(order))
    before = _bits(a)
    try:
        r = sdssflux2ab(a, magnitude=magnitude, ivar=ivar)
    except Exception as e:
        return {'err': core.exc_kind(e)}, before == _bits(a)
    return {'ok': [[core.f2b(float(x)) for x in row] for row in r]}, before == _bits(a)


def _ab_cases(ctx):
    rng = ctx.rng
    cases = []
    for _ in range(ctx.n(150, 4000)):
        nrow = rng.randrange(1, 7)
        mode = rng.choice(['flux', 'mag', 'ivar', 'mag+ivar'])
        rows = []
        for _ in range(nrow):
            if mode.startswith('mag'):
                rows.append([rng.uniform(8, 28) for _ in range(5)])
            elif mode == 'ivar':
                rows.append([rng.choice([0.0, 10 ** rng.uniform(-6, 6)]) for _ in range(5)])
            else:
                rows.append([rng.choice([0.0, 1.0, -1.0]) * 10 ** rng.uniform(-3, 5) if rng.random() < 0.3
                             else 10 ** rng.uniform(-3, 5) for _ in range(5)])
        cases.append({'stream': 'ab', 'mode': mode, 'rows': [[core.f2b(x) for x in r] for r in rows],
                      'flagrep': rng.choice(['bool', 'bool', 'int', 'npbool', 'arr0d']), 'byteorder': rng.choice(['=', '=', '>', '<'])})
    for ncol in (1, 2, 4, 6, 10):
        for mode in ('flux', 'mag', 'ivar'):
            cases.append({'stream': 'ab', 'mode': mode, 'rows': [[core.f2b(rng.uniform(1, 20)) for _ in range(ncol)] for _ in range(2)]})
    return cases


def _ab_nonfinite(ctx):
    """one band of an object is not measured (NaN) or saturated (inf): "one AB offset PER BAND" - the other four bands of that
    object get their own offset as always (statement-level only)"""
    rng = ctx.rng
    for _ in range(ctx.n(30, 600)):
        nrow = rng.randrange(1, 5)
        rows = [[10 ** rng.uniform(-2, 4) for _ in range(5)] for _ in range(nrow)]
        r, j = rng.randrange(nrow), rng.randrange(5)
        rows[r][j] = rng.choice([float('nan'), float('inf'), float('-inf')])
        mode = rng.choice(['flux', 'ivar'])
        impl, untouched = _ab_call(rows, False, mode == 'ivar')
        c = {'stream': 'ab-nonfinite', 'mode': mode, 'rows': [[core.f2b(x) for x in rr] for rr in rows]}
        ctx.seen(c)
        ctx.count('ab:nonfinite:' + mode)
        if 'err' in impl:
            ctx.violate('ab:nonfinite:raises-' + impl['err'], 'sdssflux2ab raised on a row with a non-finite band', c)
            continue
        out = [[core.b2f(b) for b in rr] for rr in impl['ok']]
        for ri in range(nrow):
            for k in range(5):
                x, o = rows[ri][k], out[ri][k]
                if not math.isfinite(x):
                    continue
                fac = 10 ** (-0.4 * DOC_OFFSETS[k])
                want = x * fac if mode == 'flux' else x / fac ** 2
                if not (math.isfinite(o) and abs(o - want) <= 1e-9 * abs(want)):
                    ctx.violate('ab:nonfinite-band-spoils-others', 'band %s of a row whose band %s is %r: %r -> %r, own offset gives %r' % (
                        BANDS[k], BANDS[j], rows[r][j], x, o, want), c)
                    break


def _ab_run(ctx, cases, use_model=True):
    def flags(mode):
        return mode.startswith('mag'), mode.endswith('ivar')
    lines = [{'p': 'C19', 'op': 'ab', 'rows': c['rows'], 'magnitude': flags(c['mode'])[0], 'ivar': flags(c['mode'])[1]} for c in cases]
    model = core.driver_parallel(lines) if use_model else [None] * len(cases)
    ones, _ = _ab_call([[1.0] * 5], False, False)
    unit_factor = [core.b2f(b) for b in ones['ok'][0]] if 'ok' in ones else None
    for c, m in zip(cases, model):
        mag, iv = flags(c['mode'])
        rows = [[core.b2f(b) for b in r] for r in c['rows']]
        impl, untouched = _ab_call(rows, mag, iv, c.get('flagrep', 'bool'), c.get('byteorder', '='))
        ctx.count('ab:byteorder' + c.get('byteorder', '='))
        ctx.seen(c, nontrivial='ok' in impl)
        ctx.count('ab:%s:%s' % (c['mode'], 'err:' + impl['err'] if 'err' in impl else 'ok'))
        ctx.count('ab:flags-as-' + c.get('flagrep', 'bool'))
        if not untouched:
            ctx.violate('ab:input-modified', 'sdssflux2ab modified its input', c)
        if m is not None:
            same = ('err' in impl and impl == m) or ('ok' in impl and 'ok' in m and len(impl['ok']) == len(m['ok']) and all(
                len(a) == len(b) and all((x == y) if mag else core.close(core.b2f(x), core.b2f(y)) for x, y in zip(a, b))
                for a, b in zip(impl['ok'], m['ok'])))
            if not same:
                ctx.disagree('ab', c, impl, m)
        ncol = len(rows[0])
        if ncol != 5:
            if impl != {'err': 'ValueError'}:
                ctx.violate('ab:wrong-columns-accepted', 'a %d-column array was not refused with ValueError: %s' % (ncol, impl), c)
            continue
        if 'err' in impl:
            ctx.violate('ab:raises-' + impl['err'], 'sdssflux2ab raised %s on a valid 5-band array' % impl['err'], c)
            continue
        out = [[core.b2f(b) for b in r] for r in impl['ok']]
        for ri, (rin, rout) in enumerate(zip(rows, out)):
            for j in range(5):
                x, o, cj = rin[j], rout[j], DOC_OFFSETS[j]
                small = dict(c, rows=[c['rows'][ri]])
                if mag:
                    if abs((o - x) - cj) > 1e-12:
                        ctx.violate('ab:mag-offset:' + BANDS[j], 'magnitude %r -> %r, documented offset %r' % (x, o, cj), small)
                elif not iv:
                    if x == 0.0:
                        ok = (o == 0.0)
                    else:
                        ok = o / x > 0 and abs(-2.5 * math.log10(o / x) - cj) <= 1e-9
                    if not ok:
                        ctx.violate('ab:flux-offset:' + BANDS[j], 'flux %r -> %r is not the offset %r mag' % (x, o, cj), small)
                    if unit_factor and abs(o - x * unit_factor[j]) > 1e-13 * abs(o):
                        ctx.violate('ab:flux-not-per-band-factor:' + BANDS[j], 'flux %r -> %r, band factor %r' % (x, o, unit_factor[j]), small)
                else:
                    # ivar' * factor^2 = ivar, factor = what the flux form does to 1.0 in this band
                    if unit_factor is None or abs(o * unit_factor[j] ** 2 - x) > 1e-12 * abs(x):
                        ctx.violate('ab:ivar-inconsistent:' + BANDS[j], 'ivar %r -> %r but the flux form scales by %r' % (
                            x, o, unit_factor and unit_factor[j]), small)


# ================================================================= djs_maskinterp (index mode, rows)
def _interp_cases(ctx):
    rng = ctx.rng
    cases = []
    for _ in range(ctx.n(150, 3000)):
        n = rng.choice([1, 2, 3, 5, 8, 9, 17, 40, 100])
        style = rng.choice(['sparse', 'dense', 'all-good', 'all-bad', 'one-good', 'ends', 'two-good'])
        if style == 'sparse':
            m = [1 if rng.random() < 0.15 else 0 for _ in range(n)]
        elif style == 'dense':
            m = [1 if rng.random() < 0.7 else 0 for _ in range(n)]
        elif style == 'all-good':
            m = [0] * n
        elif style == 'all-bad':
            m = [rng.choice([1, 2, 255]) for _ in range(n)]
        elif style == 'one-good':
            m = [1] * n
            m[rng.randrange(n)] = 0
        elif style == 'two-good':
            m = [1] * n
            m[rng.randrange(n)] = 0
            m[rng.randrange(n)] = 0
        else:
            a = rng.randrange(0, n // 2 + 1)
            b = rng.randrange(0, n // 2 + 1)
            m = [1] * a + [0] * (n - a - b) + [1] * b
        f = [rng.uniform(-50, 50) if rng.random() < 0.8 else rng.choice([0.0, -0.0, 1e12, -3e-9]) for _ in range(n)]
        cases.append({'stream': 'interp', 'style': style, 'f': [core.f2b(x) for x in f], 'm': m})
    return cases


def _interp_call(f, m):
    from pydl.pydlutils.image import djs_maskinterp
    y = np.array([f, f])
    mm = np.array([m, m])
    try:
        r = djs_maskinterp(y, mm, axis=0)
    except Exception as e:
        return {'err': core.exc_kind(e)}
    return {'v': _bits(r[1])}


def _interp_run(ctx, cases, use_model=True):
    model = core.driver_parallel([{'p': 'C19', 'op': 'interp', 'f': c['f'], 'm': c['m']} for c in cases]) if use_model else [None] * len(cases)
    for c, m in zip(cases, model):
        f = [core.b2f(b) for b in c['f']]
        impl = _interp_call(f, c['m'])
        ctx.seen(c, nontrivial=any(c['m']) and not all(c['m']))
        ctx.count('interp:' + c['style'] + (':err' if 'err' in impl else ''))
        if m is not None and impl != {'v': m}:
            ctx.disagree('interp', c, impl, m)
        if 'err' in impl:
            ctx.violate('interp:raises-' + impl['err'], 'djs_maskinterp raised on a valid row', c)
            continue
        out = [core.b2f(b) for b in impl['v']]
        good = [x for x, b in zip(f, c['m']) if b == 0]
        # unmasked pixels keep their value, interpolated ones lie between the unmasked extremes
        for x, o, b in zip(f, out, c['m']):
            if b == 0 and o != x:
                ctx.violate('interp:good-pixel-changed', 'unmasked pixel %r became %r' % (x, o), c)
                break
            tol = 1e-9 * max(1.0, abs(min(good)), abs(max(good))) if good else 0.0
            if b != 0 and good and not (min(good) - tol <= o <= max(good) + tol):
                ctx.violate('interp:outside-good-range', 'interpolated value %r outside [%r, %r]' % (o, min(good), max(good)), c)
                break
        if good and any(c['m']):
            f2 = [x if b == 0 else 1e6 * (i + 1) for i, (x, b) in enumerate(zip(f, c['m']))]
            impl2 = _interp_call(f2, c['m'])
            if impl2 != impl:
                ctx.violate('interp:depends-on-masked-values', 'changing masked pixels changed the interpolated row', c)


# ================================================================= filter_thru
_curves = None


def _filter_curves(ctx=None):
    """the five response curves read directly from the data files (own parser)"""
    global _curves
    if _curves is None:
        out = []
        for b in BANDS:
            rows = []
            with open(core.REPO / 'pydl' / 'pydlutils' / 'data' / 'filters' / ('sdss_jun2001_%s_atm.dat' % b)) as fh:
                for line in fh:
                    line = line.strip()
                    if not line or line.startswith('#'):
                        continue
                    rows.append([float(x) for x in line.split()])
            a = np.array(rows)
            out.append((a[:, 0].copy(), a[:, 1].copy(), a))
        _curves = out
    return _curves


def _check_curves(ctx):
    for b, (lam, resp, a) in zip(BANDS, _filter_curves()):
        ctx.count('filter-curve:%s:rows' % b, len(lam))
        case = {'stream': 'curve', 'band': b}
        ctx.seen(case)
        if not (a[:, 1:] >= 0).all():
            ctx.violate('filter:curve-negative:' + b, 'filter curve %s has a negative response' % b, case)
        if not (np.diff(lam) > 0).all():
            ctx.violate('filter:curve-not-increasing:' + b, 'wavelengths of filter curve %s are not increasing (np.interp needs that)' % b, case)
        if resp[0] != 0 or resp[-1] != 0:
            ctx.violate('filter:curve-open-end:' + b, 'filter curve %s does not end at zero response (np.interp extends the end value)' % b, case)


def _curves_json():
    return [[_bits(lam), _bits(resp)] for lam, resp, _ in _filter_curves()]


def _own_interp(x, xp, fp):
    """piecewise-linear interpolation written out (bisect), constant beyond the ends"""
    import bisect
    if x < xp[0]:
        return fp[0]
    if x >= xp[-1]:
        return fp[-1]
    j = bisect.bisect_right(xp, x) - 1
    return fp[j] + (fp[j + 1] - fp[j]) * (x - xp[j]) / (xp[j + 1] - xp[j])


def _resp_cases(ctx):
    """np.interp exactly as filter_thru calls it (no left / right): the five filter curves and synthetic curves,
    abscissae inside, on the nodes, at and beyond both ends, in any order"""
    rng = ctx.rng
    cases = []
    for b, (lam, resp, _) in zip(BANDS, _filter_curves()):
        n = ctx.n(150, 4000)
        xs = [rng.uniform(lam[0] - 400, lam[-1] + 400) for _ in range(n)] + [float(v) for v in lam] + \
            [math.nextafter(float(lam[0]), 0.0), math.nextafter(float(lam[-1]), 1e9), math.nextafter(float(lam[-1]), 0.0)]
        cases.append({'stream': 'resp', 'curve': b, 'xp': _bits(lam), 'fp': _bits(resp), 'xs': [core.f2b(x) for x in xs]})
    for _ in range(ctx.n(40, 600)):
        n = rng.choice([1, 2, 3, 5, 12])
        xp, x = [], rng.uniform(-5, 5)
        for _ in range(n):
            xp.append(x)
            x += rng.choice([1.0, 0.25, 10 ** rng.uniform(-3, 1)])
        fp = [rng.choice([0.0, rng.uniform(-2, 3)]) for _ in range(n)]
        xs = [rng.uniform(xp[0] - 2, xp[-1] + 2) for _ in range(12)] + xp + [xp[0] - 1, xp[-1] + 1]
        rng.shuffle(xs)
        cases.append({'stream': 'resp', 'curve': 'synthetic', 'xp': [core.f2b(v) for v in xp], 'fp': [core.f2b(v) for v in fp],
                      'xs': [core.f2b(v) for v in xs]})
    return cases


def _resp_run(ctx, cases, use_model=True):
    model = core.driver_parallel([{'p': 'C19', 'op': 'resp', 'xp': c['xp'], 'fp': c['fp'], 'xs': c['xs']} for c in cases]) \
        if use_model else [None] * len(cases)
    for c, m in zip(cases, model):
        xp, fp, xs = _arr(c['xp']), _arr(c['fp']), _arr(c['xs'])
        impl = {'ok': _bits(np.interp(xs, xp, fp))}
        ctx.seen(c if len(xs) <= 64 else dict(c, xs=c['xs'][:64], n=len(c['xs'])))
        ctx.count('resp:%s' % c['curve'])
        if m is not None and impl != m:
            j = 0
            if isinstance(m, dict) and 'ok' in m and len(m['ok']) == len(impl['ok']):
                j = next(i for i, (a, b) in enumerate(zip(impl['ok'], m['ok'])) if a != b)
            ctx.disagree('resp', dict(c, xs=c['xs'][j:j + 1]), {'ok': impl['ok'][j:j + 1]},
                         m if not (isinstance(m, dict) and 'ok' in m) else {'ok': m['ok'][j:j + 1]})
        # numpy's kernel against the written-out interpolation (what "the response at a wavelength" means)
        out = _arr(impl['ok'])
        top = max(1.0, float(np.abs(fp).max()))
        for x, o in zip(xs, out):
            if abs(o - _own_interp(float(x), [float(v) for v in xp], [float(v) for v in fp])) > 1e-12 * top:
                ctx.violate('resp:not-linear-interpolation', 'np.interp(%r) = %r on curve %s' % (float(x), float(o), c['curve']), c)
                break


def _real_logdiff(newwave):
    """contract input of the model: the image `logdiff` of filter_thru BEFORE np.absolute - lines 435-439 of the function,
    the same calls with the same arguments on the same (air or vacuum) wavelength image, through the real TraceSet"""
    from pydl.pydlutils.trace import xy2traceset, traceset2xy
    nT, nx = newwave.shape
    logwave = np.log10(newwave)
    diffx = np.outer(np.ones((nT,), dtype=newwave.dtype), np.arange(nx - 1, dtype=newwave.dtype))
    diffy = logwave[:, 1:] - logwave[:, 0:nx - 1]
    diffset = xy2traceset(diffx, diffy, ncoeff=4, xmin=0, xmax=nx - 1)
    return diffy, traceset2xy(diffset)[1]


def _probe_pixels(rs, nx, wt):
    """pixels whose weight is observed through the real function: both ends, the edges of every band, a few random ones"""
    js = {0, nx - 1, nx // 2}
    for b in range(5):
        nz = np.nonzero(wt[b])[0]
        if len(nz):
            js |= {int(nz[0]) - 1, int(nz[0]), int(nz[-1]), int(nz[-1]) + 1}
    js |= set(int(v) for v in rs.randint(0, nx, size=6))
    return sorted(j for j in js if 0 <= j < nx)


def _weights(wave):
    """independent recomputation of |d log10(lambda)| (cubic Legendre fit of the pixel differences) x response"""
    from numpy.polynomial import legendre as L
    nT, nx = wave.shape
    logw = np.log10(wave)
    W = np.zeros((nT, 5, nx))
    x = np.arange(nx, dtype=float)
    xn = 2.0 * (x - 0.5 * (nx - 1)) / (nx - 1)
    for t in range(nT):
        dy = logw[t, 1:] - logw[t, :-1]
        coef = L.legfit(xn[:-1], dy, 3)
        ld = np.abs(L.legval(xn, coef))
        for b, (lam, resp, _) in enumerate(_filter_curves()):
            W[t, b] = ld * np.interp(wave[t], lam, resp)
    return W


def _filter_build(case):
    """arrays of a filter case from its parameters (deterministic in case['seed'])"""
    g = case['gen']
    rs = np.random.RandomState(g['seed'])
    nT, nx = g['ntrace'], g['nx']
    pix = np.arange(nx, dtype=np.float64)
    ll = np.zeros((nT, nx))
    for t in range(nT):
        start = g['start'][t]
        step = g['step'][t]
        ll[t] = start + step * pix + g['curv'][t] * step * pix ** 2 / nx
    if g.get('descending'):
        ll = ll[:, ::-1].copy()     # wavelength decreasing along the pixel axis (a spectrum stored red to blue)
    if g['flux'] == 'const':
        flux = np.zeros((nT, nx)) + np.array(g['const'])[:, None]
    elif g['flux'] == 'positive':
        flux = rs.rand(nT, nx) * 20 + 0.1
    elif g['flux'] == 'lines':
        flux = rs.rand(nT, nx) + 5
        for _ in range(6):
            flux[rs.randint(nT), rs.randint(nx)] += rs.rand() * 300
    else:
        flux = rs.randn(nT, nx) * 10
    flux2 = rs.randn(nT, nx) * 3 + 1
    mask = None
    if g['maskfrac'] > 0:
        mask = (rs.rand(nT, nx) < g['maskfrac']).astype(np.int32) * rs.randint(1, 5, size=(nT, nx)).astype(np.int32)
        if g.get('negmask'):
            # any non-zero flag masks a pixel: -1 (all bits) and the sign bit of an int32 mask as well
            mask = np.where(mask != 0, np.where(rs.rand(nT, nx) < 0.5, np.int32(-1), np.int32(-2 ** 31)), 0).astype(np.int32)
        for t in range(nT):
            if mask[t].all():
                mask[t, rs.randint(nx)] = 0
        if g.get('mask_ends'):
            mask[:, :g['mask_ends']] = 1
            mask[:, -g['mask_ends']:] = 1
            mask[:, nx // 2] = 0
    return pix, ll, flux, flux2, mask


def _filter_cases(ctx):
    rng = ctx.rng
    cases = []
    for i in range(ctx.n(22, 260)):
        nT = rng.randrange(1, 4)
        nx = rng.choice([12, 40, 150, 400]) if ctx.tier != 'thorough' else rng.choice([12, 40, 150, 400, 1200, 3900])
        start, step, curv = [], [], []
        for _ in range(nT):
            lo = rng.uniform(math.log10(2500.0), math.log10(9500.0))
            span = rng.uniform(0.02, min(0.6, math.log10(12000.0) - lo + 0.2))
            start.append(lo)
            step.append(span / nx)
            curv.append(rng.choice([0.0, 0.0, rng.uniform(-0.3, 0.3)]))
        gen = {'seed': rng.randrange(2 ** 31), 'ntrace': nT, 'nx': nx, 'start': start, 'step': step, 'curv': curv,
               'flux': rng.choice(['const', 'positive', 'lines', 'signed']), 'const': [rng.uniform(-5, 40) for _ in range(nT)],
               'maskfrac': rng.choice([0.0, 0.05, 0.3, 0.6]), 'mask_ends': rng.choice([0, 0, 1, 3]) if nx >= 12 else 0,
               'wave_as': rng.choice(['image', 'image', 'wset']), 'toair': rng.random() < 0.25,
               'junk': rng.choice(['big', 'nan', 'inf']), 'descending': rng.random() < 0.3, 'negmask': rng.random() < 0.25}
        cases.append({'stream': 'filter', 'gen': gen})
    # a spectrum that only just reaches a band: its last (first) pixels lie a few Angstrom inside one of the ten band edges, where
    # the tabulated response is 1e-4 .. 1e-3 - the band IS overlapped, a constant c comes back as c
    edges = []
    for b, (lam, resp, _) in enumerate(_filter_curves()):
        nz = np.nonzero(np.asarray(resp) > 0)[0]
        # the band begins / ends at the tabulated zero next to the first / last positive response (linear in between)
        edges += [(float(lam[max(nz[0] - 1, 0)]), +1), (float(lam[min(nz[-1] + 1, len(lam) - 1)]), -1)]
    for lam_e, side in (edges if ctx.tier == 'thorough' else rng.sample(edges, 5)):
        nx = rng.choice([300, 500])
        step_ = 1.0e-4          # SDSS pixels: 1e-4 dex
        inside = rng.uniform(1.5, 6.5)
        if side > 0:      # lower edge of the band: the spectrum ENDS just inside it
            lo = math.log10(lam_e + inside) - step_ * (nx - 1)
        else:             # upper edge: the spectrum STARTS just inside it
            lo = math.log10(lam_e - inside)
        hi = lo + step_ * (nx - 1)
        gen = {'seed': rng.randrange(2 ** 31), 'ntrace': 1, 'nx': nx, 'start': [lo], 'step': [(hi - lo) / (nx - 1)], 'curv': [0.0],
               'flux': rng.choice(['const', 'const', 'positive']), 'const': [rng.uniform(1, 40)], 'maskfrac': 0.0, 'mask_ends': 0,
               'wave_as': 'image', 'toair': False, 'junk': 'big', 'descending': rng.random() < 0.3, 'negmask': False, 'kind': 'band-edge'}
        cases.append({'stream': 'filter', 'gen': gen})
    return cases


def _ft(flux, waveimg=None, wset=None, mask=None, toair=False):
    from pydl.pydlspec2d.spec2d import filter_thru
    try:
        return np.asarray(filter_thru(flux, waveimg=waveimg, wset=wset, mask=mask, toair=toair), dtype=np.float64)
    except Exception as e:
        return {'err': core.exc_kind(e)}


def _filter_run(ctx, cases, use_model=True):
    from pydl.pydlutils.trace import xy2traceset, traceset2xy
    from pydl.goddard.astro import vactoair
    for c in cases:
        g = c['gen']
        pix, ll, flux, flux2, mask = _filter_build(c)
        nT, nx = flux.shape
        kw = {}
        if g['wave_as'] == 'wset':
            wset = xy2traceset(np.tile(pix, nT).reshape(nT, nx), ll, ncoeff=4)
            waveimg = 10 ** traceset2xy(wset)[1]
            kw['wset'] = wset
        else:
            waveimg = 10 ** ll
            kw['waveimg'] = waveimg
        keep = [_bits(flux), _bits(waveimg), None if mask is None else mask.copy()]
        res = _ft(flux, mask=mask, toair=g['toair'], **kw)
        ctx.seen(c)
        if isinstance(res, dict):
            ctx.count('filter:err:' + res['err'])
            ctx.violate('filter:raises-' + res['err'], 'filter_thru raised %s on valid input' % res['err'], c)
            continue
        if keep[0] != _bits(flux) or keep[1] != _bits(waveimg) or (mask is not None and not (keep[2] == mask).all()):
            ctx.violate('filter:input-modified', 'filter_thru modified flux, waveimg or mask', c)
        if res.shape != (nT, 5):
            ctx.violate('filter:shape', 'result has shape %s' % (res.shape,), c)
            continue
        weff = vactoair(waveimg) if g['toair'] else waveimg
        W = _weights(weff)
        wsum = W.sum(2)
        overlap = wsum > 0
        for t in range(nT):
            for b in range(5):
                ctx.count('filter:band-%s:%s' % (BANDS[b], 'overlap' if overlap[t, b] else 'none'))
        ctx.count('filter:wave-as-' + g['wave_as'] + (':descending' if g.get('descending') else ':ascending') + (':toair' if g['toair'] else ''))
        ctx.count('filter:mask-%s' % ('none' if mask is None else 'frac%.2f' % g['maskfrac']))
        scale = max(1.0, float(np.abs(flux).max()))
        # ---- correspondence with the model (weights from the independent recomputation)
        if use_model:
            lines = [{'p': 'C19', 'op': 'filter', 'f': _bits(flux[t]), 'm': None if mask is None else [int(v) for v in mask[t]],
                      'rs': [_bits(W[t, b]) for b in range(5)]} for t in range(nT)]
            # extended model: the weight image computed by the model from the wavelength image, the filter curves and the
            # code's own trace-set fit of d log10(lambda); the whole function on top of it
            dy, ld = _real_logdiff(weff)
            rows = lambda a: [_bits(r) for r in a]
            common = {'p': 'C19', 'wave': rows(waveimg), 'lds': rows(ld), 'toair': bool(g['toair']), 'curves': _curves_json()}
            lines.append(dict(common, op='fweights'))
            lines.append(dict(common, op='fthru', flux=rows(flux), mask=None if mask is None else [[int(v) for v in r] for r in mask]))
            # end-to-end model (extension round 2): nothing from the real TraceSet - the model fits d log10(lambda) itself
            lines.append({'p': 'C19', 'op': 'fthru_e2e', 'wave': rows(waveimg), 'flux': rows(flux), 'toair': bool(g['toair']),
                          'curves': _curves_json(), 'mask': None if mask is None else [[int(v) for v in r] for r in mask]})
            # the whole call incl. the argument handling: a trace set is evaluated by the model (C13 TSet.xy) and raised to 10**;
            # neither waveimg nor wset / another filter_prefix are refused
            top = {'p': 'C19', 'op': 'fthru_top', 'flux': rows(flux), 'toair': bool(g['toair']), 'curves': _curves_json(),
                   'mask': None if mask is None else [[int(v) for v in r] for r in mask], 'prefix_ok': True, 'wave': None, 'wset': None}
            if g['wave_as'] == 'wset':
                ws = kw['wset']
                lines.append(dict(top, wset={'func': str(ws.func), 'xmin': core.f2b(float(ws.xmin)), 'xmax': core.f2b(float(ws.xmax)),
                                             'coeff': rows(np.asarray(ws.coeff, dtype=np.float64))}))
            else:
                lines.append(dict(top, wave=rows(waveimg)))
            lines.append(top)
            lines.append(dict(top, wave=rows(waveimg), prefix_ok=False))
            model = core.driver(lines)
            _e2e_check(ctx, c, model[nT + 2], ld, res, scale)
            _top_check(ctx, c, model[nT + 3:nT + 6], flux, waveimg, res, scale)
            for t, m in enumerate(model[:nT]):
                if isinstance(m, dict):
                    ctx.disagree('filter', c, 'ok', m)
                    break
                mv = [core.b2f(v) for v in m]
                if any(abs(mv[b] - res[t, b]) > 1e-9 * scale for b in range(5)):
                    ctx.disagree('filter', dict(c, trace=t), [float(v) for v in res[t]], mv)
                    break
            _weights_check(ctx, c, model[nT], model[nT + 1], waveimg, weff, dy, W, res, scale)
        # ---- statement-level oracle on the real code
        good = np.ones(flux.shape, dtype=bool) if mask is None else (mask == 0)
        for t in range(nT):
            lo, hi = flux[t][good[t]].min(), flux[t][good[t]].max()
            fi = flux[t] if mask is None else _interp_rows(flux[t], mask[t])
            for b in range(5):
                v = res[t, b]
                if not overlap[t, b]:
                    if v != 0.0:
                        ctx.violate('filter:no-overlap-nonzero', 'band %s does not overlap trace %d but the result is %r' % (BANDS[b], t, v), c)
                    continue
                if not (lo - 1e-9 * scale <= v <= hi + 1e-9 * scale):
                    ctx.violate('filter:outside-min-max', 'band %s of trace %d: %r outside [%r, %r]' % (BANDS[b], t, v, lo, hi), c)
                ref = float((W[t, b] * fi).sum() / wsum[t, b])
                if abs(v - ref) > 1e-9 * scale:
                    ctx.violate('filter:not-weighted-mean', 'band %s of trace %d: %r, response-weighted mean %r' % (BANDS[b], t, v, ref), c)
        # log-linear solution (loglam = c0 + c1 i): the fitted pixel size is the constant c1, which cancels - the band flux is
        # sum(resp(lambda_i) f_i) / sum(resp(lambda_i)) whatever the pixel size (theorem bandflux_loglinear_closed)
        if all(cv == 0.0 for cv in g['curv']) and not g['toair']:
            ctx.count('filter:loglinear-closed-form')
            for t in range(nT):
                fi = flux[t] if mask is None else _interp_rows(flux[t], mask[t])
                for b, (lam, resp, _) in enumerate(_filter_curves()):
                    rr_ = np.interp(weff[t], lam, resp)
                    if overlap[t, b] and rr_.sum() > 0:
                        ref = float((rr_ * fi).sum() / rr_.sum())
                        if abs(res[t, b] - ref) > 1e-9 * scale:
                            ctx.violate('filter:loglinear-closed-form', 'band %s of trace %d: %r, sum(resp f)/sum(resp) = %r' % (
                                BANDS[b], t, float(res[t, b]), ref), c)
        # constant spectrum -> the constant
        cvals = np.array(g['const'])
        rc = _ft(np.zeros((nT, nx)) + cvals[:, None], mask=mask, toair=g['toair'], **kw)
        if isinstance(rc, dict) or (np.abs(rc - cvals[:, None]) > 1e-12 * np.maximum(1, np.abs(cvals[:, None])))[overlap].any():
            ctx.violate('filter:constant', 'constant spectra %s gave %s' % (list(cvals), rc if isinstance(rc, dict) else rc.tolist()), c)
        # linearity
        a, bcoef = g['const'][0] / 7.0 + 0.3, -1.7
        r2 = _ft(flux2, mask=mask, toair=g['toair'], **kw)
        r12 = _ft(a * flux + bcoef * flux2, mask=mask, toair=g['toair'], **kw)
        if isinstance(r2, dict) or isinstance(r12, dict) or \
                (np.abs(r12 - (a * res + bcoef * r2)) > 1e-10 * (abs(a) * scale + abs(bcoef) * max(1.0, float(np.abs(flux2).max())))).any():
            ctx.violate('filter:not-linear', 'filter_thru(a f + b g) differs from a filter_thru(f) + b filter_thru(g)', c)
        # masked pixels do not matter
        if mask is not None:
            rs = np.random.RandomState(g['seed'] ^ 0x5A5A)
            junk = flux.copy()
            bad = mask != 0
            junk[bad] = {'big': rs.randn(bad.sum()) * 1e6, 'nan': np.nan, 'inf': np.inf}[g['junk']]
            rj = _ft(junk, mask=mask, toair=g['toair'], **kw)
            if isinstance(rj, dict) or _bits(rj) != _bits(res):
                ctx.violate('filter:depends-on-masked-values', 'changing the masked pixels to %s values changed the result' % g['junk'], c)
            ctx.count('filter:junk-' + g['junk'])
        # image and trace-set form of the same wavelength solution; toair = converting first
        if g['wave_as'] == 'wset':
            ri = _ft(flux, waveimg=waveimg, mask=mask, toair=g['toair'])
            if isinstance(ri, dict) or _bits(ri) != _bits(res):
                ctx.violate('filter:wset-vs-image', 'trace-set and image form of the same wavelengths differ', c)
        if g['toair']:
            ra = _ft(flux, waveimg=vactoair(waveimg), mask=mask)
            if isinstance(ra, dict) or _bits(ra) != _bits(res):
                ctx.violate('filter:toair', 'toair=True differs from converting the wavelengths first', c)
        # a log-linear solution stored in the opposite pixel order gives the same band fluxes (the fitted |d log lambda| is the
        # same constant either way; for a curved solution - also a log-linear vacuum solution converted to air - the fit of the
        # reversed differences is the fit shifted by one pixel, so the statement is made for the log-linear case only)
        if all(cv == 0.0 for cv in g['curv']) and not g['toair']:
            rr = _ft(flux[:, ::-1].copy(), waveimg=waveimg[:, ::-1].copy(), mask=None if mask is None else mask[:, ::-1].copy(),
                     toair=g['toair'])
            ctx.count('filter:reversed')
            if isinstance(rr, dict) or (np.abs(rr - res) > 1e-9 * scale).any():
                ctx.violate('filter:pixel-order', 'reversing the pixel order of flux, wavelengths and mask changed the band fluxes: %s vs %s' % (
                    rr if isinstance(rr, dict) else rr.tolist(), res.tolist()), c)


def _top_check(ctx, c, ms, flux, waveimg, res, scale):
    """model of the whole call (argument handling, wset evaluated by the model) against the real function"""
    from pydl.pydlspec2d.spec2d import filter_thru
    g = c['gen']
    ctx.count('filter:top:' + g['wave_as'])
    m = ms[0]
    if not (isinstance(m, dict) and 'ok' in m):
        ctx.disagree('fthru-top', c, 'ok', m)
        return
    mres = np.array([[core.b2f(v) for v in r] for r in m['ok']])
    if mres.shape != res.shape or not (np.abs(mres - res) <= 1e-9 * scale).all():
        ctx.disagree('fthru-top', c, res.tolist(), mres.tolist())
        return
    for tag, call, mm in (('neither', lambda: filter_thru(flux), ms[1]),
                          ('prefix', lambda: filter_thru(flux, waveimg=waveimg, filter_prefix='sdss_other'), ms[2])):
        try:
            call()
            impl = 'ok'
        except Exception as e:
            impl = core.exc_kind(e)
        ctx.count('filter:top:refused-%s:%s' % (tag, impl))
        if not (isinstance(mm, dict) and mm.get('err') == impl):
            ctx.disagree('fthru-top', dict(c, refused=tag), impl, mm)


def _e2e_check(ctx, c, me, ld, res, scale):
    """end-to-end model (trace-set fit inside the model, C13 model + Gaussian elimination) against the real code: the fitted
    image `logdiff` (before np.absolute) against the real TraceSet's, the band fluxes against the real filter_thru"""
    g = c['gen']
    kind = ('loglinear' if all(cv == 0.0 for cv in g['curv']) else 'curved') + (':toair' if g['toair'] else '') + \
           (':descending' if g.get('descending') else '')
    ctx.count('filter:e2e:' + kind)
    ctx.count('filter:e2e:nx%d:ntrace%d' % (g['nx'], g['ntrace']))
    if not (isinstance(me, dict) and 'ok' in me and 'lds' in me):
        ctx.disagree('fthru-e2e', c, 'ok', me)
        return
    mld = np.array([[core.b2f(v) for v in r] for r in me['lds']])
    top = max(float(np.abs(ld).max()), 1e-300)
    if mld.shape != ld.shape or not (np.abs(mld - ld) <= 1e-9 * top).all():
        ctx.disagree('ffit', c, 'logdiff of the real TraceSet: max |.| %r' % top,
                     'model fit differs by %r' % (float(np.abs(mld - ld).max()) if mld.shape == ld.shape else mld.shape,))
        return
    mres = np.array([[core.b2f(v) for v in r] for r in me['ok']])
    if mres.shape != res.shape or not (np.abs(mres - res) <= 1e-9 * scale).all():
        ctx.disagree('fthru-e2e', c, res.tolist(), mres.tolist())


def _weights_check(ctx, c, mw, mt, waveimg, weff, dy, W, res, scale):
    """extended model against the real function: wavelengths actually used (bit-exact), diffy, the weight image (against the
    independent recomputation and, normalised, against the real function probed with unit spectra; zero pattern exact),
    the band fluxes"""
    g = c['gen']
    nT, nx = waveimg.shape
    if not isinstance(mw, list) or len(mw) != nT or not (isinstance(mt, dict) and 'ok' in mt):
        ctx.disagree('fweights', c, 'ok', [mw if not isinstance(mw, list) else 'rows:%d' % len(mw), mt])
        return
    rs = np.random.RandomState(g['seed'] ^ 0x3C3C)
    probes = []
    for t in range(nT):
        row = mw[t]
        if _bits(weff[t]) != row['w']:
            ctx.disagree('fweights-wave', dict(c, trace=t), 'vactoair(waveimg)' if g['toair'] else 'waveimg', 'model newwaveimg differs')
            return
        if len(row['dy']) != nx - 1 or (np.abs(_arr(row['dy']) - dy[t]) > 4e-15).any():
            ctx.disagree('fweights-diffy', dict(c, trace=t), 'logwave[1:] - logwave[:-1]', 'model diffy differs')
            return
        if any(isinstance(r, str) for r in row['rs']):
            ctx.disagree('fweights', dict(c, trace=t), 'ok', row['rs'])
            return
        wt = np.array([_arr(r) for r in row['rs']])
        top = max(float(W[t].max()), 1e-300)
        for b in range(5):
            # independent recomputation (own Legendre least squares): values close, zero pattern identical
            if (np.abs(wt[b] - W[t, b]) > 1e-9 * top).any() or ((wt[b] == 0) != (W[t, b] == 0)).any():
                j = int(np.argmax(np.abs(wt[b] - W[t, b]) + 1e300 * ((wt[b] == 0) != (W[t, b] == 0))))
                ctx.disagree('fweights', dict(c, trace=t, band=BANDS[b], pixel=j), float(W[t, b, j]), float(wt[b, j]))
                return
            if (wt[b] < 0).any():
                ctx.violate('filter:negative-weight', 'band %s of trace %d has a negative weight' % (BANDS[b], t), c)
        probes.append((t, _probe_pixels(rs, nx, wt), wt))
    # the real function observed pixel by pixel: a spectrum that is 1 in pixel j and 0 elsewhere returns weight_j / sum(weights)
    E = np.zeros((sum(len(js) for _, js, _ in probes), nx))
    wv = np.zeros_like(E)
    k = 0
    for t, js, _ in probes:
        for j in js:
            E[k, j] = 1.0
            wv[k] = waveimg[t]
            k += 1
    pr = _ft(E, waveimg=wv, toair=g['toair'])
    ctx.count('filter:weight-probes', len(E))
    if isinstance(pr, dict):
        ctx.violate('filter:raises-' + pr['err'], 'filter_thru raised %s on unit spectra' % pr['err'], c)
        return
    k = 0
    for t, js, wt in probes:
        ssum = wt.sum(1)
        nrm = wt / (ssum + (ssum <= 0))[:, None]
        for j in js:
            for b in range(5):
                if abs(pr[k, b] - nrm[b, j]) > 1e-12 or ((pr[k, b] == 0) != (wt[b, j] == 0)):
                    ctx.disagree('fweights-probe', dict(c, trace=t, band=BANDS[b], pixel=j), float(pr[k, b]), float(nrm[b, j]))
                    return
            k += 1
    # the whole function in the model (weights from the wavelength image) against the real band fluxes
    mres = np.array([[core.b2f(v) for v in r] for r in mt['ok']])
    if mres.shape != res.shape or (np.abs(mres - res) > 1e-9 * scale).any():
        ctx.disagree('fthru', c, res.tolist(), mres.tolist())
        return
    # the same with numpy's pairwise sums in the model (C14's npSum): every other step is elementwise IEEE arithmetic on
    # bit-identical inputs (np.interp, |logdiff|, the products, the quotient), so the band fluxes agree to the last bits
    mpw = np.array([[core.b2f(v) for v in r] for r in mt.get('okpw', [])])
    if mpw.shape != res.shape:
        ctx.disagree('fthru-pw', c, res.tolist(), mt.get('okpw'))
        return
    ul = max(_ulps(float(a), float(b)) for a, b in zip(mpw.ravel(), res.ravel()))
    ctx.count('filter:pairwise-sum:' + ('bit-exact' if ul == 0 else 'ulps<=%d' % (2 if ul <= 2 else 16 if ul <= 16 else 10 ** 9)))
    if ul > 2 and not (np.abs(mpw - res) <= PW_TOL * scale).all():
        ctx.disagree('fthru-pw', c, res.tolist(), mpw.tolist())


def _interp_rows(f, m):
    """linear interpolation over masked pixels, constant beyond the outermost unmasked ones (own code)"""
    good = np.nonzero(m == 0)[0]
    out = f.astype(float).copy()
    for i in np.nonzero(m != 0)[0]:
        left = good[good < i]
        right = good[good > i]
        if len(left) == 0:
            out[i] = f[right[0]]
        elif len(right) == 0:
            out[i] = f[left[-1]]
        else:
            j0, j1 = left[-1], right[0]
            out[i] = f[j0] + (f[j1] - f[j0]) * (i - j0) / (j1 - j0)
    return out


# ================================================================= the check
def _gen_obligation(ctx):
    try:
        consts = c19_consts.regenerate(core.REPO, core.LEAN)
    except Exception as e:
        # The translator is an ADDITIONAL tie: it reads the constants only from the code shape it knows.  A rewrite it
        # cannot read is not evidence against the property - the correspondence below (bit-exact airtovac / vactoair,
        # sdssflux2ab on every band) is the tie that still checks those constants on this run.  Recorded, not an obligation.
        ctx.count('translator:source-shape-not-recognised')
        ctx.notes.append('constants translator could not read the current source (%s: %s); the constants are tied by the '
                         'correspondence streams on this run' % (type(e).__name__, e))
        return
    ok, log = core.lake_build([GEN_MODULE])
    ctx.oblige('constants of airtovac/vactoair/sdssflux2ab = model tables (Gen/C19Consts.lean: 5 decide obligations)', ok, 'gen-decide',
               '' if ok else log)
    ctx.count('gen:constants-extracted', len(consts['ciddor_air']) + len(consts['ciddor_vac']) + len(consts['ab']) + len(consts['abscalars']) + 1)


def _e2e_rat_run(ctx):
    """exact run of the end-to-end model at Rat (log10 := id, exactly affine rows, exact Gaussian elimination): the fitted image
    is exactly the pixel size c1 in every pixel and the band flux exactly sum(resp f)/sum(resp) - the executed model meets
    fit_loglinear / e2e_loglinear_closed (which also shows their hypotheses are met by a run that returns)"""
    rng = ctx.rng
    lines, cases = [], []
    for _ in range(ctx.n(10, 120)):
        nT = rng.randrange(1, 3)
        nx = rng.choice([5, 6, 7, 9, 12, 20, 33] if ctx.tier != 'thorough' else [5, 6, 7, 8, 9, 12, 20, 33, 64, 100])
        c1 = [rng.choice([-1, 1]) * rng.randrange(1, 17) / 16.0 for _ in range(nT)]
        c0 = [rng.randrange(0, 81) / 8.0 for _ in range(nT)]
        wave = [[c0[t] + c1[t] * i for i in range(nx)] for t in range(nT)]      # exact in binary64
        lo = max(min(r) for r in wave)
        hi = min(max(r) for r in wave)
        if hi - lo < 1.0:          # traces do not share a stretch: a curve around the first trace
            lo, hi = min(wave[0]), max(wave[0])
        a = lo + (hi - lo) / 8.0
        b = hi - (hi - lo) / 8.0
        k = rng.randrange(1, 4)
        xp = [a] + sorted(a + (b - a) * rng.randrange(1, 32) / 32.0 for _ in range(k)) + [b]
        xp = sorted(set(math.floor(v * 1024) / 1024.0 for v in xp))
        ends = rng.choice(['zero', 'positive'])
        fp = [rng.randrange(1, 65) / 64.0 for _ in xp]
        if ends == 'zero' and len(xp) >= 3:
            fp[0] = fp[-1] = 0.0
        flux = [[rng.randrange(-40, 160) / 4.0 for _ in range(nx)] for _ in range(nT)]
        c = {'stream': 'e2e-rat', 'wave': [_bits(np.array(r)) for r in wave], 'flux': [_bits(np.array(r)) for r in flux],
             'xp': _bits(np.array(xp)), 'fp': _bits(np.array(fp)), 'c1': _bits(np.array(c1))}
        cases.append((c, nx, nT, ends))
        lines.append(dict(c, p='C19', op='e2e_rat'))
    model = core.driver_parallel(lines, chunk=8)
    for (c, nx, nT, ends), m in zip(cases, model):
        ctx.seen(c)
        ctx.count('e2e-rat:nx%d' % nx)
        ctx.count('e2e-rat:ends-' + ends + (':descending' if core.b2f(c['c1'][0]) < 0 else ':ascending'))
        if 'driver_error' in m or 'err' in m or not m.get('fit_ok'):
            ctx.disagree('e2e-rat', c, 'theorem fit_loglinear: fitted image = c1 exactly', m)
            continue
        if not m['overlap']:
            ctx.count('e2e-rat:no-overlap')
            continue
        if not m['res_ok']:
            ctx.disagree('e2e-rat', c, 'theorem e2e_loglinear_closed: band flux = sum(resp f)/sum(resp) exactly', m)


def run(ctx):
    _gen_obligation(ctx)
    core.audit(ctx, LEAN_MODULES, THEOREMS)
    _check_curves(ctx)
    _wave_run(ctx, _wave_cases(ctx))
    _rat_run(ctx)
    _ab_run(ctx, _ab_cases(ctx))
    _ab_nonfinite(ctx)
    _interp_run(ctx, _interp_cases(ctx))
    _resp_run(ctx, _resp_cases(ctx))
    _filter_run(ctx, _filter_cases(ctx))
    _e2e_rat_run(ctx)
    if any(not o['ok'] for o in ctx.obligations) or ctx.disagreements:
        _search(ctx)


def _search(ctx):
    """directed failing-input search on the real code only (a proof obligation or the correspondence is broken)"""
    ctx.notes.append('failing-input search ran: oracle-only cases around the disagreements and over the whole range')
    rng = ctx.rng
    cases = []
    centres = []
    for d in ctx.disagreements:
        c = d['case']
        if isinstance(c, dict) and c.get('stream') == 'wave':
            centres += [core.b2f(b) * (UNITS[c.get('unit', 'AA')] if c['kind'] in ('qscalar', 'qarr') else 1.0) for b in c['xs'][:4]]
    centres = centres[:20] + [GUARD, 2000.65, 3000.0, 1.0e4]
    for fn in ('a2v', 'v2a'):
        for p0 in centres:
            near = [p0 * (1 + rng.uniform(-1e-3, 1e-3)) for _ in range(100)] + [p0]
            near = [p for p in near if LO <= p <= HI]
            cases.append({'stream': 'wave', 'fn': fn, 'kind': 'arr1d', 'xs': [core.f2b(p) for p in near], 'tag': 'search'})
            for p in near[:10]:
                for kind in ('float', 'npfloat', 'arr0d'):
                    cases.append({'stream': 'wave', 'fn': fn, 'kind': kind, 'xs': [core.f2b(p)], 'tag': 'search'})
                for unit in UNITS:
                    if abs(p / GUARD - 1) > 1e-9 or unit == 'AA':
                        cases.append({'stream': 'wave', 'fn': fn, 'kind': 'qscalar', 'unit': unit, 'xs': [core.f2b(p / UNITS[unit])], 'tag': 'search'})
        m = ctx.n(20000, 200000)
        cases.append({'stream': 'wave', 'fn': fn, 'kind': 'arr1d', 'tag': 'search',
                      'xs': [core.f2b(10 ** (2 + (math.log10(HI) - 2) * (i + rng.random()) / m)) for i in range(m)]})
    _wave_run(ctx, cases, use_model=False)
    _ab_run(ctx, _ab_cases(ctx), use_model=False)
    _interp_run(ctx, _interp_cases(ctx), use_model=False)
    _resp_run(ctx, _resp_cases(ctx), use_model=False)
    _filter_run(ctx, _filter_cases(ctx)[:10], use_model=False)


def replay(ctx, case):
    _gen_obligation(ctx)
    core.audit(ctx, LEAN_MODULES, THEOREMS)
    s = case.get('stream') if isinstance(case, dict) else None
    if s == 'wave':
        _wave_run(ctx, [case])
    elif s == 'ab':
        _ab_run(ctx, [case])
    elif s == 'interp':
        _interp_run(ctx, [case])
    elif s == 'resp':
        _resp_run(ctx, [case])
    elif s == 'filter':
        _filter_run(ctx, [{k: v for k, v in case.items() if k not in ('trace', 'band', 'pixel', 'refused')}])
    elif s == 'curve':
        _check_curves(ctx)
    else:
        run(ctx)


LEVEL_TEXT = ('Machine-checked Lean 4 theorems (any ordered field) over an executable model of airtovac/vactoair, sdssflux2ab and '
              'filter_thru: identity below 2000 A, vacuum > air above it, both round trips within 2e-8 A (109/a^3; contraction estimate '
              'of the two fixed-point iterations) - for scalars and elementwise for arrays that mix wavelengths below and above 2000 A -, '
              'airtovac strictly increasing everywhere and vactoair strictly increasing on [2000 A, inf) (so answering in the caller\'s '
              'unit preserves the order), unit invariance of the Quantity wrapper, array = map of scalar, one AB offset per band applied '
              'consistently by the flux / magnitude / inverse-variance forms. filter_thru is modelled from the wavelength image on: toair '
              'conversion of the image, np.interp of the filter curve (constant ends), |d log lambda| x response, mask interpolation, '
              'normalised sum. Proved for these weights: they are >= 0 for a non-negative curve, 0 outside the curve when it starts and ends '
              'at zero, hence band flux linear, = c for constant c, between min and max of the (unmasked) flux, exactly 0 without overlap, '
              'independent of masked pixels and of the pixel order (also with a mask: the mask interpolation commutes with reversal); toair only changes the wavelengths at which the response is read. '
              'Extension 2: filter_thru END TO END - the cubic Legendre trace-set fit of the pixel differences of log10 lambda is inside the '
              'model (C13 model of xy2traceset/traceset2xy); proved: the end-to-end function is bandFlux on the fitted image the model '
              'computes (all filter_* / bandflux_* theorems apply to it), a failing fit fails the function; for a log-linear solution '
              '(log10 lambda = c0 + c1 i, nx >= 5) the fitted pixel size is exactly c1 at every pixel (func_fit recovers exact data; the 4x4 '
              'Legendre normal matrix on equally spaced pixels is proved positive definite) and the band flux is sum(resp f)/sum(resp) '
              'independent of c1; numpy pairwise sums give the same value as left-to-right sums; the argument handling in front (prefix / '
              'neither argument refused, image wins over trace set, trace set = 10**traceset2xy) is modelled and stated (top_dispatch). '
              'Numeric constants are re-extracted from the source on every run and decided equal to the model tables. '
              'The model is tied to the code by bit-exact I/O correspondence (all input containers and units; np.interp), by the weight '
              'image observed through the real function with unit spectra, and an independent oracle.')
LEVEL_NOTE = ('Trusted: Lean kernel, axioms propext/Classical.choice/Quot.sound at most, the hand-written model (validated by the '
              'correspondence sample), the AST constant translator, astropy unit factors, numpy/libm kernels. Theorems are exact-arithmetic; '
              'floating-point rounding and "never modify the input" are decided by the harness only. ab_consistent assumes the log10/pow10 '
              'contract. filter_thru: the cubic Legendre trace-set fit of the pixel differences of log10 lambda IS modelled (Model/WaveFit.lean '
              'through the C13 model); parameters that remain: log10 (libm) and the linear solver of the 4x4 normal equations (contract: '
              'solves the system; the log-linear theorems assume it, the structure theorems do not); the Legendre rows are the three-term '
              'recurrence (scipy on the real side), so the fit is compared at 1e-9, not bit-exactly. The bandflux_* theorems hold for every '
              'fitted image of the right shape; the absolute scale of the weights is not '
              'observable through the function (it cancels), the normalised weights are. numpy pairwise summation is modelled (C14 npSum) '
              'in filterThruG filterMeanPw and compared to <= 2 ulps given the real fitted image; the theorems are stated for the '
              'left-to-right sums and carried over by pairwise_same_value. nx < 2 and flux/waveimg of different shapes are not modelled '
              '(Unmodelled); the log-linear closed form needs nx >= 5. Reversal invariance is proved for weights/flux/fitted image reversed together; the real fit '
              'of a reversed curved solution is shifted by one pixel, so the harness asserts it for log-linear solutions only. '
              'Masked-pixel independence needs one unmasked pixel per trace. float32/int flux not covered; sdssflux2ab flags are truth values.')

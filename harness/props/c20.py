"""C20 - a failing pipeline call leaves the process environment as it found it (DESIGN §5 C20).

translator (harness/xlate/c20_envir.py) -> Gen/C20Progs.lean, `decide` obligations against the
general theorem `restores_sound`; fault injection on the real functions (harness/props/c20_real.py);
the IR semantics is run under the oracle reconstructed from every real run and compared.
"""
import os
import re
import json
import time
from collections import defaultdict
from harness import core
from harness.xlate import c20_envir as X

ID = 'C20'
TECHNIQUE = 'Lean 4 proof of a checker for an effect IR + AST translator + fault injection on the real code'
LEAN_MODULES = ['PydlVerif.Props.C20']
P = 'PydlVerif.C20.'
THEOREMS = [P + 'restores_sound', P + 'other_vars_untouched', P + 'restores_only_touches',
            # round-5 extension: what the IR terms chosen for the newly read idioms do, for all states
            P + 'pop_idiom_set', P + 'pop_idiom_unset', P + 'pop_default_idiom',
            P + 'setdefault_idiom_set', P + 'setdefault_idiom_unset',
            # extension round 2: semantic compositionality (Restoring), monotonicity in the declared set, exactness of the
            # checker on straight-line save / clobber programs and a witness that it is not exact beyond
            P + 'restores_restoring', P + 'neutral_restoring', P + 'restoring_seq', P + 'restoring_tryFinally',
            P + 'restoring_tryExcept', P + 'restoring_choice', P + 'restoring_ifNone', P + 'restoring_ifSet',
            P + 'restoring_loop', P + 'restoring_scope', P + 'restores_seq', P + 'restores_tryFinally_neutral',
            P + 'restores_mono', P + 'restores_iff_writes', P + 'ana_straight', P + 'run_straight',
            P + 'restores_exact_straight', P + 'checker_incomplete_witness',
            P + 'guard_finally_restores', P + 'guard_idiom_restoring']
GEN_MODULE = 'PydlVerif.Gen.C20Progs'
GEN_NS = 'PydlVerif.Gen.C20.'
PROGS = [
    dict(name='windowScore', file='pydl/photoop/window.py', func='window_score', vars=['PHOTO_CALIB']),
    dict(name='templateInput', file='pydl/pydlspec2d/spec1d.py', func='template_input', vars=['RUN2D', 'RUN1D']),
]
RULE = ('fault schedules: for each target function, each stub variant (rescore; object gal/qso/star x method pca/hmf x '
        'dump file present x flux plots; missing file / missing fibre / unknown method) and each initial state of the touched '
        'variables (set / unset / set-but-empty, RUN2D and RUN1D independently; PHOTO_RESOLVE set/unset): no fault, an '
        'exception raised at the k-th LINE event of the monitored frames (target + everything inlined into it) for every k '
        'that maps to a fault point of the IR outside restore code (restore code = recognised syntactically on the source, '
        'also when the translation failed: in a finally / __exit__ / after the yield of a context-manager generator / in a '
        'helper called from there, the statements that only touch os.environ and locals and the heads around them; plus '
        'the restore statements of the IR), and at the k-th collaborator call for every k; exception '
        'classes InjectedFault plus those named by the except clauses; two-call sequences (first call failing at a sampled '
        'point, variables changed in between); ordered pairs (entry point A failing at a, then entry point B failing at b: '
        'window_score and template_input twice and in both mixed orders, b a line event or a collaborator call, second '
        'entry state fresh / unset / the versions the file names; thorough: full product when window_score is first, 120 first-call points of template_input x all of window_score, 30 x 30 for template_input twice); '
        'template_input with the REAL readspec / spec_path on a synthetic survey tree (C16 tree builder; photoPlate present / '
        'absent x SPECTRO_MATCH x PHOTO_RESOLVE set / unset, BOSS_SPECTRO_REDUX unset) with faults at the line events inside '
        'readspec as well; random straight-line save / pop programs for the exactness theorem. '
        'The module is re-executed before every plan / sequence. '
        'Non-trivial = the call reaches the first environment write or fails; distinct = distinct (function, variant, initial '
        'state, injection | sequence) payloads')
TRUSTED = ['AST translator harness/xlate/c20_envir.py (about 2000 lines of Python incl. the restore-code recogniser): which constructs are environment effects '
           '(os.environ[..], .get, os.getenv, del, .pop with and without default, .setdefault, .update of a literal mapping / '
           'keywords / a known dict of saved values), which may raise, how same-module helpers / context managers are inlined '
           'and their parameters and return values bound, how module-level constants (names bound once, in the whole file, to a '
           'string or a tuple / list of strings; namedtuple types) and structured snapshots (list / dict displays and '
           'comprehensions, dict(), namedtuple instances, tuple unpacking; loops over them, over .items() / .keys() / .values() / '
           'sorted() / reversed() are unrolled) are resolved; validated on every run by comparing the IR semantics with the real '
           'function under every injected fault and by 75 snippets with known verdict (accept / reject / refuse)',
           'syntactic recogniser of restore code (RestoreScan in the same file, 6 snippets with exactly known restore lines): '
           'decides where the fault injector must not raise; errs on the side of not injecting inside finally / __exit__ blocks',
           'a module-level constant is not rebound or mutated from another module (the translator sees one file)',
           'IR semantics claim: code outside the translated functions (and their inlined callees) does not write os.environ; '
           'checked syntactically by a census of os.environ writers in the package',
           'extension round 2: same-module stages that only read os.environ (readspec, spec_path, number_of_fibers) are inlined '
           'in a second generated program (templateInputDeep) whose restores-theorem is re-proved each run and which is compared '
           'with the real readspec on a synthetic survey tree; every other in-package callee reachable by plain-name calls through '
           'the imports (visited set, depth limit 8) is classified syntactically (writes / reads / neutral) by the transitive '
           'census obligation - cross-module callees are not inlined, method calls on objects and callees outside the package '
           'are not followed',
           'sys.monitoring LINE-event injection and unittest.mock stubs stand for failures of collaborators']
ASSUMPTIONS = ['asynchronous exceptions (KeyboardInterrupt, MemoryError between two bytecodes of a restore statement, of an '
               '__exit__ that only restores, of a helper that only reads/writes os.environ) are outside the statement, and so is '
               'a failure of the restoration code itself (evaluating the saved value it assigns back, iterating over / '
               'indexing the local snapshot, testing a saved value) - such statements are never fault-injected, whether or not '
               'the translation to the IR succeeded; a collaborator call inside a finally / __exit__ is injected',
               'os.environ is only reached as os.environ / from os import environ; no aliasing of the mapping, no os.putenv',
               'names (os, None, builtins) are not rebound; reading a local name or a constant, an identity test and the truth '
               'value of a saved string/None cannot raise',
               'other threads do not modify the environment concurrently']
LEVEL_TEXT = ('Machine-checked Lean 4 theorem restores_sound: every program of the effect IR accepted by the checker `restores` '
              'ends with the environment it started with - for all fault schedules, branch choices, loop counts, opaque values, '
              'initial environments and stores, on normal return, return inside try and every exceptional path (induction on '
              'programs; abstract interpreter with separate results for normal / exceptional / return exits); '
              'other_vars_untouched / restores_only_touches: nothing outside the declared variables is written. On every run '
              'the IR of window_score and of template_input is regenerated from the Python AST - same-module helpers and context '
              'managers (classes with __enter__/__exit__, @contextmanager generators) that touch os.environ are inlined with their '
              'literal arguments and return values bound; os.environ.pop / setdefault / update, os.getenv, module-level tuples of '
              'names, dict / list / namedtuple snapshots and loops over their items are read (pop_idiom_* / setdefault_idiom_* state '
              'what the IR terms used for them do) - and `restores <prog> <vars> = true` is re-proved by `decide`. The real '
              'functions are run under exhaustive line-level and collaborator-level fault injection for every initial state '
              '(set / unset / empty) and in two-call sequences; os.environ before == after is checked directly, and the IR '
              'semantics is run under the same schedule and compared. Extension round 2: the statement per program (Restoring) '
              'is proved closed under seq / tryFinally / tryExcept / choice / ifNone / ifSet / loop / scope, so two accepted '
              'programs run one after the other restore (restores_seq: the theorem behind the two-call and ordered-pair '
              'streams); the checker is monotone in the declared set and depends on it only through writes p (restores_mono, '
              'restores_iff_writes); on straight-line save / pop programs it is exact (restores_exact_straight), and a witness '
              'shows it is not exact for an unguarded restore (checker_incomplete_witness). A second generated program inlines '
              'the reading stage (readspec, spec_path, number_of_fibers) as well, its restores-theorem is re-proved each run, '
              'and template_input is run with the REAL readspec on a synthetic survey tree with faults injected inside it; all '
              'ordered pairs (entry point, fault) x (entry point, fault) are run in one process.')
LEVEL_NOTE = ('Trusted / not proved: the translator (Python) and the reading of Python semantics built into it (what may raise, '
              'what writes the environment, inlining and binding rules) - sampled by the fault-injection correspondence and the '
              'snippet self-tests, not verified; same-module callees that touch os.environ are part of the IR (writers always, '
              'read-only stages in the Deep program); other in-package callees reachable by plain-name calls are classified '
              'syntactically by the transitive census (a writer among them breaks an obligation; it is not inlined across modules); '
              'method calls on objects and callees outside the package are assumed not to write os.environ; compositionality is '
              'proved for the semantics (Restoring), not for the checker (its loop rule is not monotone in the entry state); '
              'exactness of the checker is proved only for straight-line save / pop programs (no restore statement); asynchronous exceptions, failures of the restore statements themselves and threads are out of '
              'scope (exceptions are injected only at fault points of the IR outside restore code, and never at a line that the '
              'syntactic recogniser classifies as restore code - so a failed or partial translation of a harmless change ends as a '
              'broken obligation without a claimed failing input); break/continue, other generators, return inside a '
              'generator-guarded block, escaping context-manager instances, nested functions touching the environment, computed '
              'variable names, full snapshots (dict(os.environ) / os.environ.copy() restored with clear() + update(): no finite '
              'list of touched variables), os.environ.update with an unknown mapping, snapshots built by mutating a dict entry by '
              'entry, mutable snapshots that are modified or escape, module constants rebound anywhere in the file are refused by '
              'the translator (failing obligation), not handled. Checker incompleteness (harmless code rejected, never the '
              'reverse): a restore that only re-assigns when the saved value is not None and relies on the variable still being '
              'unset otherwise is rejected unless the None branch pops.')


# ---------------------------------------------------------------- translation + obligations
def translate_all(ctx):
    out = []
    for p in PROGS:
        path = core.REPO / p['file']
        try:
            tr, ir = X.translate(path, p['func'])
            unsup = list(tr.unsupported)
        except (SyntaxError, OSError) as e:
            tr, ir, unsup = None, ['fault', 0], [{'func': p['func'], 'line': 0, 'msg': 'cannot parse: %s' % e}]
        out.append(dict(p, ir=ir, tr=tr, unsupported=unsup, source='%s:%s' % (p['file'], p['func']),
                        meta=tr.meta if tr else {}))
    return out


def translate_deep_all(ctx, progs):
    """extension round: a second program per entry point in which the same-module stages that only READ os.environ
    (readspec, spec_path, number_of_fibers, ...) are inlined as scopes too, so that `<prog>Deep_restores` speaks about the
    entry point including them instead of relying on the census; compared with the real code in the real-readspec stream"""
    out = []
    for p in progs:
        if not p['tr']:
            continue
        try:
            tr, ir, deep, gave_up = X.translate_deep(core.REPO / p['file'], p['func'])
        except (SyntaxError, OSError, RecursionError) as e:
            ctx.notes.append('%s: deep translation not possible (%s); the read-only stages stay a census assumption' % (p['func'], e))
            continue
        ctx.coverage['deep:%s:read-only stages inlined into the IR' % p['func']] = list(deep)
        ctx.coverage['deep:%s:given up (outside the translatable fragment; census assumption)' % p['func']] = list(gave_up)
        if not deep:
            continue
        out.append(dict(p, name=p['name'] + 'Deep', ir=ir, tr=tr, unsupported=list(tr.unsupported),
                        source='%s:%s with %s inlined' % (p['file'], p['func'], ', '.join(deep)), meta=tr.meta, deep=deep))
    return out


def census(ctx, progs):
    """every syntactic writer of os.environ in the package is a translated function or inlined into one;
    no translated function calls (by name) any other writer"""
    writers = X.env_writer_census(core.REPO / 'pydl')
    covered = set()
    for p in progs:
        covered.add((p['file'][len('pydl/'):], p['func']))
        if p['tr']:
            for f in p['tr'].inlined:
                covered.add((p['file'][len('pydl/'):], f.split('.')[-1]))
    others = [w for w in writers if w not in covered]
    bad = []
    for p in progs:
        if not p['tr'] or p['func'] not in p['tr'].funcs:
            continue
        names = set()
        for node in nodes_of(p):
            names |= X.called_names(node)
        for w in others:
            if w[1] in names:
                bad.append('%s calls %s (%s), which writes os.environ and is not translated' % (p['func'], w[1], w[0]))
    ctx.coverage['env_writers_in_package'] = ['%s:%s' % w for w in writers]
    if others:
        ctx.notes.append('other os.environ writers in the package, not called from the targets: %s' % others)
    ctx.oblige('census: callees of the translated functions do not write os.environ', not bad, 'gen-census', '\n'.join(bad))
    # extension round: the same claim, transitively and through the imports - every function defined inside the package
    # that is reachable from an entry point by calls by name (visited set, depth limit) is either part of the IR (inlined
    # as a scope, so `<prog>_restores` speaks about it) or does not write os.environ (its environment effect is a
    # look-up that may fail = the fault point of the call statement)
    for p in progs:
        rows, cut = X.transitive_callees(core.REPO / 'pydl', p['file'][len('pydl/'):], p['func'],
                                         p['tr'].inlined if p['tr'] else ())
        p['callees'] = rows
        for r in rows:
            ctx.count('callees:%s:%s' % (p['func'], r['effect']))
        ctx.count('callees:%s:max-depth' % p['func'], max([r['depth'] for r in rows] or [0]))
        readers = ['%s:%s%s' % (r['file'], r['func'], r['reads']) for r in rows if r['effect'] == 'reads']
        ctx.coverage['callees:%s:read-only (IR: fault point of the call)' % p['func']] = readers
        ctx.coverage['callees:%s:in the IR' % p['func']] = ['%s:%s' % (r['file'], r['func']) for r in rows if r['effect'] == 'translated']
        w = ['%s (%s), reached through %s at depth %d, writes os.environ and is not part of the IR' % (r['func'], r['file'], r['via'], r['depth'])
             for r in rows if r['effect'] == 'writes']
        w += ['depth limit reached at %s: its callees were not followed' % c for c in cut]
        ctx.oblige('census (transitive, through imports): every in-package callee of %s is in the IR or does not write os.environ' % p['func'],
                   not w, 'gen-census', '\n'.join(w))


def nodes_of(p):
    """AST nodes of the target function and of the functions / methods inlined into it"""
    tr = p['tr']
    out = []
    if not tr:
        return out
    for q in [p['func']] + sorted(tr.inlined):
        if '.' in q:
            c, m = q.split('.', 1)
            cls = tr.classes.get(c)
            out += [x for x in (cls.body if cls else []) if getattr(x, 'name', None) == m]
        elif q in tr.funcs:
            out.append(tr.funcs[q])
    return out


def generate(ctx, progs):
    """write Gen/C20Progs.lean, build it, record one obligation per regenerated theorem"""
    text, where = X.emit(progs)
    gen = core.LEAN / 'PydlVerif' / 'Gen' / 'C20Progs.lean'
    gen.parent.mkdir(exist_ok=True)
    if not gen.exists() or gen.read_text() != text:
        gen.write_text(text)
    core._built.pop((GEN_MODULE,), None)
    ok, log = core.lake_build([GEN_MODULE])
    errs = defaultdict(list)
    for m in re.finditer(r'error: \S*C20Progs\.lean:(\d+):\d+: (.*(?:\n(?!error:|warning:|trace:|✖|✔|ℹ).*)*)', log):
        errs[int(m.group(1))].append(m.group(2).strip()[:600])
    lines_of = sorted(where.items(), key=lambda kv: kv[1])
    attributed = set()
    results = {}
    for i, (thm, ln) in enumerate(lines_of):
        nxt = lines_of[i + 1][1] if i + 1 < len(lines_of) else 10**9
        mine = [e for l, es in errs.items() if ln <= l < nxt for e in es]
        attributed |= {l for l in errs if ln <= l < nxt}
        results[thm] = mine
    stray = [e for l, es in errs.items() if l not in attributed for e in es]
    if not ok and not errs:
        stray.append(log[-1500:])
    axioms = {}
    if ok:
        d = core.LEAN / '.audit'
        d.mkdir(exist_ok=True)
        f = d / ('C20gen_%d.lean' % os.getpid())
        f.write_text('import %s\n' % GEN_MODULE + ''.join('#print axioms %s%s\n' % (GEN_NS, t) for t in where))
        try:
            rc, out = core._run(['lake', 'env', 'lean', str(f)], cwd=core.LEAN)
        finally:
            f.unlink(missing_ok=True)
        for m in re.finditer(r"'([^']+)' depends on axioms: \[([^\]]*)\]", out):
            axioms[m.group(1)] = [a.strip() for a in m.group(2).replace('\n', ' ').split(',') if a.strip()]
        for m in re.finditer(r"'([^']+)' does not depend on any axioms", out):
            axioms[m.group(1)] = []
    for p in progs:
        for suffix in ('_translated', '_restores'):
            thm = p['name'] + suffix
            detail = '\n'.join(results.get(thm, []) + (stray if stray else []))
            good = not results.get(thm) and not stray
            if suffix == '_translated' and p['unsupported']:
                detail += '\n' + '\n'.join('%(func)s:%(line)d %(msg)s' % u for u in p['unsupported'])
            if ok:
                ax = axioms.get(GEN_NS + thm)
                if ax is None:
                    good, detail = False, detail + '\nnot found by #print axioms'
                else:
                    extra = [a for a in ax if a not in core.ALLOWED_AXIOMS]
                    good = good and not extra
                    detail += '\naxioms: %s' % ax
                    ctx.axioms[GEN_NS + thm] = ax
            ctx.oblige(GEN_NS + thm, good, 'gen-decide', detail)
            p[suffix[1:]] = good
    src = core.strip_comments(text)
    badl = [l for l in src.splitlines() if core.FORBIDDEN.search(l)]
    ctx.oblige('generated module free of forbidden constructs', not badl, 'audit', '\n'.join(badl))
    return ok


def model_check(ctx, progs):
    """the JSON form run by the driver is the Lean term of Gen/ (same rendering), and the executable
    checker agrees with the kernel's verdict on the `decide` obligation"""
    outs = core.driver([{'p': 'C20', 'op': 'check', 'prog': p['ir'], 'vars': p['vars']} for p in progs])
    for p, o in zip(progs, outs):
        if 'driver_error' in o:
            ctx.oblige('driver accepts the IR of ' + p['name'], False, 'gen-tie', o['driver_error'])
            continue
        same = o['render'] == X.lean(p['ir'])
        ctx.oblige('driver IR of %s == generated Lean term' % p['name'], same, 'gen-tie',
                   '' if same else 'render differs')
        p['model'] = o
        if o['restores'] != bool(p.get('restores')):
            ctx.oblige('executable checker agrees with decide on %s' % p['name'], False, 'gen-tie',
                       'driver says %s, kernel says %s' % (o['restores'], p.get('restores')))
        if not o['restores']:
            ctx.notes.append('%s: checker rejects; analysis at normal exit %s, when an exception leaves %s, when a return '
                             'leaves %s, writes %s' % (p['name'], json.dumps(o['normal']), json.dumps(o['raised']),
                                                      json.dumps(o['returned']), sorted(set(o['writes']))))
        idx = Index(p)
        ctx.count('restore-lines:%s:syntactic' % p['name'], idx.syntactic)
        ctx.count('restore-lines:%s:with-ir-restore-points' % p['name'], len(idx.no_inject))
        ctx.count('ir:%s:nodes' % p['name'], sum(1 for _ in X.walk_ir(p['ir'])))
        ctx.count('ir:%s:fault-points' % p['name'], sum(1 for n in X.walk_ir(p['ir']) if n[0] == 'fault'))


# ---------------------------------------------------------------- real run -> oracle of the IR
class Index:
    """source lines -> point ids of one program"""

    def __init__(self, p):
        self.p = p
        self.meta = {int(k): v for k, v in p['meta'].items()}
        self.present = {n[1] if n[0] == 'fault' else None for n in X.walk_ir(p['ir'])}
        self.faults = [(i, m) for i, m in sorted(self.meta.items()) if m['kind'] == 'fault' and i in self.present]
        # copies of an inlined helper: how many there are, and the call statements they were inlined at (in order)
        self.copies, self.callsites = {}, {}
        for i, m in sorted(self.meta.items()):
            if 'round' in m:
                key = (m['round'][0], m['round'][1])
                self.copies[key] = max(self.copies.get(key, 0), m['round'][2])
            if m['kind'] == 'fault' and m.get('call'):
                self.callsites.setdefault(m['call'], []).append((m['func'], m['line'], m['end']))
        self.vars = sorted({n[2] if n[0] in ('save', 'load') else n[1] for n in X.walk_ir(p['ir'])
                            if n[0] in ('need', 'save', 'load', 'del', 'pop', 'setExpr', 'setFrom', 'ifSet')})
        # restore code, as (function, line) pairs: recognised syntactically on the source (works without an IR, or
        # with a partial one), plus the lines of the IR's fault points that belong to restore statements
        if '_restore_lines' not in p:
            p['_restore_lines'] = frozenset(X.restore_lines(p['tr']))
        self.no_inject = set(p['_restore_lines'])
        self.syntactic = len(self.no_inject)
        for i, m in self.faults:
            if m.get('restore'):
                self.no_inject |= {(m['func'], l) for l in range(m['line'], m['end'] + 1)}
        self.no_inject = frozenset(self.no_inject)

    def injectable(self, ev, k):
        """'inject' | 'restore' | 'nofault' for the k-th LINE event of a fault-free run"""
        func, line = ev[k]
        if (func, line) in self.no_inject:
            return 'restore'
        f = self.fault_for(ev, {'func': func, 'line': line, 'at': k})
        if f is None:
            return 'nofault'
        return 'restore' if self.meta[f].get('restore') else 'inject'

    def fault_ids(self, func, line):
        """ids of the innermost fault-carrying statement whose source span contains the line"""
        c = [(m['end'] - m['line'], m['line'], i) for i, m in self.faults if m['func'] == func and m['line'] <= line <= m['end']]
        if not c:
            return []
        best = min(c)[:2]
        return [i for s, l, i in sorted(c) if (s, l) == best]

    def window(self, ev, i):
        """slice of the event list in which point i can have been reached: the copy of the unrolled
        loop body it belongs to (all events when it is not inside an unrolled loop)"""
        m = self.meta[i]
        if 'round' not in m:
            return 0, len(ev)
        rfunc, fbl, serial = m['round']
        pos = [k for k, e in enumerate(ev) if e == (rfunc, fbl)]
        ncopies = self.copies.get((rfunc, fbl), 0)
        sites = self.callsites.get(rfunc, [])
        if len(pos) < ncopies and len(sites) == ncopies and len(set(sites)) == ncopies and serial <= ncopies:
            # fewer visits than copies: some copy was not executed (calls of one helper in exclusive branches, e.g. the two
            # readspec calls of template_input) - the copy of a visit is the one whose call statement was the last line
            # event of another function in front of it
            for j, k in enumerate(pos):
                q = k - 1
                while q >= 0 and ev[q][0] == rfunc:
                    q -= 1
                if q >= 0 and any(f == ev[q][0] and a <= ev[q][1] <= b for f, a, b in [sites[serial - 1]]) \
                        and not any(f == ev[q][0] and a <= ev[q][1] <= b for n_, (f, a, b) in enumerate(sites) if n_ != serial - 1):
                    return k, (pos[j + 1] if j + 1 < len(pos) else len(ev))
            return 0, 0
        if serial > len(pos):
            return 0, 0
        return pos[serial - 1], (pos[serial] if serial < len(pos) else len(ev))

    def fault_for(self, ev, o):
        ids = [i for i in self.fault_ids(o['func'], o['line'])
               if self.window(ev, i)[0] <= o['at'] < self.window(ev, i)[1]]
        if not ids:
            return None
        a, _ = self.window(ev, ids[0])
        visit = sum(1 for e in ev[a:o['at'] + 1] if e == (o['func'], o['line']))
        return ids[visit - 1] if 1 <= visit <= len(ids) else ids[-1]

    def oracle(self, run):
        ev = run.events
        T = set()
        for o in run.origins:
            f = self.fault_for(ev, o)
            if f is None:
                # raised inside a callee that is not part of the IR (the real readspec and its callees): the fault point
                # of the innermost call statement the IR does contain
                for via in o.get('via', []):
                    f = self.fault_for(ev, dict(o, func=via['func'], line=via['line']))
                    if f is not None:
                        break
            if f is not None:
                T.add(f)
        for i, m in self.meta.items():
            if m['kind'] in ('choice', 'except'):
                a, b = self.window(ev, i)
                want = [(m['func'], m['then_line'])] if m['kind'] == 'choice' else [(m['func'], l) for l in m['handler_lines']]
                if any(e in want for e in ev[a:b]):
                    T.add(i)
        iters = []
        for i, m in self.meta.items():
            if m['kind'] == 'loop':
                n = sum(1 for e in ev if e == (m['func'], m['body_line']))
                if n:
                    iters.append([i, n])
        return {'T': sorted(T), 'iters': iters}


OPAQUE = re.compile(r'<\d+>$')


def model_status(before, after):
    """like status(), but a value written from an opaque expression is not known to the IR"""
    if after is not None and OPAQUE.match(after):
        return 'opaque'
    return status(before, after)


def same_status(real, model):
    return real == model or (model == 'opaque' and real in ('same', 'changed'))


def status(before, after):
    if before == after:
        return 'same'
    return 'unset' if after is None else 'changed'


# ---------------------------------------------------------------- case generation
def rand_value(rng, tag):
    return '/%s/%s' % (tag.lower(), ''.join(rng.choice('abcdefghijklmnopqrstuvwxyz0123456789_') for _ in range(rng.randrange(3, 12))))


def odd_value(rng, tag):
    """a value that must come back byte for byte: blanks around it, a trailing newline (as left by `export X="$(cat f)"`)"""
    v = rand_value(rng, tag)
    return rng.choice([' ' + v, v + ' ', '  ' + v + '  ', v + '\n', '\t' + v])


def window_plan(ctx):
    rng = ctx.rng
    plans = []
    for rescore in (False, True):
        for calib in (True, False, ''):
            for resolve in (True, False):
                init = {'PHOTO_CALIB': rand_value(rng, 'calib') if calib is True else (None if calib is False else ''),
                        'PHOTO_RESOLVE': rand_value(rng, 'resolve') if resolve else None}
                plans.append(({'rescore': rescore}, init))
    # "exactly the value it had on entry": values with surrounding white space, and a blank one
    for resolve in (True, False):
        plans.append(({'rescore': False}, {'PHOTO_CALIB': odd_value(rng, 'calib'),
                                           'PHOTO_RESOLVE': (odd_value(rng, 'resolve') if resolve else None)}))
    plans.append(({'rescore': True}, {'PHOTO_CALIB': ' ', 'PHOTO_RESOLVE': rand_value(rng, 'resolve')}))
    return plans


def optional_keywords(p):
    """lower-case string constants the translated source uses as keys (subscript, `in`, .get) and that the harness'
    parameter file does not set: optional keywords of the parameter file.  On the unchanged tree there are none; a change
    that makes the entry point read another keyword gets a parameter file that carries it."""
    import ast
    from harness.props.c20_real import PAR
    known = set(re.findall(r'^(\w+) ', PAR, re.M)) | set(re.findall(r'(\w+);', PAR)) | {'eigenobj'}
    found = []
    for node in nodes_of(p):
        for n in ast.walk(node):
            cands = []
            if isinstance(n, ast.Subscript) and isinstance(n.slice, ast.Constant):
                cands.append(n.slice.value)
            if isinstance(n, ast.Compare) and isinstance(n.left, ast.Constant) and any(isinstance(o, (ast.In, ast.NotIn)) for o in n.ops):
                cands.append(n.left.value)
            if isinstance(n, ast.Call) and isinstance(n.func, ast.Attribute) and n.func.attr in ('get', 'pop') and n.args and isinstance(n.args[0], ast.Constant):
                cands.append(n.args[0].value)
            for c in cands:
                if isinstance(c, str) and re.fullmatch(r'[a-z][a-z0-9_]*', c) and c not in known and c not in found:
                    found.append(c)
    return found


def template_plan(ctx, p=None):
    rng = ctx.rng
    variants = [dict(object='gal', method='pca'), dict(object='gal', method='hmf', flux=True),
                dict(object='qso', method='pca', dump=True), dict(object='star', method='pca', verbose=True),
                dict(object='gal', method='pca', no_usemask=True, dump=True),
                dict(object='gal', method='pca', missing_fiber=True), dict(object='gal', method='pca', missing_par=True),
                dict(object='gal', method='nosuchmethod'), dict(object='qso', method='hmf', flux=True, dump=True)]
    plans = []
    for v in variants:
        for r2 in (True, False):
            for r1 in (True, False):
                init = {'RUN2D': rand_value(rng, 'run2d') if r2 else None, 'RUN1D': rand_value(rng, 'run1d') if r1 else None}
                plans.append((v, init))
    # a variable that is set but empty is a state of its own
    for v in (variants[0], variants[2]):
        plans.append((v, {'RUN2D': '', 'RUN1D': rand_value(rng, 'run1d')}))
        plans.append((v, {'RUN2D': rand_value(rng, 'run2d'), 'RUN1D': ''}))
        plans.append((v, {'RUN2D': '', 'RUN1D': None}))
    plans.append((variants[0], {'RUN2D': odd_value(rng, 'run2d'), 'RUN1D': odd_value(rng, 'run1d')}))
    # the parameter file names the versions that are already set (one of them, both)
    plans.append((dict(variants[0], run2d='v5_7_0', run1d='v5_7_2'), {'RUN2D': 'v5_7_0', 'RUN1D': rand_value(rng, 'run1d')}))
    plans.append((dict(variants[0], run2d='v5_7_0', run1d='v5_7_2'), {'RUN2D': 'v5_7_0', 'RUN1D': None}))
    plans.append((dict(variants[0], run2d='v5_7_0', run1d='v5_7_2'), {'RUN2D': rand_value(rng, 'run2d'), 'RUN1D': 'v5_7_2'}))
    opt = optional_keywords(p) if p is not None else []
    ctx.count('template:optional-keywords-in-source', len(opt))
    if opt:
        # every other variable the translated source may write is watched by the snapshot oracle anyway
        for r2, r1 in ((True, True), (False, False), (True, False)):
            plans.append((dict(variants[0], extra_keys=opt), {'RUN2D': rand_value(rng, 'run2d') if r2 else None,
                                                                'RUN1D': rand_value(rng, 'run1d') if r1 else None}))
    return plans


def handler_classes(p):
    """exception classes named by except clauses of the translated source (to be injected as well)"""
    import ast
    names = set()
    for node in nodes_of(p):
        for n in ast.walk(node):
            if isinstance(n, ast.ExceptHandler) and n.type is not None:
                for m in ast.walk(n.type):
                    if isinstance(m, ast.Name):
                        names.add(m.id)
    from harness.props.c20_real import EXC
    return sorted(n for n in names if n in EXC)


# ---------------------------------------------------------------- the streams
class Stream:
    def __init__(self, ctx, p):
        from harness.props import c20_real as R
        self.R, self.ctx, self.p = R, ctx, p
        self.idx = Index(p)
        self.pending = []          # (case, real summary, env list, oracle)
        self.touched = p['vars']

    def one(self, variant, init, inject, expect=None):
        ctx, R, p = self.ctx, self.R, self.p
        case = {'func': p['func'], 'variant': variant, 'init': init, 'inject': inject}
        if getattr(self, 'history', None):
            case = {'func': p['func'], 'seq': self.history + [case]}
        res, run = R.run_case(p['func'], variant, init, inject, ctx.tmpdir(), forbidden=self.idx.no_inject)
        if res.get('suppressed'):
            ctx.count('%s:injection-suppressed(event drifted into restore code)' % p['func'])
        nontrivial = res['outcome'] != 'ok' or res['n_events'] > 3
        ctx.seen(case, nontrivial)
        ctx.count('%s:%s:%s' % (p['func'], (inject or {}).get('mode', 'nofault'), res['outcome'].split(':')[0]))
        if res['outcome'] != 'ok':
            ctx.count('%s:error:%s' % (p['func'], res['outcome'].split(':', 1)[1]))
        # property oracle: statement level, independent of the model
        if res['diff']:
            names = sorted(res['diff'])
            outside = [n for n in names if n not in self.touched]
            sig = '%s:env-not-restored:%s' % (p['func'], '+'.join(names)) if not outside else \
                '%s:other-variable-touched:%s' % (p['func'], '+'.join(outside))
            if 'seq' in case:
                sig += ':after-earlier-call'
            where = {k: v for k, v in run.origins[-1].items() if k != 'exc_id'} if run.origins else None
            ctx.violate(sig, 'os.environ after the call differs from before: %s; outcome %s; last exception raised at %s' % (
                res['diff'], res['outcome'], where), case)
        # correspondence with the IR semantics
        env = [[v, run.before.get(v)] for v in self.idx.vars]
        real = {'outcome': 'raised' if res['outcome'] != 'ok' else 'ok',
                'env': [[v, status(run.before.get(v), run.after.get(v))] for v in self.idx.vars]}
        inj = [o for o in run.origins if o.get('injected')]
        if expect is not None and inj and (inj[0]['func'], inj[0]['line']) != tuple(expect):
            # the k-th line event is not the line it was in the fault-free run (the control flow depends on
            # earlier calls): the injection is still a legitimate run for the oracle above, but it is not
            # at a fault point chosen from the IR, so the model is not compared
            ctx.count('%s:injection-drifted(model not compared)' % p['func'])
        else:
            self.pending.append((case, real, env, self.idx.oracle(run)))
        return res, run

    def flush(self):
        ctx, p = self.ctx, self.p
        if not self.pending:
            return
        for a in range(0, len(self.pending), 400):
            chunk = self.pending[a:a + 400]
            out = core.driver([{'p': 'C20', 'op': 'runs', 'prog': p['ir'], 'vars': self.idx.vars,
                                'cases': [{'env': e, 'oracle': o} for _, _, e, o in chunk]}])[0]
            if isinstance(out, dict) and 'driver_error' in out:
                raise core.DriverError(out['driver_error'])
            for (case, real, env, orc), m in zip(chunk, out):
                ini = dict((k, v) for k, v in env)
                model = {'outcome': 'raised' if m['outcome'] == 'raised' else 'ok',
                         'env': [[v, model_status(ini.get(v), val)] for v, val in m['env']]}
                if model['outcome'] != real['outcome'] or \
                        not all(same_status(r[1], mm[1]) for r, mm in zip(real['env'], model['env'])):
                    ctx.disagree('ir-vs-real:' + p['func'], dict(case, oracle=orc), real, model)
        self.pending = []

    def sweep(self, variant, init, classes, sample=None):
        """no fault, then every injectable line event and every collaborator call of the fault-free run"""
        ctx = self.ctx
        res0, run0 = self.one(variant, init, None)
        points = []
        skipped = restore = 0
        for k, (func, line) in enumerate(run0.events):
            what = self.idx.injectable(run0.events, k)
            if what == 'nofault':
                skipped += 1                      # nothing on this line can raise (pure environment idiom, constant, ...)
            elif what == 'restore':
                restore += 1                      # restore code: syntactically (finally / __exit__ / after the yield:
                #                                   statements that only touch os.environ and locals, the heads around
                #                                   them), or a restore statement / pure-env helper of the IR
            else:
                points.append({'mode': 'line', 'k': k, 'at': [func, line]})
        ctx.count('%s:line-events-without-fault-point(not injected)' % self.p['func'], skipped)
        ctx.count('%s:line-events-inside-restore-code(not injected)' % self.p['func'], restore)
        points += [{'mode': 'call', 'k': k} for k in range(len(run0.calls))]
        if sample is not None and len(points) > sample:
            points = ctx.rng.sample(points, sample)
        for pt in points:
            for c in classes:
                self.one(variant, init, dict({k: v for k, v in pt.items() if k != 'at'}, exc=c), expect=pt.get('at'))
        return len(points)


class MiniCtx:
    """collector used for one plan (possibly in a worker process); merged into the real Ctx afterwards"""

    def __init__(self, tier, seed, tmp):
        import random
        self.tier, self.rng, self._tmp = tier, random.Random(seed), tmp
        self.cases, self.coverage, self.violations, self.disagreements = [], {}, [], []

    def seen(self, case, nontrivial=True):
        self.cases.append((case, nontrivial))

    def count(self, key, k=1):
        self.coverage[key] = self.coverage.get(key, 0) + k

    def violate(self, signature, what, case):
        self.violations.append({'signature': signature, 'what': what, 'case': case})

    def disagree(self, stream, case, impl, model):
        self.disagreements.append({'stream': stream, 'case': case, 'impl': impl, 'model': model})

    def tmpdir(self):
        os.makedirs(self._tmp, exist_ok=True)
        return self._tmp


_W = {}


def _plan_worker(args):
    """one plan = (program, stub variant, initial state): fault-free run + all its injections"""
    pi, n, variant, init, classes, sample, seed = args
    from harness.props import c20_real as R
    p = _W['progs'][pi]
    # every plan starts from freshly executed module-level state, so that a reported single call does not
    # depend on the calls of earlier plans (sequences of calls are a stream of their own)
    R.MON.start(R.codes_for(p['func'], p['tr'].inlined if p['tr'] else (), reload=True))
    mc = MiniCtx(_W['tier'], seed, os.path.join(_W['tmp'], 'plan-%d-%d' % (pi, n)))
    st = Stream(mc, p)
    try:
        st.sweep(variant, init, classes, sample=sample)
        st.flush()
    except core.DriverError as e:
        return {'driver_error': str(e)}
    return {'cases': mc.cases, 'coverage': mc.coverage, 'violations': mc.violations, 'disagreements': mc.disagreements}


def injections(ctx, progs):
    from harness.props import c20_real as R
    thorough = ctx.tier == 'thorough'
    core.driver([{'p': 'C20', 'op': 'check', 'prog': ['skip'], 'vars': []}])      # make sure the driver is built
    jobs = []
    for pi, p in enumerate(progs):
        hc = handler_classes(p)
        plans = window_plan(ctx) if p['func'] == 'window_score' else template_plan(ctx, p)
        for n, (variant, init) in enumerate(plans):
            nset = sum(bool(v) for v in init.values())
            if p['func'] == 'window_score':
                classes, sample = ['InjectedFault'] + hc, None
            elif thorough:
                classes, sample = ['InjectedFault'] + (hc if nset == 1 else []), None
            else:
                # quick: two full sweeps (mixed initial states) of the main variant, samples of the others
                full = variant == {'object': 'gal', 'method': 'pca'} and nset == 1
                classes, sample = ['InjectedFault'], (None if full else 12)
            jobs.append((pi, n, variant, init, classes, sample, ctx.rng.getrandbits(64)))
    _W.update(progs=progs, tier=ctx.tier, tmp=ctx.tmpdir())
    t0 = time.time()
    if thorough:
        import multiprocessing
        with multiprocessing.get_context('fork').Pool(min(8, os.cpu_count() or 1)) as pool:
            outs = pool.map(_plan_worker, jobs, chunksize=1)
    else:
        try:
            outs = [_plan_worker(j) for j in jobs]
        finally:
            R.MON.stop()
    for o in outs:
        if 'driver_error' in o:
            raise core.DriverError(o['driver_error'])
        for case, nontrivial in o['cases']:
            ctx.seen(case, nontrivial)
        for k, v in o['coverage'].items():
            ctx.count(k, v)
        ctx.violations.extend(o['violations'])
        ctx.disagreements.extend(o['disagreements'])
    ctx.count('injection:seconds', round(time.time() - t0, 1))


def _real_worker(args):
    """one plan of the real-readspec stream: (configuration of the survey tree, object, entry state of RUN2D / RUN1D)"""
    n, variant, init, seed = args
    from harness.props import c20_real as R
    p = _W['real_prog']
    thorough = _W['tier'] == 'thorough'
    inl = set(p['tr'].inlined if p['tr'] else ()) | set(R.REAL_FUNCS)
    conf = variant['real_readspec']
    ctx = MiniCtx(_W['tier'], seed, os.path.join(_W['tmp'], 'real-%d' % n))
    rng = ctx.rng
    try:
        R.MON.start(R.codes_for('template_input', inl, reload=True))
        st = Stream(ctx, p)
        res0, run0 = st.one(variant, init, None)
        ctx.count('real-readspec:photoPlate=%s:SPECTRO_MATCH=%s:PHOTO_RESOLVE=%s:fault-free:%s' % (
            conf['photo'], conf['match'], conf['resolve'], res0['outcome']))
        inside, own = [], []
        for k, (func, line) in enumerate(run0.events):
            what = st.idx.injectable(run0.events, k)
            if what == 'inject':
                (inside if func in R.REAL_FUNCS else own).append({'mode': 'line', 'k': k, 'at': [func, line]})
            elif what == 'nofault' and func in R.REAL_FUNCS and not st.idx.fault_ids(func, line) \
                    and func not in (p['tr'].inlined if p['tr'] else ()):
                inside.append({'mode': 'line', 'k': k, 'at': [func, line]})
        ctx.count('real-readspec:line-events-inside-readspec/spec_path', len(inside))
        calls = [{'mode': 'call', 'k': k} for k in range(len(run0.calls))]
        if not thorough:
            inside = rng.sample(inside, min(len(inside), 10))
            own = rng.sample(own, min(len(own), 3))
            calls = rng.sample(calls, min(len(calls), 4))
        else:
            own = rng.sample(own, min(len(own), 30))      # template_input's own points are swept by the stubbed stream
        for pt in inside + own + calls:
            res, _ = st.one(variant, init, dict({k: v for k, v in pt.items() if k != 'at'}, exc='InjectedFault'),
                            expect=pt.get('at'))
            where = 'call' if pt['mode'] == 'call' else ('in-readspec' if pt in inside else 'in-template_input')
            ctx.count('real-readspec:inject:%s:%s' % (where, res['outcome'].split(':')[0]))
        st.flush()
    except core.DriverError as e:
        return {'driver_error': str(e)}
    return {'cases': ctx.cases, 'coverage': ctx.coverage, 'violations': ctx.violations, 'disagreements': ctx.disagreements}


def real_readspec(ctx, progs, deeps=()):
    """template_input with the REAL readspec (and spec_path) on a small synthetic survey tree written by the C16 tree
    builder: fault-free, an exception at the k-th LINE event inside readspec / spec_path (every fault point there: none of it
    is restore code), at the IR's fault points of template_input, and at the k-th collaborator call
    (fits.open of the spPlate / photoPlate / spZbest files included).  Oracle: the complete environment before == after."""
    from harness.props import c20_real as R
    rng = ctx.rng
    p = [q for q in list(deeps) + list(progs) if q['func'] == 'template_input']
    if not p:
        return
    p = p[0]            # the deep program (readspec, spec_path, number_of_fibers inlined) when there is one
    ctx.count('real-readspec:compared-with:' + p['name'])
    thorough = ctx.tier == 'thorough'
    confs = []
    for photo in (True, False):
        for match in (True, False):
            for resolve in (True, False):
                confs.append({'photo': photo, 'redux': True, 'match': match, 'resolve': resolve})
    confs.append({'photo': True, 'redux': False, 'match': True, 'resolve': True})     # BOSS_SPECTRO_REDUX missing: spec_path fails
    jobs = []
    kinds = [(True, True), (False, False), (True, False), (False, True)]
    for n, conf in enumerate(confs):
        for obj in (('gal', 'star') if thorough or n in (0, 5) else ('gal',)):
            ks = [kinds[(n + (obj == 'star')) % 4]] + ([kinds[(n + 2 + (obj == 'star')) % 4]] if thorough else [])
            for r2, r1 in ks:
                variant = {'object': obj, 'method': 'pca', 'real_readspec': conf}
                init = {'RUN2D': rand_value(rng, 'run2d') if r2 else None, 'RUN1D': rand_value(rng, 'run1d') if r1 else None}
                jobs.append((len(jobs), variant, init, rng.getrandbits(64)))
    _W.update(real_prog=p, tier=ctx.tier, tmp=ctx.tmpdir())
    t0 = time.time()
    if thorough:
        import multiprocessing
        with multiprocessing.get_context('fork').Pool(min(8, os.cpu_count() or 1)) as pool:
            outs = pool.map(_real_worker, jobs, chunksize=1)
    else:
        try:
            outs = [_real_worker(j) for j in jobs]
        finally:
            R.MON.stop()
    for o in outs:
        if 'driver_error' in o:
            raise core.DriverError(o['driver_error'])
        for case, nontrivial in o['cases']:
            ctx.seen(case, nontrivial)
        for k, v in o['coverage'].items():
            ctx.count(k, v)
        ctx.violations.extend(o['violations'])
        ctx.disagreements.extend(o['disagreements'])
    ctx.count('real-readspec:seconds', round(time.time() - t0, 1))


# ---------------------------------------------------------------- ordered pairs of calls of the two entry points (extension round)
PAIR_VARIANT = {'window_score': {'rescore': False}, 'template_input': {'object': 'gal', 'method': 'pca'}}


def _pair_state(rng, p, kind):
    """entry state of one call: every touched variable set (fresh random values) / unset; 'named' (template_input): RUN2D and
    RUN1D are already what the parameter file names"""
    if kind == 'named':
        return {'RUN2D': 'v5_7_0', 'RUN1D': 'v5_7_2'}
    st = {v: (rand_value(rng, v) if kind == 'set' else None) for v in p['vars']}
    if p['func'] == 'window_score':
        st['PHOTO_RESOLVE'] = rand_value(rng, 'resolve')
    return st


def _pair_points(mc, p, kind):
    """fault points of a single fault-free call in the given entry state: None, every injectable line event, every
    collaborator call"""
    from harness.props import c20_real as R
    R.MON.start(R.codes_for(p['func'], p['tr'].inlined if p['tr'] else (), reload=True))
    st = Stream(MiniCtx(mc.tier, 0, mc.tmpdir()), p)
    res0, run0 = st.one(PAIR_VARIANT[p['func']], _pair_state(mc.rng, p, kind), None)
    pts = [None]
    for k, (func, line) in enumerate(run0.events):
        if st.idx.injectable(run0.events, k) == 'inject':
            pts.append({'mode': 'line', 'k': k, 'exc': 'InjectedFault', 'at': [func, line]})
    pts += [{'mode': 'call', 'k': k, 'exc': 'InjectedFault'} for k in range(len(run0.calls))]
    return pts


def _pair_worker(args):
    """a chunk of two-call sequences (entry point A failing at a, then entry point B failing at b); the modules of both
    entry points are re-executed in front of every sequence, so each sequence is a self-contained input"""
    jobs, seed, n = args
    from harness.props import c20_real as R
    progs = _W['progs']
    mc = MiniCtx(_W['tier'], seed, os.path.join(_W['tmp'], 'pairs-%d' % n))
    by = {p['func']: p for p in progs}
    streams = {f: Stream(mc, q) for f, q in by.items()}
    try:
        for fa, ka, a, fb, kb, b in jobs:
            seqn = [(fa, PAIR_VARIANT[fa], _pair_state(mc.rng, by[fa], ka), a), (fb, PAIR_VARIANT[fb], _pair_state(mc.rng, by[fb], kb), b)]
            run_mixed(mc, streams, by, seqn)
        for st in streams.values():
            st.flush()
    except core.DriverError as e:
        return {'driver_error': str(e)}
    return {'cases': mc.cases, 'coverage': mc.coverage, 'violations': mc.violations, 'disagreements': mc.disagreements}


def run_mixed(ctx, streams, by, seqn):
    """seqn: [(entry point, variant, entry state, injection or None)], run in one process without re-executing the modules in
    between; the environment oracle judges every call, the IR of each entry point is compared for each call"""
    from harness.props import c20_real as R
    codes = []
    for f in dict.fromkeys(f for f, _, _, _ in seqn):
        codes += R.codes_for(f, by[f]['tr'].inlined if by[f]['tr'] else (), reload=True)
    R.MON.start(codes)
    cases = [{'func': f, 'variant': v, 'init': i, 'inject': ({k: x for k, x in j.items() if k != 'at'} if j else None)}
             for f, v, i, j in seqn]
    res = None
    for k, (f, v, i, j) in enumerate(seqn):
        st = streams[f]
        st.history = cases[:k]
        try:
            res, _ = st.one(v, i, cases[k]['inject'], expect=(j or {}).get('at'))
        finally:
            st.history = None
        ctx.count('pairs:%s-then-%s:call-%d:%s' % (seqn[0][0], seqn[-1][0], k + 1, res['outcome'].split(':')[0]))
    return res


def pairs(ctx, progs):
    """ordered pairs (entry point, fault point) x (entry point, fault point): window_score twice, template_input twice,
    one after the other in both orders; the fault of the second call may be a line event or a collaborator call; the second
    call starts from what the first one left, overwritten by fresh values / unset / (template_input) the values the
    parameter file names.  quick: samples; thorough: the full product when window_score comes first, 120 first-call points
    of template_input x every point of window_score, 30 x 30 for template_input twice"""
    from harness.props import c20_real as R
    if len(progs) < 2 or not all(q['tr'] for q in progs):
        return
    rng = ctx.rng
    thorough = ctx.tier == 'thorough'
    _W.update(progs=progs, tier=ctx.tier, tmp=ctx.tmpdir())
    mc = MiniCtx(ctx.tier, rng.getrandbits(64), os.path.join(ctx.tmpdir(), 'pairs-points'))
    t0 = time.time()
    try:
        pts = {}
        for q in progs:
            for kind in ('set', 'unset') + (('named',) if q['func'] == 'template_input' else ()):
                pts[(q['func'], kind)] = _pair_points(mc, q, kind)
                ctx.count('pairs:fault-points:%s:%s' % (q['func'], kind), len(pts[(q['func'], kind)]))
    finally:
        R.MON.stop()
    jobs = []
    for qa in progs:
        for qb in progs:
            fa, fb = qa['func'], qb['func']
            kinds_b = ('set', 'unset') + (('named',) if fb == 'template_input' else ())
            A = pts[(fa, 'set')]
            if thorough:
                na = 30 if (fa == fb == 'template_input') else (120 if fa == 'template_input' else len(A))
            else:
                na = 3
            As = [None] + (A[1:] if na >= len(A) - 1 else rng.sample(A[1:], na))
            for a in As:
                for kb in kinds_b:
                    B = pts[(fb, kb)]
                    if thorough:
                        nb = (30 if (fa == fb == 'template_input') else len(B)) if kb == 'set' else 12
                    else:
                        nb = 2
                    Bs = [None] + (B[1:] if nb >= len(B) - 1 else rng.sample(B[1:], nb))
                    for b in Bs:
                        jobs.append((fa, 'set', a, fb, kb, b))
    ctx.count('pairs:sequences', len(jobs))
    nchunk = 32 if thorough else 1
    chunks = [(jobs[i::nchunk], rng.getrandbits(64), i) for i in range(nchunk)]
    if thorough:
        import multiprocessing
        with multiprocessing.get_context('fork').Pool(min(8, os.cpu_count() or 1)) as pool:
            outs = pool.map(_pair_worker, chunks, chunksize=1)
    else:
        try:
            outs = [_pair_worker(c) for c in chunks]
        finally:
            R.MON.stop()
    for o in outs:
        if 'driver_error' in o:
            raise core.DriverError(o['driver_error'])
        for case, nontrivial in o['cases']:
            ctx.seen(case, nontrivial)
        for k, v in o['coverage'].items():
            ctx.count(k, v)
        ctx.violations.extend(o['violations'])
        ctx.disagreements.extend(o['disagreements'])
    ctx.count('pairs:seconds', round(time.time() - t0, 1))


def exact_fragment(ctx):
    """restores_exact_straight / restores_mono on the executable checker: random straight-line programs over
    `x = os.environ.get(v)` and `os.environ.pop(v, None)`; an independent simulation (Python dict) says whether every
    variable comes back for the all-set initial state; the checker (driver op `check`) must accept exactly the programs that
    pop nothing, for the least declared set and for every superset, and reject for a set that misses a written variable;
    the IR semantics (driver op `runs`) must end with the simulated environment"""
    rng = ctx.rng
    names, locs = ['A', 'B', 'C'], ['x', 'y']
    progs_, lines = [], []
    for _ in range(ctx.n(40, 400)):
        atoms = []
        for _ in range(rng.randrange(0, 7)):
            atoms.append(['save', rng.choice(locs), rng.choice(names)] if rng.random() < 0.6 else ['pop', rng.choice(names)])
        ir = ['skip']
        for a in reversed(atoms):
            ir = ['seq', a, ir]
        popped = [a[1] for a in atoms if a[0] == 'pop']
        least = sorted(set(popped))
        extra = sorted(set(least) | set(rng.sample(names, rng.randrange(0, 3))))
        progs_.append((atoms, ir, popped, least, extra))
        lines.append({'p': 'C20', 'op': 'check', 'prog': ir, 'vars': least})
        lines.append({'p': 'C20', 'op': 'check', 'prog': ir, 'vars': extra})
        lines.append({'p': 'C20', 'op': 'check', 'prog': ir, 'vars': least[1:]})
        lines.append({'p': 'C20', 'op': 'runs', 'prog': ir, 'vars': names,
                      'cases': [{'env': [[v, '/' + v.lower()] for v in names], 'oracle': {'T': [], 'iters': []}}]})
    outs = core.driver(lines)
    for k, (atoms, ir, popped, least, extra) in enumerate(progs_):
        o1, o2, o3, o4 = outs[4 * k:4 * k + 4]
        case = {'stream': 'exact-fragment', 'atoms': atoms}
        ctx.seen(case, bool(atoms))
        ctx.count('exact-fragment:%s' % ('pops' if popped else 'no-pop'))
        env = {v: '/' + v.lower() for v in names}
        for a in atoms:                       # independent simulation
            if a[0] == 'pop':
                env.pop(a[1], None)
        restoring = all(env.get(v) == '/' + v.lower() for v in names)
        bad = [o for o in (o1, o2, o3, o4) if isinstance(o, dict) and 'driver_error' in o]
        if bad:
            raise core.DriverError(bad[0]['driver_error'])
        model = {'least': o1['restores'], 'superset': o2['restores'], 'missing-one': o3['restores'],
                 'env': {v: val for v, val in o4[0]['env']}, 'outcome': o4[0]['outcome']}
        want = {'least': restoring, 'superset': restoring, 'missing-one': restoring and not least,
                'env': {v: env.get(v) for v in names}, 'outcome': 'ok'}
        if model != want:
            ctx.disagree('exact-fragment', case, want, model)


def guard_idiom(ctx):
    """guard_idiom_restoring on the executable semantics: `x = os.environ.get(A); try: <random body> finally: (pop A if x is None
    else os.environ[A] = x)` with random bodies (faults, writes / pops / dels of A, look-ups of B, branches, loops, return, raise,
    handlers; no write of another variable, no binding of x) under random oracles (which points raise / which branches are
    taken, loop counts, opaque values None / not a string) from A set / unset: driver op `runs` must end with the initial
    environment; the checker's verdict on the same term is recorded (it may reject: it is sound, not complete)"""
    rng = ctx.rng
    nid = [0]

    def fresh():
        nid[0] += 1
        return nid[0]

    def body(d):
        r = rng.random()
        if d <= 0 or r < 0.35:
            return rng.choice([['fault', fresh()], ['setExpr', 'A', fresh()], ['pop', 'A'], ['del', 'A'], ['need', 'B'], ['need', 'A'],
                               ['ret'], ['raise'], ['skip'], ['save', 'y', 'A'], ['setFrom', 'A', 'y'], ['kill', 'y', fresh()]])
        if r < 0.65:
            return ['seq', body(d - 1), body(d - 1)]
        if r < 0.75:
            return ['choice', fresh(), body(d - 1), body(d - 1)]
        if r < 0.82:
            return ['loop', fresh(), body(d - 1)]
        if r < 0.88:
            return ['tryExcept', fresh(), body(d - 1), body(d - 1)]
        if r < 0.93:
            return ['tryFinally', body(d - 1), body(d - 1)]
        if r < 0.97:
            return ['ifSet', 'A', body(d - 1), body(d - 1)]
        return ['scope', body(d - 1)]
    lines, metas = [], []
    for _ in range(ctx.n(40, 600)):
        nid[0] = 0
        b = body(rng.randrange(1, 5))
        ir = ['seq', ['save', 'x', 'A'], ['tryFinally', b, ['ifNone', 'x', ['pop', 'A'], ['setFrom', 'A', 'x']]]]
        cases = []
        for _ in range(4):
            ids = list(range(1, nid[0] + 1))
            orc = {'T': sorted(rng.sample(ids, rng.randrange(0, len(ids) + 1))), 'iters': [[i, rng.randrange(0, 4)] for i in ids],
                   'none': sorted(rng.sample(ids, rng.randrange(0, len(ids) + 1)) if rng.random() < 0.3 else []),
                   'other': sorted(rng.sample(ids, rng.randrange(0, len(ids) + 1)) if rng.random() < 0.3 else [])}
            env = [['A', rng.choice(['/a', '', None])], ['B', rng.choice(['/b', None])]]
            cases.append({'env': env, 'oracle': orc})
        lines.append({'p': 'C20', 'op': 'runs', 'prog': ir, 'vars': ['A', 'B'], 'cases': cases})
        lines.append({'p': 'C20', 'op': 'check', 'prog': ir, 'vars': ['A']})
        metas.append((ir, cases))
    outs = core.driver(lines)
    for k, (ir, cases) in enumerate(metas):
        o1, o2 = outs[2 * k], outs[2 * k + 1]
        for o in (o1, o2):
            if isinstance(o, dict) and 'driver_error' in o:
                raise core.DriverError(o['driver_error'])
        ctx.count('guard-idiom:checker-%s' % ('accepts' if o2['restores'] else 'rejects'))
        for c, r in zip(cases, o1):
            case = {'stream': 'guard-idiom', 'prog': ir, 'env': c['env'], 'oracle': c['oracle']}
            ctx.seen(case)
            ctx.count('guard-idiom:outcome:%s' % r['outcome'])
            if [list(e) for e in r['env']] != [list(e) for e in c['env']]:
                ctx.disagree('guard-idiom', case, {'env': c['env']}, {'env': r['env'], 'outcome': r['outcome']})


def sequences(ctx, progs):
    """two calls in one process: the first fails somewhere (or not), the touched variables are then changed
    by the caller, the second call must restore what IT found.  The module is re-executed before each
    sequence, so a sequence is a self-contained failing input."""
    from harness.props import c20_real as R
    rng = ctx.rng
    try:
        for p in progs:
            inl = p['tr'].inlined if p['tr'] else ()
            names = p['vars']
            variant = {'rescore': False} if p['func'] == 'window_score' else {'object': 'gal', 'method': 'pca'}
            extra = {'PHOTO_RESOLVE': rand_value(rng, 'resolve')} if p['func'] == 'window_score' else {}

            def state(kind):
                return dict({v: (rand_value(rng, v) if kind == 'set' else None) for v in names}, **extra)
            R.MON.start(R.codes_for(p['func'], inl, reload=True))
            st = Stream(ctx, p)
            res0, run0 = st.one(variant, state('set'), None)
            points = [None]
            for k, (func, line) in enumerate(run0.events):
                if st.idx.injectable(run0.events, k) == 'inject':
                    points.append({'mode': 'line', 'k': k, 'exc': 'InjectedFault'})
            points += [{'mode': 'call', 'k': k, 'exc': 'InjectedFault'} for k in range(len(run0.calls))]
            budget = ctx.n(10, 60) if p['func'] == 'window_score' else ctx.n(5, 24)
            if len(points) > budget:
                points = [None] + rng.sample(points[1:], budget - 1)
            for pt in points:
                for second in ('set', 'unset'):
                    seqn = [(variant, state('set'), pt), (variant, state(second), None)]
                    run_sequence(ctx, st, p, seqn)
            if p['func'] == 'template_input':
                # the first call writes the intermediate dump file, the second one (other entry state) loads it
                for first, second in (('set', 'set'), ('set', 'unset'), ('unset', 'set')):
                    seqn = [(variant, state(first), None), (dict(variant, keep_dump=True), state(second), None)]
                    run_sequence(ctx, st, p, seqn)
                    ctx.count('template_input:sequence-through-dump-file')
            st.flush()
    finally:
        R.MON.stop()


def run_sequence(ctx, st, p, seqn):
    from harness.props import c20_real as R
    R.MON.start(R.codes_for(p['func'], p['tr'].inlined if p['tr'] else (), reload=True))
    cases = [{'func': p['func'], 'variant': v, 'init': i, 'inject': j} for v, i, j in seqn]
    for k, (v, i, j) in enumerate(seqn):
        st.history = cases[:k]
        try:
            res, _ = st.one(v, i, j)
        finally:
            st.history = None
        ctx.count('%s:sequence-call-%d:%s' % (p['func'], k + 1, res['outcome'].split(':')[0]))
    return res


def run(ctx):
    progs = translate_all(ctx)
    census(ctx, progs)
    deeps = translate_deep_all(ctx, progs)
    gen_ok = generate(ctx, progs + deeps)
    core.audit(ctx, LEAN_MODULES, THEOREMS)
    if ctx.tier == 'thorough':
        mods = LEAN_MODULES + ([GEN_MODULE] if gen_ok else [])      # a Gen module that failed has no olean
        rc, out = core._run(['lake', 'env', 'leanchecker'] + mods, cwd=core.LEAN)
        ctx.oblige('leanchecker ' + ' '.join(mods), rc == 0, 'kernel-recheck', out)
    model_check(ctx, progs + deeps)
    from harness.props import c20_selftest
    c20_selftest.run(ctx, core, X)
    exact_fragment(ctx)
    guard_idiom(ctx)
    injections(ctx, progs)
    real_readspec(ctx, progs, deeps)
    sequences(ctx, progs)
    pairs(ctx, progs)


def replay(ctx, case):
    """re-run exactly one recorded case (a single call, or a sequence of calls) on the real function,
    starting from freshly executed module state"""
    from harness.props import c20_real as R
    progs = translate_all(ctx)
    p = [q for q in progs if q['func'] == case['func']][0]
    try:
        st = Stream(ctx, p)
        if 'seq' in case and len({c['func'] for c in case['seq']}) > 1:
            by = {q['func']: q for q in progs}
            streams = {f: Stream(ctx, q) for f, q in by.items()}
            res = run_mixed(ctx, streams, by, [(c['func'], c['variant'], c['init'], c.get('inject')) for c in case['seq']])
            for s_ in streams.values():
                s_.flush()
        elif 'seq' in case:
            res = run_sequence(ctx, st, p, [(c['variant'], c['init'], c.get('inject')) for c in case['seq']])
        else:
            R.MON.start(R.codes_for(p['func'], p['tr'].inlined if p['tr'] else (), reload=True))
            res, run_ = st.one(case['variant'], case['init'], case.get('inject'))
        st.flush()
        print('replay: outcome=%s environment difference=%s' % (res['outcome'], res['diff']))
    finally:
        R.MON.stop()

"""C20 - running the REAL window_score / template_input under fault injection.

Collaborators are stubbed (unittest.mock) so that a run needs no survey data; every
stub call goes through `Registry.hit`, which raises at the k-th call when asked to.
Line-level injection and tracing use sys.monitoring (LINE events of the target code
objects only): an exception raised from the LINE callback surfaces in the monitored
frame just before that line executes, and monitoring goes on afterwards.
"""
import os
import sys
import pickle
import builtins
from contextlib import ExitStack
from unittest import mock
import numpy as np


class InjectedFault(Exception):
    """the failure of 'any stage it calls'"""


EXC = {'InjectedFault': InjectedFault, 'KeyError': KeyError, 'ValueError': ValueError, 'OSError': OSError,
       'AttributeError': AttributeError, 'TypeError': TypeError}


# ---------------------------------------------------------------- monitoring
class Monitor:
    def __init__(self):
        self.M = sys.monitoring
        self.tid = None
        self.codes = {}
        self.run = None

    def start(self, codes):
        M = self.M
        if self.tid is None:
            for t in (M.DEBUGGER_ID, 3, 4):
                if M.get_tool(t) is None:
                    self.tid = t
                    break
            M.use_tool_id(self.tid, 'pydl-verif-C20')
            M.register_callback(self.tid, M.events.LINE, self._line)
            M.register_callback(self.tid, M.events.RAISE, self._raise)
            M.set_events(self.tid, M.events.RAISE)
        for c in codes:
            if id(c) not in self.codes:           # by identity: a re-executed module has equal but new code objects
                M.set_local_events(self.tid, c, M.events.LINE)
                self.codes[id(c)] = c

    def stop(self):
        M = self.M
        if self.tid is not None:
            for c in self.codes.values():
                M.set_local_events(self.tid, c, 0)
            M.set_events(self.tid, 0)
            M.register_callback(self.tid, M.events.LINE, None)
            M.register_callback(self.tid, M.events.RAISE, None)
            M.free_tool_id(self.tid)
            self.tid, self.codes = None, {}

    def _line(self, code, line):
        r = self.run
        if r is None or id(code) not in self.codes:
            return
        idx = len(r.events)
        r.events.append((code.co_name, line))
        if r.line_k is not None and idx == r.line_k and not r.fired:
            if (code.co_name, line) in r.forbidden:
                # restore code (recognised syntactically or by the IR): never raise here, whatever the plan says -
                # the k-th event can be another line than in the fault-free run (history-dependent control flow)
                r.line_k = None
                r.suppressed = (code.co_name, line)
                return
            r.fired = True
            visit = sum(1 for e in r.events if e == (code.co_name, line))
            exc = EXC[r.exc_name]('injected at line event %d (%s:%d)' % (idx, code.co_name, line))
            r.origins.append({'func': code.co_name, 'line': line, 'visit': visit, 'exc': r.exc_name, 'at': idx,
                              'injected': True, 'exc_id': id(exc)})
            r.seen_exc[id(exc)] = exc
            raise exc

    def _raise(self, code, offset, exc):
        r = self.run
        if r is None or id(code) not in self.codes:
            return
        if id(exc) in r.seen_exc:
            # the exception propagates into a caller frame (RAISE fires once per monitored frame it unwinds through): remember
            # the call sites, so that a failure inside a callee the IR does not contain (the real readspec) is attributed to the
            # fault point of the call statement
            if r.origins and r.origins[-1].get('exc_id') == id(exc) and code.co_name != r.origins[-1]['func']:
                ln = None
                for s, e, l in code.co_lines():
                    if s <= offset < e:
                        ln = l
                r.origins[-1].setdefault('via', []).append({'func': code.co_name, 'line': ln})
            return
        r.seen_exc[id(exc)] = exc
        line = None
        for s, e, l in code.co_lines():
            if s <= offset < e:
                line = l
        visit = sum(1 for ev in r.events if ev == (code.co_name, line))
        r.origins.append({'func': code.co_name, 'line': line, 'visit': max(visit, 1), 'exc': type(exc).__name__,
                          'at': len(r.events) - 1, 'injected': False, 'exc_id': id(exc)})


MON = Monitor()


class Run:
    def __init__(self, line_k=None, call_k=None, exc_name='InjectedFault', forbidden=frozenset()):
        self.line_k, self.call_k, self.exc_name = line_k, call_k, exc_name
        self.forbidden = forbidden        # (function, line) pairs of restore code: no line-level injection there
        self.suppressed = None
        self.events, self.origins, self.seen_exc = [], [], {}
        self.fired = False
        self.calls = []

    def hit(self, name):
        """called by every collaborator stub"""
        k = len(self.calls)
        self.calls.append(name)
        if self.call_k is not None and k == self.call_k and not self.fired:
            self.fired = True
            raise EXC[self.exc_name]('injected at collaborator call %d (%s)' % (k, name))


def stub(run, name, ret=None, fn=None):
    def f(*a, **kw):
        run.hit(name)
        if fn is not None:
            return fn(*a, **kw)
        return ret
    return f


# ---------------------------------------------------------------- window_score
MODULES = {'window_score': 'pydl.photoop.window', 'template_input': 'pydl.pydlspec2d.spec1d'}


def code_of(obj):
    """code object of a function / method / @contextmanager generator function"""
    obj = getattr(obj, '__wrapped__', obj)
    obj = getattr(obj, '__func__', obj)
    return getattr(obj, '__code__', None)


def codes_for(func, inlined, reload=False):
    """code objects of a target function and of everything the translator inlined into it
    (names 'helper' or 'Class.method'); reload=True re-executes the module first, which resets
    its module-level state"""
    import importlib
    mod = importlib.import_module(MODULES[func])
    if reload:
        mod = importlib.reload(mod)
    out = []
    for q in [func] + sorted(inlined):
        obj = mod
        for part in q.split('.'):
            obj = getattr(obj, part, None)
            if obj is None:
                break
        c = code_of(obj) if obj is not None else None
        if c is not None:
            out.append(c)
    return out


def window_call(run, variant):
    """one call of the real window_score with its collaborators stubbed"""
    from pydl.photoop import window
    n = 6
    hdu = mock.MagicMock()
    hdu.data = {'SCORE': np.zeros(n, dtype=np.int16)}
    hl = mock.MagicMock()
    hl.__getitem__.side_effect = stub(run, 'flist[...]', hdu)
    hl.writeto.side_effect = stub(run, 'flist.writeto')
    hl.close.side_effect = stub(run, 'flist.close')
    with ExitStack() as st:
        st.enter_context(mock.patch('astropy.io.fits.open', side_effect=stub(run, 'fits.open', hl)))
        st.enter_context(mock.patch.object(window, 'sdss_score',
                                           side_effect=stub(run, 'sdss_score', np.ones(n, dtype=np.int16))))
        return window.window_score(rescore=bool(variant.get('rescore')))


# ---------------------------------------------------------------- template_input
PAR = '''object {object}
method {method}
wavemin 1850
wavemax 10000
snmax 100
niter 5
nkeep 4
minuse 10
aesthetics mean
run2d {run2d}
run1d {run1d}
epsilon -1.0
nonnegative 0

typedef struct {{
    int plate;
    int mjd;
    int fiberid;
    double zfit;
    double cz;
}} EIGENOBJ;

EIGENOBJ 3587 55182 186 0.35 100.0
EIGENOBJ 3587 55182 220 0.45 200.0
EIGENOBJ 3588 55184 208 0.78 300.0
'''


def template_prepare(tmp, variant):
    """write the parameter file (and the dump file when the variant wants one) into tmp"""
    d = os.path.join(tmp, 'ti-%s-%s-%d%s' % (variant['object'], variant['method'], int(bool(variant.get('dump'))),
                                             '-real' if variant.get('real_readspec') else ''))
    os.makedirs(d, exist_ok=True)
    par = os.path.join(d, 'in.par')
    with open(par, 'w') as f:
        text = PAR.format(object=variant['object'], method=variant['method'],
                          run2d=variant.get('run2d', 'v5_7_0'), run1d=variant.get('run1d', 'v5_7_2'))
        # optional keywords the source reads (harness: c20.optional_keywords): given a value, before the table
        extra = ''.join('%s /optional/%s\n' % (k, k) for k in variant.get('extra_keys', []))
        if variant.get('real_readspec'):
            # the spectra of the synthetic survey tree (real_tree) instead of the fixed three of the stubbed reading stage
            head = text[:text.index('EIGENOBJ 3587')]
            text = head + ''.join('EIGENOBJ %d %d %d 0.%d %d.0\n' % (p_, m_, f_, 35 + k, 100 * (k + 1))
                                  for k, (p_, m_, f_) in enumerate(REAL_ROWS))
        f.write(extra + text)
    dump = os.path.join(d, 'dump.pkl')
    if os.path.exists(dump) and not variant.get('keep_dump'):
        os.remove(dump)          # (keep_dump: the intermediate file an earlier call of a sequence has written is used again)
    if variant.get('dump'):
        with open(dump, 'wb') as f:
            pickle.dump({'newflux': np.ones((3, 8)), 'newivar': np.ones((3, 8)), 'newloglam': 3.5 + 1e-4 * np.arange(8)}, f)
    if variant.get('missing_par'):
        par = os.path.join(d, 'no-such-file.par')
    return d, par, dump


def template_call(run, variant, tmp):
    from pydl.pydlspec2d import spec1d
    import pydl.pydlutils.yanny as yanny_mod
    import pydl.goddard.astro as astro_mod
    import pydl.pydlutils.image as image_mod
    import pydl.pydlutils.math as math_mod
    d, par, dump = template_prepare(tmp, variant)
    nspec, npix, nkeep = 3, 8, 4
    loglam = 3.5 + 1e-4 * np.arange(npix)
    spplate = {'plugmap': {'FIBERID': np.array([186, 220, 0 if variant.get('missing_fiber') else 208])},
               'invvar': np.ones((nspec, npix)), 'andmask': np.zeros((nspec, npix), dtype=np.int32),
               'ormask': np.zeros((nspec, npix), dtype=np.int32), 'flux': 200.0 * np.ones((nspec, npix)),
               'loglam': np.tile(loglam, (nspec, 1))}

    def solved():
        r = {'flux': np.ones((nkeep, npix)), 'acoeff': np.ones((nspec, nkeep)) + np.arange(nkeep),
             'eigenval': np.ones(nkeep), 'namearr': ['A0', 'F5']}
        if not variant.get('no_usemask'):
            r['usemask'] = np.array([0, 5] + [20] * (npix - 2))
        return r
    hmf = mock.MagicMock()
    hmf.solve.side_effect = stub(run, 'hmf.solve', fn=solved)
    plt = mock.MagicMock()
    plt.subplots.side_effect = stub(run, 'plt.subplots', fn=lambda *a, **k: (mock.MagicMock(), mock.MagicMock()))
    plt.close.side_effect = stub(run, 'plt.close')
    fits = mock.MagicMock()
    for nm in ('PrimaryHDU', 'Column', 'ColDefs', 'HDUList'):
        getattr(fits, nm).side_effect = stub(run, 'fits.' + nm, fn=lambda *a, **k: mock.MagicMock())
    fits.BinTableHDU.from_columns.side_effect = stub(run, 'fits.BinTableHDU.from_columns', fn=lambda *a, **k: mock.MagicMock())
    real_init, real_open = yanny_mod.yanny.__init__, builtins.open

    def yanny_init(self, *a, **kw):
        run.hit('yanny')
        return real_init(self, *a, **kw)
    cwd = os.getcwd()
    with ExitStack() as st:
        P = lambda obj, name, **kw: st.enter_context(mock.patch.object(obj, name, **kw))
        P(yanny_mod.yanny, '__init__', new=yanny_init)
        P(astro_mod, 'get_juldate', side_effect=stub(run, 'get_juldate', 2458000.5))
        P(image_mod, 'djs_maskinterp', side_effect=stub(run, 'djs_maskinterp', fn=lambda x, *a, **k: x))
        P(math_mod, 'djs_median', side_effect=stub(run, 'djs_median', fn=lambda x, *a, **k: x))
        P(spec1d, 'log', new=mock.MagicMock())
        if variant.get('real_readspec'):
            # the REAL reading stage on a synthetic survey tree: readspec / spec_path run unstubbed, only the file
            # opener is counted as a collaborator call (so that the k-th fits.open can be made to fail)
            import astropy.io.fits as real_fits
            fits.open.side_effect = stub(run, 'fits.open', fn=real_fits.open)
        else:
            P(spec1d, 'readspec', side_effect=stub(run, 'readspec', spplate))
        P(spec1d, 'skymask', side_effect=stub(run, 'skymask', fn=lambda iv, a, o, *r, **k: iv.copy()))
        P(spec1d, 'wavevector', side_effect=stub(run, 'wavevector', loglam))
        P(spec1d, 'preprocess_spectra',
          side_effect=stub(run, 'preprocess_spectra', (np.ones((nspec, npix)), np.ones((nspec, npix)), loglam)))
        P(spec1d, 'pca_solve', side_effect=stub(run, 'pca_solve', fn=lambda *a, **k: solved()))
        P(spec1d, 'HMF', side_effect=stub(run, 'HMF', hmf))
        P(spec1d, 'template_qso', side_effect=stub(run, 'template_qso', fn=lambda *a, **k: solved()))
        P(spec1d, 'template_star', side_effect=stub(run, 'template_star', fn=lambda *a, **k: solved()))
        P(spec1d, 'plot_eig', side_effect=stub(run, 'plot_eig'))
        P(spec1d, 'plt', new=plt)
        P(spec1d, 'FontProperties', side_effect=stub(run, 'FontProperties', fn=lambda *a, **k: mock.MagicMock()))
        P(spec1d, 'fits', new=fits)
        st.enter_context(mock.patch.object(spec1d, 'open', create=True,
                                           side_effect=stub(run, 'open', fn=real_open)))
        try:
            os.chdir(d)
            return spec1d.template_input(par, dump, flux=bool(variant.get('flux')), verbose=bool(variant.get('verbose')))
        finally:
            os.chdir(cwd)


# ---------------------------------------------------------------- synthetic survey tree for the real readspec
REAL_ROWS = [(3587, 55182, 2), (3587, 55182, 4), (3588, 55184, 3)]      # (plate, mjd, fibre) of the parameter file
REAL_FUNCS = ('readspec', 'spec_path', 'latest_mjd', 'number_of_fibers', 'spec_append')


def real_tree(tmp, conf):
    """$BOSS_SPECTRO_REDUX/<run2d>/<plate>/spPlate-PPPP-MMMMM.fits (+ spZbest, + photoPlate when conf['photo']) written with the
    tree builder of the C16 harness (one call per plate directory); returns the environment of the configuration:
    conf = {'photo': bool, 'redux': bool, 'match': bool, 'resolve': bool} (is the variable set on entry?)"""
    from harness.props import c16
    top = os.path.join(tmp, 'survey-%d' % int(bool(conf.get('photo'))))
    redux = os.path.join(top, 'redux')
    if not os.path.isdir(redux):
        for no, (plate, mjd) in enumerate(sorted({(p, m) for p, m, _ in REAL_ROWS})):
            f = {'plate': plate, 'mjd': mjd, 'no': no, 'nfib': 5 + no, 'npix': 6, 'c0': 3.5, 'c1': 1.0e-4,
                 'zbest': True, 'photo': bool(conf.get('photo')), 'nper': 0}
            c16.write_tree({'kind': 'full' if conf.get('photo') else 'bare', 'files': [f], 'platelist': None},
                           os.path.join(redux, 'v5_7_0', '%04d' % plate))
        os.makedirs(os.path.join(top, 'match'), exist_ok=True)
        os.makedirs(os.path.join(top, 'resolve', '2010-05-23'), exist_ok=True)
    return {'BOSS_SPECTRO_REDUX': redux if conf.get('redux', True) else None,
            'SPECTRO_REDUX': None,
            'SPECTRO_MATCH': os.path.join(top, 'match') if conf.get('match') else None,
            'PHOTO_RESOLVE': os.path.join(top, 'resolve', '2010-05-23') if conf.get('resolve') else None}


# ---------------------------------------------------------------- one case
def apply_env(state):
    """put the variables of `state` ({name: value or None}) into that state"""
    for k, v in state.items():
        if v is None:
            os.environ.pop(k, None)
        else:
            os.environ[k] = v


def run_case(func, variant, init, inject, tmp, forbidden=frozenset()):
    """run the real function once.  inject: None | {'mode':'line','k':..,'exc':..} | {'mode':'call','k':..,'exc':..}
    forbidden: (function, line) pairs of restore code, at which a line-level injection is never carried out.
    Returns (result dict, Run)."""
    run = Run(line_k=inject['k'] if inject and inject['mode'] == 'line' else None,
              call_k=inject['k'] if inject and inject['mode'] == 'call' else None,
              exc_name=(inject or {}).get('exc', 'InjectedFault'), forbidden=forbidden)
    saved = dict(os.environ)
    if func == 'template_input' and variant.get('real_readspec'):
        init = dict(init, **real_tree(tmp, variant['real_readspec']))
    try:
        apply_env(init)
        before = dict(os.environ)
        MON.run = run
        try:
            if func == 'window_score':
                window_call(run, variant)
            else:
                template_call(run, variant, tmp)
            outcome = 'ok'
        except BaseException as e:      # the real code's exceptions are outputs
            if isinstance(e, (KeyboardInterrupt, SystemExit)):
                raise
            outcome = 'raised:' + type(e).__name__
        finally:
            MON.run = None
        after = dict(os.environ)
    finally:
        for k in list(os.environ):
            if k not in saved:
                del os.environ[k]
        for k, v in saved.items():
            if os.environ.get(k) != v:
                os.environ[k] = v
    run.before, run.after = before, after
    diff = {k: [before.get(k), after.get(k)] for k in sorted(set(before) | set(after)) if before.get(k) != after.get(k)}
    return {'outcome': outcome, 'diff': diff, 'fired': run.fired, 'n_events': len(run.events),
            'n_calls': len(run.calls), 'suppressed': run.suppressed}, run

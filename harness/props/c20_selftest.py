"""C20 - translator self-test: small Python functions with a known verdict, pushed through
translator + executable checker on every run (accept / reject / refuse-to-translate)."""

SNIPPETS = [
    ('save-get/try/finally/pop-or-set', 'accept', ['A'], '''
import os
def f(x):
    old = os.environ.get('A')
    try:
        os.environ['A'] = str(x)
        work(x)
    finally:
        if old is None:
            os.environ.pop('A', None)
        else:
            os.environ['A'] = old
'''),
    ('no finally', 'reject', ['A'], '''
import os
def f(x):
    old = os.environ.get('A')
    os.environ['A'] = str(x)
    work(x)
    if old is None:
        os.environ.pop('A', None)
    else:
        os.environ['A'] = old
'''),
    ('restore loop over a literal tuple', 'accept', ['A', 'B'], '''
import os
def f(x):
    a = os.environ.get('A')
    b = os.environ.get('B')
    try:
        for k in ('a', 'b'):
            os.environ[k.upper()] = x[k]
        return work(x)
    finally:
        for name, value in (('A', a), ('B', b)):
            if value is not None:
                os.environ[name] = value
            else:
                os.environ.pop(name, None)
'''),
    ('computed variable name', 'unsupported', ['A'], '''
import os
def f(name, x):
    os.environ[name] = x
'''),
    ('os.environ.update of a literal mapping, nothing put back (read since the round-5 extension)', 'reject', ['A'], '''
import os
def f(x):
    os.environ.update({'A': x})
'''),
    ('os.environ.update with something the translator cannot see through', 'unsupported', ['A'], '''
import os
def f(x):
    os.environ.update(x)
'''),
    ('restore only in except Exception', 'reject', ['A'], '''
import os
def f(x):
    old = os.environ['A']
    del os.environ['A']
    try:
        work(x)
    except Exception:
        os.environ['A'] = old
        raise
    os.environ['A'] = old
'''),
    ('with + return inside try', 'accept', ['A'], '''
import os
def f(x):
    try:
        old = os.environ['A']
    except KeyError:
        raise RuntimeError('A is not set')
    del os.environ['A']
    try:
        with open(x) as fh:
            return fh.read()
    finally:
        os.environ['A'] = old
'''),
    ('first restore may raise and skip the second', 'reject', ['A', 'B'], '''
import os
def f(x):
    a = os.environ.get('A')
    b = os.environ.get('B')
    try:
        os.environ['A'] = x
        os.environ['B'] = x
        work(x)
    finally:
        os.environ['A'] = norm(a)
        os.environ['B'] = b
'''),
    ('break in a loop', 'unsupported', ['A'], '''
import os
def f(xs):
    for x in xs:
        if x:
            break
    os.environ['A'] = 'x'
'''),
    ('while loop with faults inside try', 'accept', ['A'], '''
import os
def f(x):
    old = os.environ.get('A')
    try:
        while x > 0:
            os.environ['A'] = str(x)
            x = step(x)
    finally:
        if old is None:
            os.environ.pop('A', None)
        else:
            os.environ['A'] = old
'''),
    ('saved after the write', 'reject', ['A'], '''
import os
def f(x):
    os.environ['A'] = x
    old = os.environ.get('A')
    try:
        work(x)
    finally:
        if old is None:
            os.environ.pop('A', None)
        else:
            os.environ['A'] = old
'''),
    ('truth test instead of is None', 'reject', ['A'], '''
import os
def f(x):
    old = os.environ.get('A')
    try:
        os.environ['A'] = x
        work(x)
    finally:
        if old:
            os.environ['A'] = old
        else:
            os.environ.pop('A', None)
'''),
    ('environment-writing callee inlined', 'accept', ['A'], '''
import os
def g(x):
    if x is None:
        return 0
    os.environ['A'] = x
    return 1
def f(x):
    old = os.environ.get('A')
    try:
        n = g(x)
        work(n)
    finally:
        if old is None:
            os.environ.pop('A', None)
        else:
            os.environ['A'] = old
'''),
    ('environment-writing callee, unguarded', 'reject', ['A'], '''
import os
def g(x):
    os.environ['A'] = x
def f(x):
    g(x)
    work(x)
'''),
    ('generator', 'unsupported', ['A'], '''
import os
def f(xs):
    old = os.environ.get('A')
    try:
        os.environ['A'] = 'x'
        for x in xs:
            yield x
    finally:
        if old is None:
            os.environ.pop('A', None)
        else:
            os.environ['A'] = old
'''),
    ('aliasing the mapping', 'unsupported', ['A'], '''
import os
def f(x):
    e = os.environ
    e['A'] = x
'''),
    ('writes a variable outside the declared list', 'reject', ['A'], '''
import os
def f(x):
    old = os.environ.get('B')
    try:
        os.environ['B'] = x
        work(x)
    finally:
        if old is None:
            os.environ.pop('B', None)
        else:
            os.environ['B'] = old
'''),
    ('saved local overwritten before the restore', 'reject', ['A'], '''
import os
def f(x):
    old = os.environ.get('A')
    try:
        os.environ['A'] = x
        old = work(x)
    finally:
        if old is None:
            os.environ.pop('A', None)
        else:
            os.environ['A'] = old
'''),
    ('set and put back in every round of a loop', 'accept', ['A'], '''
import os
def f(xs):
    old = os.environ.get('A')
    for x in xs:
        try:
            os.environ['A'] = x
            work(x)
        finally:
            if old is None:
                os.environ.pop('A', None)
            else:
                os.environ['A'] = old
'''),
    ('try/except/else and nested handlers', 'accept', ['A'], '''
import os
def f(x):
    old = os.environ.get('A')
    try:
        try:
            os.environ['A'] = x
        except (TypeError, ValueError) as e:
            log(e)
        else:
            work(x)
    finally:
        if old is None:
            os.environ.pop('A', None)
        else:
            os.environ['A'] = old
'''),
    ('class-based context manager, name passed as a literal, lookup through a helper', 'accept', ['A'], '''
import os
def _required(name):
    try:
        return os.environ[name]
    except KeyError:
        raise RuntimeError('{0} is not set'.format(name))
class _without(object):
    def __init__(self, name):
        self.name = name
        self.saved = None
    def __enter__(self):
        self.saved = _required(self.name)
        del os.environ[self.name]
        return self
    def __exit__(self, exc_type, exc_value, traceback):
        os.environ[self.name] = self.saved
        return False
def f(x):
    with _without('A'):
        d = _required('B')
        return work(d, x)
'''),
    ('context manager whose __exit__ calls a collaborator before the restore', 'reject', ['A'], '''
import os
class _without(object):
    def __init__(self, name, handle):
        self.name = name
        self.handle = handle
        self.saved = None
    def __enter__(self):
        self.saved = os.environ.get(self.name)
        os.environ.pop(self.name, None)
    def __exit__(self, *exc):
        self.handle.close()
        if self.saved is not None:
            os.environ[self.name] = self.saved
def f(x, h):
    with _without('A', h):
        work(x)
'''),
    ('@contextmanager generator with try/finally', 'accept', ['A'], '''
import os
from contextlib import contextmanager
@contextmanager
def _set(name, value):
    old = os.environ.get(name)
    os.environ[name] = value
    try:
        yield
    finally:
        if old is None:
            os.environ.pop(name, None)
        else:
            os.environ[name] = old
def f(x):
    with _set('A', str(x)):
        work(x)
'''),
    ('@contextmanager generator without try/finally', 'reject', ['A'], '''
import os
import contextlib
@contextlib.contextmanager
def _set(name, value):
    old = os.environ.get(name)
    os.environ[name] = value
    yield
    if old is None:
        os.environ.pop(name, None)
    else:
        os.environ[name] = old
def f(x):
    with _set('A', str(x)):
        work(x)
'''),
    ('generator context manager that restores from a module-level table filled conditionally', 'reject', ['A'], '''
import os
from contextlib import contextmanager
_hidden = dict()
@contextmanager
def _hide(name):
    if name not in _hidden:
        _hidden[name] = os.environ[name]
    os.environ.pop(name, None)
    try:
        yield
    finally:
        os.environ[name] = _hidden[name]
    del _hidden[name]
def f(x):
    with _hide('A'):
        work(x)
'''),
    ('snapshot / restore helpers over a tuple of names, worker function', 'accept', ['A', 'B'], '''
import os
def _snapshot(names):
    return [(name, os.environ.get(name)) for name in names]
def _restore(snapshot):
    for name, value in snapshot:
        if value is not None:
            os.environ[name] = value
        elif name in os.environ:
            del os.environ[name]
    return
def _work(x):
    os.environ['A'] = x.a
    os.environ['B'] = x.b
    go(x)
def f(x):
    before = _snapshot(('A', 'B'))
    try:
        _work(x)
    finally:
        _restore(before)
'''),
    ('restore helper fed with something the translator cannot see through', 'unsupported', ['A'], '''
import os
def _restore(snapshot):
    for name, value in snapshot:
        if value is not None:
            os.environ[name] = value
def f(x):
    before = x.snapshot()
    try:
        os.environ['A'] = x.a
        go(x)
    finally:
        _restore(before)
'''),
    ('collaborator closed in the finally ahead of the restore', 'reject', ['A'], '''
import os
def f(x):
    old = os.environ['A']
    del os.environ['A']
    h = None
    try:
        h = open(x)
        work(h)
    finally:
        if h is not None:
            h.close()
        os.environ['A'] = old
'''),
    ('collaborator closed in the finally after the restore', 'accept', ['A'], '''
import os
def f(x):
    old = os.environ['A']
    del os.environ['A']
    h = None
    try:
        h = open(x)
        work(h)
    finally:
        os.environ['A'] = old
        if h is not None:
            h.close()
'''),
    ('the instance of an inlined context manager is used in the block', 'unsupported', ['A'], '''
import os
class _without(object):
    def __init__(self, name):
        self.name = name
        self.saved = None
    def __enter__(self):
        self.saved = os.environ.get(self.name)
        os.environ.pop(self.name, None)
        return self
    def __exit__(self, *exc):
        if self.saved is not None:
            os.environ[self.name] = self.saved
def f(x):
    with _without('A') as w:
        work(x, w)
'''),
    ('value saved with a default that is not None', 'reject', ['A', 'B'], '''
import os
def f(x):
    a = os.environ.get('A')
    b = os.environ.get('B', a)
    try:
        os.environ['A'] = x
        os.environ['B'] = x
        work(x)
    finally:
        for name, value in (('A', a), ('B', b)):
            if value is None:
                os.environ.pop(name, None)
            else:
                os.environ[name] = value
'''),
    ('from os import environ', 'accept', ['A'], '''
from os import environ
def f(x):
    old = environ.get('A')
    try:
        environ['A'] = x
        work(x)
    finally:
        if old is None:
            del_ = environ.pop('A', None)
        else:
            environ['A'] = old
'''),
    # ------------------------------------------------------------ round-5 extension: more idioms read
    ('x = os.environ.pop(NAME) under except KeyError (= need + save + unset), restore in finally', 'accept', ['A'], '''
import os
def f(x):
    try:
        old = os.environ.pop('A')
    except KeyError:
        raise RuntimeError('A is not set')
    try:
        work(x)
    finally:
        os.environ['A'] = old
'''),
    ('x = os.environ.pop(NAME), restored on the straight-line path only', 'reject', ['A'], '''
import os
def f(x):
    old = os.environ.pop('A')
    work(x)
    os.environ['A'] = old
'''),
    ('x = os.environ.pop(NAME) without a handler: the KeyError leaves with nothing changed', 'accept', ['A'], '''
import os
def f(x):
    old = os.environ.pop('A')
    try:
        work(x)
    finally:
        os.environ['A'] = old
'''),
    ('x = os.environ.pop(NAME, None) (= save + unset, no KeyError), pop-or-set in finally', 'accept', ['A'], '''
import os
def f(x):
    old = os.environ.pop('A', None)
    try:
        work(x)
    finally:
        if old is None:
            os.environ.pop('A', None)
        else:
            os.environ['A'] = old
'''),
    ('x = os.environ.pop(NAME, "") : an unset variable comes back as an empty one', 'reject', ['A'], '''
import os
def f(x):
    old = os.environ.pop('A', '')
    try:
        work(x)
    finally:
        os.environ['A'] = old
'''),
    ('value of os.environ.pop(NAME) goes to an attribute: the effect is kept, nothing restores', 'reject', ['A'], '''
import os
def f(x):
    x.old = os.environ.pop('A')
    work(x)
'''),
    ('os.environ.pop(NAME) inside a larger expression', 'unsupported', ['A'], '''
import os
def f(x):
    work(os.environ.pop('A'), x)
'''),
    ('helper that returns os.environ.pop(name), inlined', 'accept', ['A'], '''
import os
def _take(name):
    return os.environ.pop(name)
def f(x):
    old = _take('A')
    try:
        work(x)
    finally:
        os.environ['A'] = old
'''),
    ('module-level tuple of names, dict comprehension snapshot, restore loop over .items()', 'accept', ['A', 'B'], '''
import os
_NAMES = ('A', 'B')
def f(x):
    saved = {name: os.environ.get(name) for name in _NAMES}
    try:
        os.environ['A'] = x.a
        os.environ['B'] = x.b
        work(x)
    finally:
        for name, value in saved.items():
            if value is None:
                os.environ.pop(name, None)
            else:
                os.environ[name] = value
'''),
    ('same, but an unset variable is not removed again', 'reject', ['A', 'B'], '''
import os
_NAMES = ('A', 'B')
def f(x):
    saved = {name: os.environ.get(name) for name in _NAMES}
    try:
        os.environ['A'] = x.a
        os.environ['B'] = x.b
        work(x)
    finally:
        for name, value in saved.items():
            if value is not None:
                os.environ[name] = value
'''),
    ('same, but the snapshot misses one of the variables written', 'reject', ['A', 'B'], '''
import os
_NAMES = ('A',)
def f(x):
    saved = {name: os.environ.get(name) for name in _NAMES}
    try:
        os.environ['A'] = x.a
        os.environ['B'] = x.b
        work(x)
    finally:
        for name, value in saved.items():
            if value is None:
                os.environ.pop(name, None)
            else:
                os.environ[name] = value
'''),
    ('module-level name that a function rebinds (global): not a constant', 'unsupported', ['A', 'B'], '''
import os
_NAMES = ('A', 'B')
def configure(names):
    global _NAMES
    _NAMES = names
def f(x):
    saved = {name: os.environ.get(name) for name in _NAMES}
    try:
        os.environ['A'] = x.a
        work(x)
    finally:
        for name, value in saved.items():
            if value is None:
                os.environ.pop(name, None)
            else:
                os.environ[name] = value
'''),
    ('module-level list of names that is only iterated over; for name in saved / saved[name]', 'accept', ['A', 'B'], '''
import os
_NAMES = ['A', 'B']
def f(x):
    saved = dict((name, os.environ.get(name)) for name in _NAMES)
    try:
        for name in _NAMES:
            os.environ[name] = x[name]
        work(x)
    finally:
        for name in saved:
            if saved[name] is None:
                os.environ.pop(name, None)
            else:
                os.environ[name] = saved[name]
'''),
    ('module-level list of names that somebody appends to', 'unsupported', ['A', 'B'], '''
import os
_NAMES = ['A', 'B']
def register(name):
    _NAMES.append(name)
def f(x):
    saved = dict((name, os.environ.get(name)) for name in _NAMES)
    try:
        os.environ['A'] = x.a
        work(x)
    finally:
        for name in saved:
            if saved[name] is None:
                os.environ.pop(name, None)
            else:
                os.environ[name] = saved[name]
'''),
    ('snapshot dict changed between the snapshot and the restore', 'unsupported', ['A'], '''
import os
def f(x):
    saved = {name: os.environ.get(name) for name in ('A',)}
    try:
        os.environ['A'] = x.a
        saved['A'] = work(x)
    finally:
        for name, value in saved.items():
            if value is None:
                os.environ.pop(name, None)
            else:
                os.environ[name] = value
'''),
    ('list comprehension of (name, os.environ[name]) pairs over a module tuple; restore by plain assignment', 'accept',
     ['A', 'B'], '''
import os
_NAMES = ('A', 'B')
_PREFIX = 'new-'
def f(x):
    saved = [(name, os.environ[name]) for name in _NAMES]
    try:
        for name in _NAMES:
            os.environ[name] = _PREFIX + x
        work(x)
    finally:
        for name, value in saved:
            os.environ[name] = value
'''),
    ('snapshot with .get() restored by plain assignment: an unset variable makes the restore raise', 'reject', ['A', 'B'], '''
import os
_NAMES = ('A', 'B')
def f(x):
    saved = [(name, os.environ.get(name)) for name in _NAMES]
    try:
        for name in _NAMES:
            os.environ[name] = x
        work(x)
    finally:
        for name, value in saved:
            os.environ[name] = value
'''),
    ('snapshot that pops: {name: os.environ.pop(name, None)}, restore over sorted(.items())', 'accept', ['A', 'B'], '''
import os
def f(x):
    hidden = {name: os.environ.pop(name, None) for name in ('B', 'A')}
    try:
        work(x)
    finally:
        for name, value in sorted(hidden.items()):
            if value is not None:
                os.environ[name] = value
            else:
                os.environ.pop(name, None)
'''),
    ('os.environ.setdefault(NAME, value) guarded by a snapshot', 'accept', ['A'], '''
import os
def f(x):
    old = os.environ.get('A')
    try:
        os.environ.setdefault('A', str(x))
        work(x)
    finally:
        if old is None:
            os.environ.pop('A', None)
        else:
            os.environ['A'] = old
'''),
    ('os.environ.setdefault(NAME, value), nothing put back', 'reject', ['A'], '''
import os
def f(x):
    where = os.environ.setdefault('A', '/default')
    work(x, where)
'''),
    ('os.environ.setdefault of a computed name', 'unsupported', ['A'], '''
import os
def f(name, x):
    os.environ.setdefault(name, x)
'''),
    ('os.environ.update(literal mapping, keyword) guarded; restored with os.environ.update(<dict of loaded values>)',
     'accept', ['A', 'B'], '''
import os
def f(x):
    saved = {name: os.environ[name] for name in ('A', 'B')}
    try:
        os.environ.update({'A': x.a}, B=x.b)
        work(x)
    finally:
        os.environ.update(saved)
'''),
    ('os.environ.update(<dict of .get() values>): an unset variable makes the restore raise', 'reject', ['A', 'B'], '''
import os
def f(x):
    saved = {name: os.environ.get(name) for name in ('A', 'B')}
    try:
        os.environ.update({'A': x.a}, B=x.b)
        work(x)
    finally:
        os.environ.update(saved)
'''),
    ('os.environ.update writes a variable that is not in the snapshot', 'reject', ['A', 'B'], '''
import os
def f(x):
    saved = {name: os.environ[name] for name in ('A',)}
    try:
        os.environ.update(A=x.a, B=x.b)
        work(x)
    finally:
        os.environ.update(saved)
'''),
    ('full snapshot dict(os.environ) with clear() + update(): refused (no finite list of variables)', 'unsupported', ['A'], '''
import os
def f(x):
    saved = dict(os.environ)
    try:
        os.environ['A'] = x
        work(x)
    finally:
        os.environ.clear()
        os.environ.update(saved)
'''),
    ('full snapshot os.environ.copy() restored variable by variable over a computed set of names', 'unsupported', ['A'], '''
import os
def f(x):
    saved = os.environ.copy()
    try:
        os.environ['A'] = x
        work(x)
    finally:
        for name in set(os.environ) - set(saved):
            del os.environ[name]
        for name, value in saved.items():
            os.environ[name] = value
'''),
    ('restore helper taking the dict snapshot (for name, value in snapshot.items())', 'accept', ['A', 'B'], '''
import os
_NAMES = ('A', 'B')
def _restore(snapshot):
    for name, value in snapshot.items():
        if value is None:
            os.environ.pop(name, None)
        else:
            os.environ[name] = value
def f(x):
    before = {name: os.environ.get(name) for name in _NAMES}
    try:
        os.environ['A'] = x.a
        os.environ['B'] = x.b
        work(x)
    finally:
        _restore(before)
'''),
    ('restore helper that empties the snapshot it is given before using it', 'unsupported', ['A'], '''
import os
def _restore(snapshot):
    snapshot.clear()
    for name, value in snapshot.items():
        os.environ[name] = value
def f(x):
    before = {name: os.environ.get(name) for name in ('A',)}
    try:
        os.environ['A'] = x.a
        work(x)
    finally:
        _restore(before)
'''),
    ('os.getenv(NAME) snapshot', 'accept', ['A'], '''
import os
def f(x):
    old = os.getenv('A')
    try:
        os.environ['A'] = x
        work(x)
    finally:
        if old is None:
            os.environ.pop('A', None)
        else:
            os.environ['A'] = old
'''),
    ('os.getenv(NAME, "") snapshot: an unset variable comes back empty', 'reject', ['A'], '''
import os
def f(x):
    old = os.getenv('A', '')
    try:
        os.environ['A'] = x
        work(x)
    finally:
        os.environ['A'] = old
'''),
    ('try: x = os.environ[NAME] except KeyError: x = None   as the snapshot', 'accept', ['A'], '''
import os
def f(x):
    try:
        old = os.environ['A']
    except KeyError:
        old = None
    try:
        os.environ['A'] = x
        work(x)
    finally:
        if old is None:
            os.environ.pop('A', None)
        else:
            os.environ['A'] = old
'''),
    ('try: x = os.environ[NAME] except KeyError: x = ""   is not a snapshot of the absence', 'reject', ['A'], '''
import os
def f(x):
    try:
        old = os.environ['A']
    except KeyError:
        old = ''
    try:
        os.environ['A'] = x
        work(x)
    finally:
        if old is None:
            os.environ.pop('A', None)
        else:
            os.environ['A'] = old
'''),
    ('snapshot by tuple unpacking of a comprehension over a module tuple', 'accept', ['A', 'B'], '''
import os
_NAMES = ('A', 'B')
def f(x):
    old_a, old_b = [os.environ.get(name) for name in _NAMES]
    try:
        os.environ['A'] = x.a
        os.environ['B'] = x.b
        work(x)
    finally:
        for name, value in (('A', old_a), ('B', old_b)):
            if value is None:
                os.environ.pop(name, None)
            else:
                os.environ[name] = value
'''),
    ('snapshot by tuple unpacking, restored crosswise', 'reject', ['A', 'B'], '''
import os
def f(x):
    old_a, old_b = os.environ.get('A'), os.environ.get('B')
    try:
        os.environ['A'] = x.a
        os.environ['B'] = x.b
        work(x)
    finally:
        for name, value in (('A', old_b), ('B', old_a)):
            if value is None:
                os.environ.pop(name, None)
            else:
                os.environ[name] = value
'''),
    ('snapshot by tuple unpacking, one of the names assigned again later', 'reject', ['A', 'B'], '''
import os
def f(x):
    old_a, old_b = os.environ.get('A'), os.environ.get('B')
    try:
        os.environ['A'] = x.a
        os.environ['B'] = x.b
        old_b = work(x)
    finally:
        for name, value in (('A', old_a), ('B', old_b)):
            if value is None:
                os.environ.pop(name, None)
            else:
                os.environ[name] = value
'''),
    ('snapshot kept in a namedtuple, restored field by field', 'accept', ['A', 'B'], '''
import os
from collections import namedtuple
_Saved = namedtuple('_Saved', ('a', 'b'))
def f(x):
    saved = _Saved(a=os.environ.get('A'), b=os.environ.get('B'))
    try:
        os.environ['A'] = x.a
        os.environ['B'] = x.b
        work(x)
    finally:
        for name, value in (('A', saved.a), ('B', saved.b)):
            if value is None:
                os.environ.pop(name, None)
            else:
                os.environ[name] = value
'''),
    ('snapshot kept in a namedtuple, one field restored into the wrong variable', 'reject', ['A', 'B'], '''
import os
import collections
_Saved = collections.namedtuple('_Saved', 'a b')
def f(x):
    saved = _Saved(os.environ.get('A'), os.environ.get('B'))
    try:
        os.environ['A'] = x.a
        os.environ['B'] = x.b
        work(x)
    finally:
        for name, value in (('A', saved.a), ('B', saved[0])):
            if value is None:
                os.environ.pop(name, None)
            else:
                os.environ[name] = value
'''),
    ('restore loop over the module tuple with a second name for the saved value (value = saved[name])', 'accept',
     ['A', 'B'], '''
import os
_NAMES = ('A', 'B')
def f(x):
    saved = {name: os.environ.get(name) for name in _NAMES}
    try:
        os.environ['A'] = x.a
        os.environ['B'] = x.b
        work(x)
    finally:
        for name in _NAMES:
            value = saved[name]
            if value is None:
                os.environ.pop(name, None)
            else:
                os.environ[name] = value
'''),
    ('second name bound under a condition: may be stale / unbound at the use', 'reject', ['A'], '''
import os
def f(x):
    saved = {name: os.environ.get(name) for name in ('A',)}
    value = None
    try:
        os.environ['A'] = x.a
        work(x)
    finally:
        if x.careful:
            value = saved['A']
        if value is None:
            os.environ.pop('A', None)
        else:
            os.environ['A'] = value
'''),
    ('@contextmanager generator taking *names, dict snapshot, restore over .items()', 'accept', ['A', 'B'], '''
import os
from contextlib import contextmanager
@contextmanager
def _preserved(*names):
    saved = {name: os.environ.get(name) for name in names}
    try:
        yield
    finally:
        for name, value in saved.items():
            if value is None:
                os.environ.pop(name, None)
            else:
                os.environ[name] = value
def f(x):
    with _preserved('A', 'B'):
        os.environ['A'] = x.a
        os.environ['B'] = x.b
        work(x)
'''),
    ('the same generator asked to preserve only one of the two variables written', 'reject', ['A', 'B'], '''
import os
from contextlib import contextmanager
@contextmanager
def _preserved(*names):
    saved = {name: os.environ.get(name) for name in names}
    try:
        yield
    finally:
        for name, value in saved.items():
            if value is None:
                os.environ.pop(name, None)
            else:
                os.environ[name] = value
def f(x):
    with _preserved('A'):
        os.environ['A'] = x.a
        os.environ['B'] = x.b
        work(x)
'''),
    ('snapshot helper returning a dict comprehension over the names it is given (module tuple)', 'accept', ['A', 'B'], '''
import os
_NAMES = ('A', 'B')
def _values(names):
    return {name: os.environ.get(name) for name in names}
def f(x):
    saved = _values(_NAMES)
    try:
        os.environ['A'] = x.a
        os.environ['B'] = x.b
        work(x)
    finally:
        for name, value in saved.items():
            if value is None:
                os.environ.pop(name, None)
            else:
                os.environ[name] = value
'''),
]

# ---------------------------------------------------------------- restore code recognised without an IR
# every line ending in `#R` must be restore code (never injected), every other line must not be
RESTORE_SNIPPETS = [
    ('finally: collaborator call stays injectable, restore loop over a computed name does not', '''
import os
def f(x, names):
    saved = {name: os.environ.get(name) for name in names}
    h = None
    try:
        h = open(x)
        os.environ['A'] = work(h)
    finally:
        if h is not None:                       #R
            h.close()
        for name, value in saved.items():       #R
            if value is None:                   #R
                os.environ.pop(name, None)      #R
            else:                               #R
                os.environ[name] = value        #R
        log(x)
'''),
    ('restore statement whose value is computed; while loop with an index; conditional with a collaborator test', '''
import os
def f(x, names):
    saved = [os.environ.get(n) for n in names]
    try:
        go(x)
    finally:
        i = 0                                   #R
        while i < len(names):                   #R
            if saved[i] is not None:            #R
                os.environ[names[i]] = saved[i] #R
            i = i + 1                           #R
        if x.verbose:
            os.environ['A'] = norm(x,           #R
                                   1)           #R
'''),
    ('__exit__: collaborator before the restore is injectable, the restore is not', '''
import os
class hide(object):
    def __init__(self, name, handle):
        self.name = name
        self.handle = handle
    def __enter__(self):
        self.saved = os.environ.pop(self.name, None)
        return self
    def __exit__(self, *exc):
        self.handle.close()
        if self.saved is not None:              #R
            os.environ[self.name] = self.saved  #R
        return False                            #R
'''),
    ('@contextmanager: code after the yield (no try), handlers / finally of a try around the yield', '''
import os
from contextlib import contextmanager
@contextmanager
def a(name, value):
    old = os.environ.get(name)
    os.environ[name] = value
    yield
    report(name)
    os.environ[name] = old                      #R
@contextmanager
def b(name, value):
    old = os.environ.get(name)
    os.environ[name] = compute(value)
    try:
        yield
    except KeyError:
        os.environ.pop(name, None)              #R
        raise
    finally:
        if old is None:                         #R
            os.environ.pop(name, None)          #R
        else:                                   #R
            os.environ[name] = old              #R
'''),
    ('helper called from a finally: its environment statements are restore code, its collaborator calls are not', '''
import os
def _put_back(name, value, log):
    log.debug(name)
    try:                                        #R
        del os.environ[name]                    #R
    except KeyError:                            #R
        pass                                    #R
    if value is not None:                       #R
        os.environ[name] = value                #R
def _pure(snapshot):
    for name, value in snapshot.items():        #R
        os.environ[name] = value                #R
def f(x, log):
    old = os.environ.get('A')
    snap = {'B': os.environ['B']}
    try:
        os.environ['A'] = x
        go(x)
    finally:
        _pure(snap)                             #R
        _put_back('A', old, log)                #R
'''),
    ('outside a finally only the head of a pure environment idiom is exempt; a nested finally is restore code', '''
import os
def f(x, names):
    old = os.environ.get('A')
    if old is None:                             #R
        os.environ['A'] = 'x'
    for name in names:                          #R
        del os.environ[name]
    for name in names:
        os.environ[name] = work(name)
    try:
        try:
            go(x)
        finally:
            os.environ['A'] = 'y'               #R
        more(x)
    finally:
        with lock(x):
            os.environ['A'] = old               #R
'''),
]


def restore_selftest(ctx, X):
    bad = []
    for name, src in RESTORE_SNIPPETS:
        tr = X.Translator('<selftest:%s>' % name, src=src)
        got = {l for _, l in X.restore_lines(tr)}
        want = {i + 1 for i, line in enumerate(src.split('\n')) if line.rstrip().endswith('#R')}
        # only lines that carry a statement matter (an `else:` line has no LINE event of its own)
        if got != want:
            bad.append('%s: missing %s, unexpected %s' % (name, sorted(want - got), sorted(got - want)))
    ctx.oblige('restore-code recogniser self-test: %d snippets, restore lines marked exactly' % len(RESTORE_SNIPPETS),
               not bad, 'gen-selftest', '\n'.join(bad))


def run(ctx, core, X):
    restore_selftest(ctx, X)
    lines, exp = [], []
    for name, want, vs, src in SNIPPETS:
        tr = X.Translator('<selftest:%s>' % name, src=src)
        ir = tr.function('f')
        lines.append({'p': 'C20', 'op': 'check', 'prog': ir, 'vars': vs})
        exp.append((name, want, tr, ir))
    outs = core.driver(lines)
    bad = []
    for (name, want, tr, ir), o in zip(exp, outs):
        if 'driver_error' in o:
            got = 'driver_error: ' + o['driver_error']
        elif tr.unsupported:
            got = 'unsupported'
        else:
            got = 'accept' if o['restores'] else 'reject'
            if o['render'] != X.lean(ir):
                got += ' (render differs)'
        ctx.count('selftest:' + got.split(':')[0])
        if got != want:
            bad.append('%s: expected %s, got %s %s' % (name, want, got, tr.unsupported))
    ctx.oblige('translator self-test: %d snippets with known verdict' % len(SNIPPETS), not bad, 'gen-selftest', '\n'.join(bad))

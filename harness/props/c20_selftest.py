"""C20 - translator self-test: small Python functions with a known verdict, pushed through
translator + executable checker on every run (accept / reject / refuse-to-translate)."""

SNIPPETS = [
    ('save-get/try/finally/pop-or-set', 'accept', ['A'], '''
import os
def f(x):
    old = os.environ.get('A')
    try:
        os.environ['A'] = str(x)
        work(x)
    finally:
        if old is None:
            os.environ.pop('A', None)
        else:
            os.environ['A'] = old
'''),
    ('no finally', 'reject', ['A'], '''
import os
def f(x):
    old = os.environ.get('A')
    os.environ['A'] = str(x)
    work(x)
    if old is None:
        os.environ.pop('A', None)
    else:
        os.environ['A'] = old
'''),
    ('restore loop over a literal tuple', 'accept', ['A', 'B'], '''
import os
def f(x):
    a = os.environ.get('A')
    b = os.environ.get('B')
    try:
        for k in ('a', 'b'):
            os.environ[k.upper()] = x[k]
        return work(x)
    finally:
        for name, value in (('A', a), ('B', b)):
            if value is not None:
                os.environ[name] = value
            else:
                os.environ.pop(name, None)
'''),
    ('computed variable name', 'unsupported', ['A'], '''
import os
def f(name, x):
    os.environ[name] = x
'''),
    ('os.environ.update', 'unsupported', ['A'], '''
import os
def f(x):
    os.environ.update({'A': x})
'''),
    ('restore only in except Exception', 'reject', ['A'], '''
import os
def f(x):
    old = os.environ['A']
    del os.environ['A']
    try:
        work(x)
    except Exception:
        os.environ['A'] = old
        raise
    os.environ['A'] = old
'''),
    ('with + return inside try', 'accept', ['A'], '''
import os
def f(x):
    try:
        old = os.environ['A']
    except KeyError:
        raise RuntimeError('A is not set')
    del os.environ['A']
    try:
        with open(x) as fh:
            return fh.read()
    finally:
        os.environ['A'] = old
'''),
    ('first restore may raise and skip the second', 'reject', ['A', 'B'], '''
import os
def f(x):
    a = os.environ.get('A')
    b = os.environ.get('B')
    try:
        os.environ['A'] = x
        os.environ['B'] = x
        work(x)
    finally:
        os.environ['A'] = norm(a)
        os.environ['B'] = b
'''),
    ('break in a loop', 'unsupported', ['A'], '''
import os
def f(xs):
    for x in xs:
        if x:
            break
    os.environ['A'] = 'x'
'''),
    ('while loop with faults inside try', 'accept', ['A'], '''
import os
def f(x):
    old = os.environ.get('A')
    try:
        while x > 0:
            os.environ['A'] = str(x)
            x = step(x)
    finally:
        if old is None:
            os.environ.pop('A', None)
        else:
            os.environ['A'] = old
'''),
    ('saved after the write', 'reject', ['A'], '''
import os
def f(x):
    os.environ['A'] = x
    old = os.environ.get('A')
    try:
        work(x)
    finally:
        if old is None:
            os.environ.pop('A', None)
        else:
            os.environ['A'] = old
'''),
    ('truth test instead of is None', 'reject', ['A'], '''
import os
def f(x):
    old = os.environ.get('A')
    try:
        os.environ['A'] = x
        work(x)
    finally:
        if old:
            os.environ['A'] = old
        else:
            os.environ.pop('A', None)
'''),
    ('environment-writing callee inlined', 'accept', ['A'], '''
import os
def g(x):
    if x is None:
        return 0
    os.environ['A'] = x
    return 1
def f(x):
    old = os.environ.get('A')
    try:
        n = g(x)
        work(n)
    finally:
        if old is None:
            os.environ.pop('A', None)
        else:
            os.environ['A'] = old
'''),
    ('environment-writing callee, unguarded', 'reject', ['A'], '''
import os
def g(x):
    os.environ['A'] = x
def f(x):
    g(x)
    work(x)
'''),
    ('generator', 'unsupported', ['A'], '''
import os
def f(xs):
    old = os.environ.get('A')
    try:
        os.environ['A'] = 'x'
        for x in xs:
            yield x
    finally:
        if old is None:
            os.environ.pop('A', None)
        else:
            os.environ['A'] = old
'''),
    ('aliasing the mapping', 'unsupported', ['A'], '''
import os
def f(x):
    e = os.environ
    e['A'] = x
'''),
    ('writes a variable outside the declared list', 'reject', ['A'], '''
import os
def f(x):
    old = os.environ.get('B')
    try:
        os.environ['B'] = x
        work(x)
    finally:
        if old is None:
            os.environ.pop('B', None)
        else:
            os.environ['B'] = old
'''),
    ('saved local overwritten before the restore', 'reject', ['A'], '''
import os
def f(x):
    old = os.environ.get('A')
    try:
        os.environ['A'] = x
        old = work(x)
    finally:
        if old is None:
            os.environ.pop('A', None)
        else:
            os.environ['A'] = old
'''),
    ('set and put back in every round of a loop', 'accept', ['A'], '''
import os
def f(xs):
    old = os.environ.get('A')
    for x in xs:
        try:
            os.environ['A'] = x
            work(x)
        finally:
            if old is None:
                os.environ.pop('A', None)
            else:
                os.environ['A'] = old
'''),
    ('try/except/else and nested handlers', 'accept', ['A'], '''
import os
def f(x):
    old = os.environ.get('A')
    try:
        try:
            os.environ['A'] = x
        except (TypeError, ValueError) as e:
            log(e)
        else:
            work(x)
    finally:
        if old is None:
            os.environ.pop('A', None)
        else:
            os.environ['A'] = old
'''),
    ('from os import environ', 'accept', ['A'], '''
from os import environ
def f(x):
    old = environ.get('A')
    try:
        environ['A'] = x
        work(x)
    finally:
        if old is None:
            del_ = environ.pop('A', None)
        else:
            environ['A'] = old
'''),
]


def run(ctx, core, X):
    lines, exp = [], []
    for name, want, vs, src in SNIPPETS:
        tr = X.Translator('<selftest:%s>' % name, src=src)
        ir = tr.function('f')
        lines.append({'p': 'C20', 'op': 'check', 'prog': ir, 'vars': vs})
        exp.append((name, want, tr, ir))
    outs = core.driver(lines)
    bad = []
    for (name, want, tr, ir), o in zip(exp, outs):
        if 'driver_error' in o:
            got = 'driver_error: ' + o['driver_error']
        elif tr.unsupported:
            got = 'unsupported'
        else:
            got = 'accept' if o['restores'] else 'reject'
            if o['render'] != X.lean(ir):
                got += ' (render differs)'
        ctx.count('selftest:' + got.split(':')[0])
        if got != want:
            bad.append('%s: expected %s, got %s %s' % (name, want, got, tr.unsupported))
    ctx.oblige('translator self-test: %d snippets with known verdict' % len(SNIPPETS), not bad, 'gen-selftest', '\n'.join(bad))

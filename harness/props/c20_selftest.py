"""C20 - translator self-test: small Python functions with a known verdict, pushed through
translator + executable checker on every run (accept / reject / refuse-to-translate)."""

SNIPPETS = [
    ('save-get/try/finally/pop-or-set', 'accept', ['A'], '''
import os
def f(x):
    old = os.environ.get('A')
    try:
        os.environ['A'] = str(x)
        work(x)
    finally:
        if old is None:
            os.environ.pop('A', None)
        else:
            os.environ['A'] = old
'''),
    ('no finally', 'reject', ['A'], '''
import os
def f(x):
    old = os.environ.get('A')
    os.environ['A'] = str(x)
    work(x)
    if old is None:
        os.environ.pop('A', None)
    else:
        os.environ['A'] = old
'''),
    ('restore loop over a literal tuple', 'accept', ['A', 'B'], '''
import os
def f(x):
    a = os.environ.get('A')
    b = os.environ.get('B')
    try:
        for k in ('a', 'b'):
            os.environ[k.upper()] = x[k]
        return work(x)
    finally:
        for name, value in (('A', a), ('B', b)):
            if value is not None:
                os.environ[name] = value
            else:
                os.environ.pop(name, None)
'''),
    ('computed variable name', 'unsupported', ['A'], '''
import os
def f(name, x):
    os.environ[name] = x
'''),
    ('os.environ.update', 'unsupported', ['A'], '''
import os
def f(x):
    os.environ.update({'A': x})
'''),
    ('restore only in except Exception', 'reject', ['A'], '''
import os
def f(x):
    old = os.environ['A']
    del os.environ['A']
    try:
        work(x)
    except Exception:
        os.environ['A'] = old
        raise
    os.environ['A'] = old
'''),
    ('with + return inside try', 'accept', ['A'], '''
import os
def f(x):
    try:
        old = os.environ['A']
    except KeyError:
        raise RuntimeError('A is not set')
    del os.environ['A']
    try:
        with open(x) as fh:
            return fh.read()
    finally:
        os.environ['A'] = old
'''),
    ('first restore may raise and skip the second', 'reject', ['A', 'B'], '''
import os
def f(x):
    a = os.environ.get('A')
    b = os.environ.get('B')
    try:
        os.environ['A'] = x
        os.environ['B'] = x
        work(x)
    finally:
        os.environ['A'] = norm(a)
        os.environ['B'] = b
'''),
    ('break in a loop', 'unsupported', ['A'], '''
import os
def f(xs):
    for x in xs:
        if x:
            break
    os.environ['A'] = 'x'
'''),
    ('while loop with faults inside try', 'accept', ['A'], '''
import os
def f(x):
    old = os.environ.get('A')
    try:
        while x > 0:
            os.environ['A'] = str(x)
            x = step(x)
    finally:
        if old is None:
            os.environ.pop('A', None)
        else:
            os.environ['A'] = old
'''),
    ('saved after the write', 'reject', ['A'], '''
import os
def f(x):
    os.environ['A'] = x
    old = os.environ.get('A')
    try:
        work(x)
    finally:
        if old is None:
            os.environ.pop('A', None)
        else:
            os.environ['A'] = old
'''),
    ('truth test instead of is None', 'reject', ['A'], '''
import os
def f(x):
    old = os.environ.get('A')
    try:
        os.environ['A'] = x
        work(x)
    finally:
        if old:
            os.environ['A'] = old
        else:
            os.environ.pop('A', None)
'''),
    ('environment-writing callee inlined', 'accept', ['A'], '''
import os
def g(x):
    if x is None:
        return 0
    os.environ['A'] = x
    return 1
def f(x):
    old = os.environ.get('A')
    try:
        n = g(x)
        work(n)
    finally:
        if old is None:
            os.environ.pop('A', None)
        else:
            os.environ['A'] = old
'''),
    ('environment-writing callee, unguarded', 'reject', ['A'], '''
import os
def g(x):
    os.environ['A'] = x
def f(x):
    g(x)
    work(x)
'''),
    ('generator', 'unsupported', ['A'], '''
import os
def f(xs):
    old = os.environ.get('A')
    try:
        os.environ['A'] = 'x'
        for x in xs:
            yield x
    finally:
        if old is None:
            os.environ.pop('A', None)
        else:
            os.environ['A'] = old
'''),
    ('aliasing the mapping', 'unsupported', ['A'], '''
import os
def f(x):
    e = os.environ
    e['A'] = x
'''),
    ('writes a variable outside the declared list', 'reject', ['A'], '''
import os
def f(x):
    old = os.environ.get('B')
    try:
        os.environ['B'] = x
        work(x)
    finally:
        if old is None:
            os.environ.pop('B', None)
        else:
            os.environ['B'] = old
'''),
    ('saved local overwritten before the restore', 'reject', ['A'], '''
import os
def f(x):
    old = os.environ.get('A')
    try:
        os.environ['A'] = x
        old = work(x)
    finally:
        if old is None:
            os.environ.pop('A', None)
        else:
            os.environ['A'] = old
'''),
    ('set and put back in every round of a loop', 'accept', ['A'], '''
import os
def f(xs):
    old = os.environ.get('A')
    for x in xs:
        try:
            os.environ['A'] = x
            work(x)
        finally:
            if old is None:
                os.environ.pop('A', None)
            else:
                os.environ['A'] = old
'''),
    ('try/except/else and nested handlers', 'accept', ['A'], '''
import os
def f(x):
    old = os.environ.get('A')
    try:
        try:
            os.environ['A'] = x
        except (TypeError, ValueError) as e:
            log(e)
        else:
            work(x)
    finally:
        if old is None:
            os.environ.pop('A', None)
        else:
            os.environ['A'] = old
'''),
    ('class-based context manager, name passed as a literal, lookup through a helper', 'accept', ['A'], '''
import os
def _required(name):
    try:
        return os.environ[name]
    except KeyError:
        raise RuntimeError('{0} is not set'.format(name))
class _without(object):
    def __init__(self, name):
        self.name = name
        self.saved = None
    def __enter__(self):
        self.saved = _required(self.name)
        del os.environ[self.name]
        return self
    def __exit__(self, exc_type, exc_value, traceback):
        os.environ[self.name] = self.saved
        return False
def f(x):
    with _without('A'):
        d = _required('B')
        return work(d, x)
'''),
    ('context manager whose __exit__ calls a collaborator before the restore', 'reject', ['A'], '''
import os
class _without(object):
    def __init__(self, name, handle):
        self.name = name
        self.handle = handle
        self.saved = None
    def __enter__(self):
        self.saved = os.environ.get(self.name)
        os.environ.pop(self.name, None)
    def __exit__(self, *exc):
        self.handle.close()
        if self.saved is not None:
            os.environ[self.name] = self.saved
def f(x, h):
    with _without('A', h):
        work(x)
'''),
    ('@contextmanager generator with try/finally', 'accept', ['A'], '''
import os
from contextlib import contextmanager
@contextmanager
def _set(name, value):
    old = os.environ.get(name)
    os.environ[name] = value
    try:
        yield
    finally:
        if old is None:
            os.environ.pop(name, None)
        else:
            os.environ[name] = old
def f(x):
    with _set('A', str(x)):
        work(x)
'''),
    ('@contextmanager generator without try/finally', 'reject', ['A'], '''
import os
import contextlib
@contextlib.contextmanager
def _set(name, value):
    old = os.environ.get(name)
    os.environ[name] = value
    yield
    if old is None:
        os.environ.pop(name, None)
    else:
        os.environ[name] = old
def f(x):
    with _set('A', str(x)):
        work(x)
'''),
    ('generator context manager that restores from a module-level table filled conditionally', 'reject', ['A'], '''
import os
from contextlib import contextmanager
_hidden = dict()
@contextmanager
def _hide(name):
    if name not in _hidden:
        _hidden[name] = os.environ[name]
    os.environ.pop(name, None)
    try:
        yield
    finally:
        os.environ[name] = _hidden[name]
    del _hidden[name]
def f(x):
    with _hide('A'):
        work(x)
'''),
    ('snapshot / restore helpers over a tuple of names, worker function', 'accept', ['A', 'B'], '''
import os
def _snapshot(names):
    return [(name, os.environ.get(name)) for name in names]
def _restore(snapshot):
    for name, value in snapshot:
        if value is not None:
            os.environ[name] = value
        elif name in os.environ:
            del os.environ[name]
    return
def _work(x):
    os.environ['A'] = x.a
    os.environ['B'] = x.b
    go(x)
def f(x):
    before = _snapshot(('A', 'B'))
    try:
        _work(x)
    finally:
        _restore(before)
'''),
    ('restore helper fed with something the translator cannot see through', 'unsupported', ['A'], '''
import os
def _restore(snapshot):
    for name, value in snapshot:
        if value is not None:
            os.environ[name] = value
def f(x):
    before = x.snapshot()
    try:
        os.environ['A'] = x.a
        go(x)
    finally:
        _restore(before)
'''),
    ('collaborator closed in the finally ahead of the restore', 'reject', ['A'], '''
import os
def f(x):
    old = os.environ['A']
    del os.environ['A']
    h = None
    try:
        h = open(x)
        work(h)
    finally:
        if h is not None:
            h.close()
        os.environ['A'] = old
'''),
    ('collaborator closed in the finally after the restore', 'accept', ['A'], '''
import os
def f(x):
    old = os.environ['A']
    del os.environ['A']
    h = None
    try:
        h = open(x)
        work(h)
    finally:
        os.environ['A'] = old
        if h is not None:
            h.close()
'''),
    ('the instance of an inlined context manager is used in the block', 'unsupported', ['A'], '''
import os
class _without(object):
    def __init__(self, name):
        self.name = name
        self.saved = None
    def __enter__(self):
        self.saved = os.environ.get(self.name)
        os.environ.pop(self.name, None)
        return self
    def __exit__(self, *exc):
        if self.saved is not None:
            os.environ[self.name] = self.saved
def f(x):
    with _without('A') as w:
        work(x, w)
'''),
    ('value saved with a default that is not None', 'reject', ['A', 'B'], '''
import os
def f(x):
    a = os.environ.get('A')
    b = os.environ.get('B', a)
    try:
        os.environ['A'] = x
        os.environ['B'] = x
        work(x)
    finally:
        for name, value in (('A', a), ('B', b)):
            if value is None:
                os.environ.pop(name, None)
            else:
                os.environ[name] = value
'''),
    ('from os import environ', 'accept', ['A'], '''
from os import environ
def f(x):
    old = environ.get('A')
    try:
        environ['A'] = x
        work(x)
    finally:
        if old is None:
            del_ = environ.pop('A', None)
        else:
            environ['A'] = old
'''),
]


def run(ctx, core, X):
    lines, exp = [], []
    for name, want, vs, src in SNIPPETS:
        tr = X.Translator('<selftest:%s>' % name, src=src)
        ir = tr.function('f')
        lines.append({'p': 'C20', 'op': 'check', 'prog': ir, 'vars': vs})
        exp.append((name, want, tr, ir))
    outs = core.driver(lines)
    bad = []
    for (name, want, tr, ir), o in zip(exp, outs):
        if 'driver_error' in o:
            got = 'driver_error: ' + o['driver_error']
        elif tr.unsupported:
            got = 'unsupported'
        else:
            got = 'accept' if o['restores'] else 'reject'
            if o['render'] != X.lean(ir):
                got += ' (render differs)'
        ctx.count('selftest:' + got.split(':')[0])
        if got != want:
            bad.append('%s: expected %s, got %s %s' % (name, want, got, tr.unsupported))
    ctx.oblige('translator self-test: %d snippets with known verdict' % len(SNIPPETS), not bad, 'gen-selftest', '\n'.join(bad))

#!/bin/sh
# round.sh Cxx "n1 n2 n3" : verify freshly seeded changes (takemut) and run the quick check against each kept one (trymut)
ID=$1; NS=${2:-19 20 21}
sh /verif/harness/takemut.sh $ID "$NS" 2>&1 | grep -v conda
for n in $NS; do
  [ -d /verif/seeded/$ID-$n ] || continue
  echo "--- check vs $ID-$n"
  LINES_OUT=3 COLS_OUT=300 sh /verif/harness/trymut.sh $ID-$n 0 quick 2>&1 | grep -v conda
done

#!/usr/bin/env python3
"""run_all.py [--tier quick|thorough] [--seed N] [--jobs J] [ids...] : run the registered checks, print one line each"""
import sys, os, json, subprocess, time
from concurrent.futures import ThreadPoolExecutor
V = os.path.dirname(os.path.dirname(os.path.abspath(__file__)))
args = sys.argv[1:]
def opt(name, default):
    if name in args:
        i = args.index(name); v = args[i + 1]; del args[i:i + 2]; return v
    return default
tier, seed, jobs = opt('--tier', 'quick'), opt('--seed', '0'), int(opt('--jobs', '4'))
m = json.load(open(os.path.join(V, 'MANIFEST.json')))
ids = args or [c['property_id'] for c in m['checks']]
subprocess.run(['lake', 'build'], cwd=os.path.join(V, 'lean'), capture_output=True)
def run(pid):
    t0 = time.time()
    p = subprocess.run(['/venv/bin/python', 'harness/check.py', pid, '--tier', tier], cwd=V, capture_output=True, text=True,
                       env=dict(os.environ, VERIF_SEED=seed))
    lines = [l for l in p.stdout.splitlines() if l.startswith(('VIOLATION', 'KNOWN-FINDING', pid + ' '))]
    return pid, p.returncode, time.time() - t0, lines
bad = 0
with ThreadPoolExecutor(jobs) as ex:
    for pid, rc, dt, lines in ex.map(run, ids):
        print('%s rc=%d %.0fs  %s' % (pid, rc, dt, lines[-1] if lines else '(no summary line)'), flush=True)
        for l in lines[:-1]:
            print('    ' + l[:200])
        bad += rc != 0
sys.exit(1 if bad else 0)

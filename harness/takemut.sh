#!/bin/sh
# takemut.sh Cxx : verify the three seeded changes of /tmp/m/Cxx-out independently and keep the valid ones as seeded/Cxx-n
ID=$1; WT=/tmp/m/$ID
cd $WT && git checkout -q -- . || exit 1
for n in ${2:-1 2 3}; do
  D=/tmp/m/$ID-out/$n; [ -f $D/patch.diff ] || continue
  echo "=== $ID-$n"
  (cd $D && PYTHONPATH=$WT /venv/bin/python demo.py >/dev/null 2>&1); c0=$?
  git apply $D/patch.diff || { echo "patch does not apply"; continue; }
  t=$(/venv/bin/python -m pytest -q -p no:cacheprovider --timeout=900 pydl 2>&1 | tail -1 | sed 's/\x1b\[[0-9;]*m//g')
  (cd $D && PYTHONPATH=$WT /venv/bin/python demo.py >/tmp/m/$ID-demo-$n.out 2>&1); c1=$?
  git checkout -q -- .
  echo "clean demo rc=$c0; patched tests: $t; patched demo rc=$c1"
  case "$t" in *"133 passed"*) ok=1;; *) ok=0;; esac
  if [ $c0 = 0 ] && [ $c1 = 1 ] && [ $ok = 1 ] && ! echo "$t" | grep -Eq '[0-9]+ (failed|error)'; then
    mkdir -p /verif/seeded/$ID-$n; cp $D/patch.diff $D/demo.py $D/note.md /verif/seeded/$ID-$n/
    python3 - <<PY
import json
note=open('$D/note.md').read()
json.dump({"property":"$ID","demo":"demo.py","needs":note[:1500],"verified":"scratch worktree $WT: clean tree demo exit 0; patched tree: pytest pydl -> $t, demo exit 1"},open('/verif/seeded/$ID-$n/meta.json','w'),indent=1)
PY
    echo "kept as seeded/$ID-$n"
  else echo "REJECTED"; fi
done

#!/bin/sh
# takeref.sh Cxx : keep the harmless refactors of /tmp/r/Cxx-out whose patch applies and under which the 133 tests pass
ID=$1; WT=/tmp/r/$ID
cd $WT && git checkout -q -- . || exit 1
for n in ${2:-1 2 3}; do
  D=/tmp/r/$ID-out/$n; [ -f $D/patch.diff ] || continue
  git apply $D/patch.diff || { echo "$ID-$n patch does not apply"; continue; }
  t=$(/venv/bin/python -m pytest -q -p no:cacheprovider --timeout=900 pydl 2>&1 | tail -1 | sed 's/\x1b\[[0-9;]*m//g')
  git checkout -q -- .
  case "$t" in *"133 passed"*) ;; *) echo "$ID-$n REJECTED: $t"; continue;; esac
  mkdir -p /verif/refactors/$ID-$n; cp $D/patch.diff $D/note.md /verif/refactors/$ID-$n/; [ -f $D/check.py ] && cp $D/check.py /verif/refactors/$ID-$n/
  python3 - <<PY
import json
json.dump({"property":"$ID","needs":open('$D/note.md').read()[:1200],"verified":"scratch worktree $WT: pytest pydl -> $t; behaviour-preserving by the author's differential test (check.py)"},open('/verif/refactors/$ID-$n/meta.json','w'),indent=1)
PY
  echo "kept refactors/$ID-$n"
done

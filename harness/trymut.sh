#!/bin/sh
# trymut.sh <seeded-or-refactor dir name> [seed] [tier] : apply seeded/<name>/patch.diff (or refactors/<name>) in a scratch worktree
# and run the property's check against it (PYDL_REPO); /repo is not touched.  Evidence is restored afterwards.
N=$1; S=${2:-0}; T=${3:-quick}
case "$N" in refactors/*) D=/verif/$N; N=${N#refactors/};; *) D=/verif/seeded/$N; [ -d $D ] || D=/verif/refactors/$N;; esac
ID=${N%-*}
WT=/tmp/s/try-$N
git -C /repo worktree remove --force $WT 2>/dev/null
mkdir -p /tmp/s && git -C /repo worktree add -q --detach $WT main || exit 2
git -C $WT apply $D/patch.diff || { git -C /repo worktree remove --force $WT; exit 2; }
cp /verif/evidence/$ID.json /tmp/s/ev-$N.json 2>/dev/null
(cd /verif && PYDL_REPO=$WT VERIF_SEED=$S /venv/bin/python harness/check.py $ID --tier $T 2>&1 | grep -v '^  disagreement' | tail -${LINES_OUT:-4} | cut -c1-${COLS_OUT:-500})
cp /tmp/s/ev-$N.json /verif/evidence/$ID.json 2>/dev/null; rm -f /tmp/s/ev-$N.json
git -C /repo worktree remove --force $WT

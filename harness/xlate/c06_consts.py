"""C06 translator: extract the shift / mask / range constants of the four ID functions from the
current source (Python AST) and emit lean/PydlVerif/Gen/C06Consts.lean, whose theorems state that the
extracted tables equal the tables the Lean model is built from (checked by `decide`)."""
import ast
from pathlib import Path


class Unrecognised(Exception):
    pass


def _const(node):
    """integer value of a constant expression (ints, **, -, +, *)"""
    if isinstance(node, ast.Constant) and isinstance(node.value, int):
        return node.value
    if isinstance(node, ast.UnaryOp) and isinstance(node.op, ast.USub):
        return -_const(node.operand)
    if isinstance(node, ast.BinOp):
        a, b = _const(node.left), _const(node.right)
        if isinstance(node.op, ast.Pow):
            return a ** b
        if isinstance(node.op, ast.Sub):
            return a - b
        if isinstance(node.op, ast.Add):
            return a + b
        if isinstance(node.op, ast.Mult):
            return a * b
    raise Unrecognised('not a constant: ' + ast.dump(node)[:80])


def _name(node):
    """variable a term refers to: x, x.astype(...), (x)"""
    if isinstance(node, ast.Name):
        return node.id
    if isinstance(node, ast.Call) and isinstance(node.func, ast.Attribute) and node.func.attr == 'astype':
        return _name(node.func.value)
    raise Unrecognised('not a field term: ' + ast.dump(node)[:80])


def _is_cast_of(node, name):
    """`name`, `name.astype(...)`, `np.asarray(name)` and compositions: the same numbers in another integer type"""
    if isinstance(node, ast.Name):
        return node.id == name
    if isinstance(node, ast.Call) and isinstance(node.func, ast.Attribute):
        if node.func.attr == 'astype':
            return _is_cast_of(node.func.value, name)
        if node.func.attr in ('asarray', 'asanyarray', 'array') and node.args:
            return _is_cast_of(node.args[0], name)
    return False


def _or_terms(node):
    if isinstance(node, ast.BinOp) and isinstance(node.op, ast.BitOr):
        return _or_terms(node.left) + _or_terms(node.right)
    return [node]


def _func(tree, name):
    for n in ast.walk(tree):
        if isinstance(n, ast.FunctionDef) and n.name == name:
            return n
    raise Unrecognised('function %s not found' % name)


def pack_shifts(fn, target):
    """[(field, shift)] of `target = (a << s1) | (b << s2) | ... | z`"""
    for n in ast.walk(fn):
        if isinstance(n, ast.Assign) and len(n.targets) == 1 and isinstance(n.targets[0], ast.Name) and n.targets[0].id == target:
            out = []
            for t in _or_terms(n.value):
                if isinstance(t, ast.BinOp) and isinstance(t.op, ast.LShift):
                    out.append((_name(t.left), _const(t.right)))
                else:
                    out.append((_name(t), 0))
            return out
    raise Unrecognised('assignment to %s not found' % target)


def range_checks(fn):
    """[(field, lo, hi_exclusive)] from `if ((x < lo) | (x >= hi)).any(): raise ValueError`"""
    out = []
    for n in ast.walk(fn):
        if not isinstance(n, ast.If):
            continue
        t = n.test
        if not (isinstance(t, ast.Call) and isinstance(t.func, ast.Attribute) and t.func.attr == 'any'):
            continue
        e = t.func.value
        if not (isinstance(e, ast.BinOp) and isinstance(e.op, ast.BitOr)):
            continue
        lo_c, hi_c = e.left, e.right
        if not (isinstance(lo_c, ast.Compare) and isinstance(hi_c, ast.Compare)):
            raise Unrecognised('range test shape')
        if not any(isinstance(s, ast.Raise) for s in n.body):
            raise Unrecognised('range test without raise')
        x = _name(lo_c.left)
        if _name(hi_c.left) != x or not isinstance(lo_c.ops[0], ast.Lt):
            raise Unrecognised('range test shape for ' + x)
        lo = _const(lo_c.comparators[0])
        hi = _const(hi_c.comparators[0])
        if isinstance(hi_c.ops[0], ast.Gt):
            hi += 1
        elif not isinstance(hi_c.ops[0], ast.GtE):
            raise Unrecognised('upper test of ' + x)
        out.append((x, lo, hi))
    return out


def unpack_fields(fn):
    """[(field, shift, mask, offset)] from `unwrap.f = np.bitwise_and(t >> s, m) [+ c]` / `unwrap[line] = ...`"""
    out = []
    for n in ast.walk(fn):
        if not (isinstance(n, ast.Assign) and len(n.targets) == 1):
            continue
        v, off = n.value, 0
        if isinstance(v, ast.BinOp) and isinstance(v.op, ast.Add):
            off = _const(v.right)
            v = v.left
        if not (isinstance(v, ast.Call) and isinstance(v.func, ast.Attribute) and v.func.attr == 'bitwise_and'):
            continue
        tgt = n.targets[0]
        if isinstance(tgt, ast.Attribute):
            name = tgt.attr
        elif isinstance(tgt, ast.Subscript):
            name = 'line'
        elif isinstance(tgt, ast.Name):
            name = tgt.id
        else:
            raise Unrecognised('unpack target')
        a, m = v.args
        shift = 0
        if isinstance(a, ast.BinOp) and isinstance(a.op, ast.RShift):
            shift = _const(a.right)
        out.append((name, shift, _const(m), off))
    return out


def interpreter_tables():
    """What the RUNNING interpreter's int() and re's \\d accept, code point by code point (surrogates excluded: they cannot be
    written in a str literal that is valid UTF-8): ([zero code point of every decimal-digit block], [(first, last) of every
    white-space range int() skips at both ends], sys.get_int_max_str_digits()).  Raises Unrecognised when the interpreter
    does not have the structure the model's tables assume (blocks of ten consecutive digits 0..9, `\\d` == what int() takes,
    the same white space at both ends)."""
    import re
    import sys
    digs, lead, trail, red = {}, [], [], []
    rx = re.compile(r'\d')
    for c in range(0x110000):
        if 0xD800 <= c <= 0xDFFF:
            continue
        ch = chr(c)
        try:
            digs[c] = int(ch)
        except ValueError:
            pass
        if rx.fullmatch(ch):
            red.append(c)
        if c in digs or ch in '+-':
            continue
        try:
            int(ch + '7')
            lead.append(c)
        except ValueError:
            pass
        try:
            int('7' + ch)
            trail.append(c)
        except ValueError:
            pass
    if sorted(digs) != red:
        raise Unrecognised('re \\d and int() disagree on the decimal digits')
    if lead != trail:
        raise Unrecognised('int() skips different white space in front and behind')
    zeros = [c for c in sorted(digs) if digs[c] == 0]
    if len(digs) != 10 * len(zeros) or any(digs.get(z + k) != k for z in zeros for k in range(10)):
        raise Unrecognised('decimal digits are not blocks of ten consecutive code points')
    ranges = []
    for x in lead:
        if ranges and ranges[-1][1] == x - 1:
            ranges[-1][1] = x
        else:
            ranges.append([x, x])
    return zeros, [tuple(r) for r in ranges], sys.get_int_max_str_digits()


def _lean_list(rows):
    def one(r):
        return '(' + ', '.join(('"%s"' % x) if isinstance(x, str) else ('(%d : Int)' % x if False else str(x)) for x in r) + ')'
    return '[' + ', '.join(one(r) for r in rows) + ']'


def generate(repo, outdir):
    """returns (path, [theorem names]); raises Unrecognised when the code shape is not understood"""
    sdss = ast.parse((Path(repo) / 'pydl/pydlutils/sdss.py').read_text())
    photo = ast.parse((Path(repo) / 'pydl/photoop/photoobj.py').read_text())
    fo, fs = _func(sdss, 'sdss_objid'), _func(sdss, 'sdss_specobjid')
    obj_sh = pack_shifts(fo, 'objid')
    obj_rg = range_checks(fo)
    spec_sh = pack_shifts(fs, 'specObjID')
    # the last term of specObjID is (line | index): both at shift 0
    spec_rg = range_checks(fs)
    uo = unpack_fields(_func(photo, 'unwrap_objid'))
    us = unpack_fields(_func(sdss, 'unwrap_specobjid'))
    ab_rg = range_checks(_func(sdss, 'sdss_astrombad'))
    mjd_offset = None
    for n in ast.walk(fs):
        if isinstance(n, ast.Assign) and isinstance(n.targets[0], ast.Name) and n.targets[0].id == 'mjd' \
                and isinstance(n.value, ast.BinOp) and isinstance(n.value.op, ast.Sub) and _is_cast_of(n.value.left, 'mjd'):
            mjd_offset = _const(n.value.right)
    if mjd_offset is None:
        raise Unrecognised('MJD offset `mjd = mjd - 50000` not found')
    # only tables with the expected fields are compared number by number; anything else is a shape this translator cannot read
    expect = {'obj_sh': ['skyversion', 'rerun', 'run', 'camcol', 'firstfield', 'field', 'objnum'],
              'obj_rg': ['firstfield', 'skyversion', 'rerun', 'run', 'camcol', 'field', 'objnum'],
              'spec_sh': ['plate', 'fiber', 'mjd', 'run2d', 'line', 'index'],
              'spec_rg': ['plate', 'fiber', 'mjd', 'run2d', 'line', 'index'],
              'uo': ['skyversion', 'rerun', 'run', 'camcol', 'firstfield', 'frame', 'id'],
              'us': ['plate', 'fiber', 'mjd', 'run2d', 'line'],
              'ab_rg': ['run', 'camcol', 'field']}
    got = {'obj_sh': obj_sh, 'obj_rg': obj_rg, 'spec_sh': spec_sh, 'spec_rg': spec_rg, 'uo': uo, 'us': us, 'ab_rg': ab_rg}
    for k, names in expect.items():
        if [r[0] for r in got[k]] != names:
            raise Unrecognised('%s: fields %s instead of %s' % (k, [r[0] for r in got[k]], names))
    zeros, spaces, maxdig = interpreter_tables()
    src = '''/- GENERATED on every run by harness/xlate/c06_consts.py from the current pydl source. Do not edit. -/
import PydlVerif.Model.Ids
namespace PydlVerif.Gen.C06
open PydlVerif.Ids

theorem objid_shifts : (%s : List (String × Nat)) = objShiftTable := by decide
theorem objid_ranges : (%s : List (String × Int × Int)) = objRangeTable := by decide
theorem spec_shifts : (%s : List (String × Nat)) = specShiftTable := by decide
theorem spec_ranges : (%s : List (String × Int × Int)) = specRangeTable := by decide
theorem objid_unpack : (%s : List (String × Nat × Nat × Nat)) = objUnpackTable := by decide
theorem spec_unpack : (%s : List (String × Nat × Nat × Nat)) = specUnpackTable := by decide
theorem mjd_offset : (%d : Int) = mjdOffset := by decide
/- the running interpreter: decimal digits of int() and of re's \\d, white space int() strips, digit limit of int() -/
theorem nd_zeros : (%s : List Nat) = ndZeros := by decide
theorem py_spaces : (%s : List (Nat × Nat)) = pySpaces := by decide
theorem py_max_digits : (%d : Nat) = pyMaxDigits := by decide
/- the other function of the package that range-checks objID fields -/
theorem astrombad_ranges : (%s : List (String × Int × Int)) = astrombadRangeTable := by decide

end PydlVerif.Gen.C06
''' % (_lean_list(obj_sh), _lean_list(obj_rg), _lean_list(spec_sh), _lean_list(spec_rg), _lean_list(uo), _lean_list(us), mjd_offset,
       str(zeros), _lean_list(spaces), maxdig, _lean_list(ab_rg))
    out = Path(outdir) / 'C06Consts.lean'
    out.parent.mkdir(parents=True, exist_ok=True)
    if not out.exists() or out.read_text() != src:
        out.write_text(src)
    return out, ['PydlVerif.Gen.C06.' + t for t in ('objid_shifts', 'objid_ranges', 'spec_shifts', 'spec_ranges',
                                                    'objid_unpack', 'spec_unpack', 'mjd_offset',
                                                    'nd_zeros', 'py_spaces', 'py_max_digits', 'astrombad_ranges')]


if __name__ == '__main__':
    import sys
    p, th = generate(sys.argv[1] if len(sys.argv) > 1 else '/repo', '/tmp')
    print(p.read_text())

"""Translator for C19: numeric constants of airtovac / vactoair / sdssflux2ab.

Reads the CURRENT source of pydl/goddard/astro.py and pydl/photoop/sdssio.py,
recognises the shape of the Ciddor formula and of the AB correction and writes
lean/PydlVerif/Gen/C19Consts.lean: the literals as `Dec` records plus `decide`
obligations that they equal the tables of the hand-written model
(lean/PydlVerif/Model/Wave.lean).  If the code no longer has the recognised
shape, `Unrecognised` is raised and the obligation is reported as broken - the
I/O correspondence then decides.
"""
import ast
from decimal import Decimal


class Unrecognised(Exception):
    pass


def _need(cond, what):
    if not cond:
        raise Unrecognised(what)


class _Src:
    def __init__(self, path):
        self.text = open(path).read()
        self.tree = ast.parse(self.text)

    def func(self, name):
        for n in self.tree.body:
            if isinstance(n, ast.FunctionDef) and n.name == name:
                return n
        raise Unrecognised('function %s not found' % name)

    def lit(self, node):
        """canonical (neg, mantissa, expneg, exp) of a numeric literal node (unary minus allowed)"""
        neg = False
        if isinstance(node, ast.UnaryOp) and isinstance(node.op, ast.USub):
            neg = True
            node = node.operand
        _need(isinstance(node, ast.Constant) and isinstance(node.value, (int, float)) and
              not isinstance(node.value, bool), 'numeric literal expected at line %d' % getattr(node, 'lineno', 0))
        seg = ast.get_source_segment(self.text, node)
        d = Decimal(seg.replace('_', ''))
        _need(d.is_finite() and d >= 0, 'literal %r' % seg)
        sign, digits, exp = d.normalize().as_tuple()
        m = int(''.join(str(x) for x in digits))
        if m == 0:
            exp = 0
        # the value must be what Python computes from the text
        assert float(Decimal(m).scaleb(exp)) == float(node.value)
        return (neg, m, exp < 0, abs(exp))


def _is_name(n, name=None):
    return isinstance(n, ast.Name) and (name is None or n.id == name)


def _binop(n, op):
    return isinstance(n, ast.BinOp) and isinstance(n.op, op)


def _assigns(fn, target):
    """value nodes of every `target = ...` inside fn (any depth)"""
    out = []
    for n in ast.walk(fn):
        if isinstance(n, ast.Assign) and len(n.targets) == 1 and _is_name(n.targets[0], target):
            out.append(n.value)
    return out


def _ciddor(src, fname, wave_name):
    """[guard, scale, one, A1, B1, A2, B2] and the iteration count of one function"""
    fn = src.func(fname)
    # every comparison `x < literal` is the guard
    guards = []
    for n in ast.walk(fn):
        if isinstance(n, ast.Compare):
            if all(isinstance(o, (ast.Is, ast.IsNot)) for o in n.ops):
                continue
            _need(len(n.ops) == 1 and isinstance(n.ops[0], ast.Lt) and _is_name(n.left),
                  '%s: comparison of unknown shape at line %d' % (fname, n.lineno))
            guards.append(src.lit(n.comparators[0]))
    _need(len(guards) == 2 and guards[0] == guards[1], '%s: expected the guard twice, got %s' % (fname, guards))
    s2 = _assigns(fn, 'sigma2')
    _need(len(s2) == 1, '%s: sigma2 assigned %d times' % (fname, len(s2)))
    e = s2[0]
    _need(_binop(e, ast.Pow) and isinstance(e.right, ast.Constant) and e.right.value == 2 and
          _binop(e.left, ast.Div) and _is_name(e.left.right, wave_name), '%s: sigma2 = (c/%s)**2 expected' % (fname, wave_name))
    scale = src.lit(e.left.left)
    fa = _assigns(fn, 'fact')
    _need(len(fa) == 1, '%s: fact assigned %d times' % (fname, len(fa)))
    f = fa[0]
    # (one + A1/(B1 - sigma2)) + A2/(B2 - sigma2)
    _need(_binop(f, ast.Add) and _binop(f.left, ast.Add), '%s: fact = 1 + t1 + t2 expected' % fname)
    one = src.lit(f.left.left)
    terms = []
    for t in (f.left.right, f.right):
        _need(_binop(t, ast.Div) and _binop(t.right, ast.Sub) and _is_name(t.right.right, 'sigma2'),
              '%s: term A/(B - sigma2) expected' % fname)
        terms.append((src.lit(t.left), src.lit(t.right.left)))
    return [guards[0], scale, one, terms[0][0], terms[0][1], terms[1][0], terms[1][1]], fn


def extract(repo):
    astro = _Src(str(repo) + '/pydl/goddard/astro.py')
    air, fn_air = _ciddor(astro, 'airtovac', 'vacuum')
    vac, fn_vac = _ciddor(astro, 'vactoair', 'v')
    # airtovac: for k in range(N): ...; vacuum = a * fact
    loops = [n for n in ast.walk(fn_air) if isinstance(n, ast.For)]
    _need(len(loops) == 1, 'airtovac: one for loop expected')
    it = loops[0].iter
    _need(isinstance(it, ast.Call) and _is_name(it.func, 'range') and len(it.args) == 1 and
          isinstance(it.args[0], ast.Constant) and isinstance(it.args[0].value, int), 'airtovac: range(N) expected')
    niter = it.args[0].value
    upd = [v for v in _assigns(loops[0], 'vacuum')]
    _need(len(upd) == 1 and _binop(upd[0], ast.Mult) and _is_name(upd[0].left, 'a') and _is_name(upd[0].right, 'fact'),
          'airtovac: vacuum = a * fact expected in the loop')
    _need(not [n for n in ast.walk(fn_vac) if isinstance(n, (ast.For, ast.While))], 'vactoair: no loop expected')
    upd = [v for v in _assigns(fn_vac, 'air') if _binop(v, ast.Div)]
    _need(len(upd) == 1 and _is_name(upd[0].left, 'v') and _is_name(upd[0].right, 'fact'), 'vactoair: air = v / fact expected')

    sd = _Src(str(repo) + '/pydl/photoop/sdssio.py')
    fn = sd.func('sdssflux2ab')
    corr = _assigns(fn, 'correction')
    _need(len(corr) == 1 and isinstance(corr[0], ast.Call) and len(corr[0].args) == 1 and
          isinstance(corr[0].args[0], ast.List), 'sdssflux2ab: correction = np.array([...]) expected')
    ab = [sd.lit(x) for x in corr[0].args[0].elts]
    fac = _assigns(fn, 'factor')
    _need(len(fac) == 2, 'sdssflux2ab: two assignments to factor expected')
    f0, f1 = fac
    _need(_binop(f0, ast.Pow) and _binop(f0.right, ast.Div) and isinstance(f0.right.left, ast.UnaryOp) and
          isinstance(f0.right.left.op, ast.USub) and _is_name(f0.right.left.operand, 'correction'),
          'sdssflux2ab: factor = ten**(-correction/s) expected')
    ten = sd.lit(f0.left)
    magscale = sd.lit(f0.right.right)
    _need(_binop(f1, ast.Div) and _binop(f1.right, ast.Pow) and _is_name(f1.right.left, 'factor') and
          isinstance(f1.right.right, ast.Constant) and f1.right.right.value == 2, 'sdssflux2ab: factor = one/factor**2 expected')
    one = sd.lit(f1.left)
    return {'ciddor_air': air, 'ciddor_vac': vac, 'niter': niter, 'ab': ab, 'abscalars': [ten, magscale, one]}


def _dec(t):
    return '⟨%s, %d, %s, %d⟩' % ('true' if t[0] else 'false', t[1], 'true' if t[2] else 'false', t[3])


def _list(ts):
    return '[' + ', '.join(_dec(t) for t in ts) + ']'


def lean_text(c):
    return '''/- GENERATED by harness/xlate/c19_consts.py from the current pydl source - do not edit. -/
import PydlVerif.Model.Wave
namespace PydlVerif.Gen.C19Consts
open PydlVerif.Wave

def ciddorAir : List Dec := %s
def ciddorVac : List Dec := %s
def nIterSrc : Nat := %d
def abSrc : List Dec := %s
def abScalarsSrc : List Dec := %s

theorem ciddor_air_ok : ciddorAir = ciddorTable := by decide
theorem ciddor_vac_ok : ciddorVac = ciddorTable := by decide
theorem niter_ok : nIterSrc = nIter := by decide
theorem ab_ok : abSrc = abTable := by decide
theorem abscalars_ok : abScalarsSrc = abScalars := by decide

end PydlVerif.Gen.C19Consts
''' % (_list(c['ciddor_air']), _list(c['ciddor_vac']), c['niter'], _list(c['ab']), _list(c['abscalars']))


def regenerate(repo, lean_dir):
    """writes Gen/C19Consts.lean; returns the extracted constants"""
    c = extract(repo)
    out = lean_dir / 'PydlVerif' / 'Gen' / 'C19Consts.lean'
    txt = lean_text(c)
    if not out.exists() or out.read_text() != txt:
        out.write_text(txt)
    return c

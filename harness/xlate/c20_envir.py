"""Python AST -> effect IR (lean/PydlVerif/Model/EnvIR.lean) for property C20.

Keeps of a function only: control flow, its effects on os.environ, and the locals
in which environment values are saved.  Everything else that may raise (call,
subscript, attribute access, operator, truth test, unpacking, import, iteration)
becomes a `fault` point; every other test an oracle `choice`.  The translation is
conservative; a construct that cannot be translated soundly is recorded in
`unsupported` and makes the regenerated obligation `<prog>_translated` fail.

Same-module callees that touch os.environ are inlined (`scope`), with their parameters
bound to the literal arguments of the call (names of variables as string literals, tuples
of literals, saved locals), their `return os.environ[...]`/`.get(...)` bound to the target
of the call, structured return values ((name, saved value) pairs) propagated to the caller;
`with <same-module context manager>` (class with __enter__/__exit__, or a
@contextmanager generator) is inlined as enter ... tryFinally(body, exit).  A helper
whose inlined body has no fault point is PURE-ENV: calling it is not a fault point.

IR nodes are JSON lists: ["seq", a, b], ["fault", id], ["need", "VAR"], ...
`meta[id]` records for every point id its kind and source lines, so that the
fault-injection harness can map events of the real run to oracle decisions.
"""
import ast

MUTATORS = ('pop', 'update', 'clear', 'setdefault', 'popitem', '__setitem__', '__delitem__')
READERS = ('copy', 'keys', 'values', 'items')
STRMETH = {'upper': str.upper, 'lower': str.lower, 'strip': str.strip, 'title': str.title,
           'capitalize': str.capitalize}
OPAQUE = ('opaque',)


def seq(items):
    """balanced seq of IR nodes (seq is associative in the semantics); drops skips"""
    flat = [i for i in items if i != ['skip']]
    if not flat:
        return ['skip']
    if len(flat) == 1:
        return flat[0]
    h = len(flat) // 2
    return ['seq', seq(flat[:h]), seq(flat[h:])]


def lean(ir):
    """Lean source of an IR node; must equal `EnvIR.render` on the parsed JSON form"""
    tag = ir[0]
    if tag in ('skip', 'raise', 'ret'):
        return tag
    parts = []
    for a in ir[1:]:
        if isinstance(a, list):
            parts.append(lean(a))
        elif isinstance(a, str):
            assert '"' not in a and '\\' not in a, a
            parts.append('"%s"' % a)
        else:
            parts.append(str(int(a)))
    return '(%s %s)' % (tag, ' '.join(parts))


def walk_ir(ir):
    yield ir
    for a in ir[1:]:
        if isinstance(a, list):
            yield from walk_ir(a)


def has_fault(ir):
    """does the IR contain anything but environment effects on saved values (PURE-ENV test)"""
    return any(n[0] in ('fault', 'raise', 'choice', 'loop', 'tryExcept', 'kill', 'setExpr') for n in walk_ir(ir))


def body_of(fn):
    """statements of a function without the docstring"""
    b = fn.body
    if b and isinstance(b[0], ast.Expr) and isinstance(b[0].value, ast.Constant) and isinstance(b[0].value.value, str):
        b = b[1:]
    return b


class Ctx:
    def __init__(self, fn, prefix, tracked, subst, stack, round=None, ret_loc=None, inst=None, bindable=()):
        self.fn, self.prefix, self.tracked, self.subst, self.stack = fn, prefix, tracked, subst, stack
        self.round = round        # (function, first line, serial) of the innermost unrolled-loop / inlined copy
        self.ret_loc = ret_loc    # caller's location that receives `return <environment value>`
        self.inst = inst          # instance of a context-manager class being inlined
        self.bindable = bindable  # names assigned exactly once, at the top level of the function body
        self.rets = []            # structured values of the return statements
        self.yield_body = None    # thunk: IR of the `with` body, for a @contextmanager generator
        self.yields = 0
        self.in_final = False     # inside a `finally` block / __exit__ / a helper called from there
        self.pure_env = False     # inside a helper that syntactically only reads/writes os.environ and locals
        self.top_stmts = ()
        self.node = None          # AST of the function being translated (for the uses-are-benign test)

    def with_subst(self, extra, round):
        s = dict(self.subst)
        s.update(extra)
        c = Ctx(self.fn, self.prefix, self.tracked, s, self.stack, round, self.ret_loc, self.inst, self.bindable)
        c.rets, c.yield_body = self.rets, self.yield_body
        c.in_final, c.pure_env = self.in_final, self.pure_env
        c.node = self.node
        c.parent = self
        return c

    def final(self):
        c = self.with_subst({}, self.round)
        c.in_final = True
        return c

    def root(self):
        c = self
        while getattr(c, 'parent', None) is not None:
            c = c.parent
        return c


class Translator:
    def __init__(self, path, src=None):
        self.path = str(path)
        self.src = src if src is not None else open(path).read()
        self.tree = ast.parse(self.src)
        self.funcs = {n.name: n for n in self.tree.body if isinstance(n, ast.FunctionDef)}
        self.classes = {n.name: n for n in self.tree.body if isinstance(n, ast.ClassDef)}
        self.os_names, self.environ_names = set(), set()
        for n in ast.walk(self.tree):
            if isinstance(n, ast.Import):
                for a in n.names:
                    if a.name == 'os':
                        self.os_names.add(a.asname or 'os')
            elif isinstance(n, ast.ImportFrom) and n.module == 'os':
                for a in n.names:
                    if a.name == 'environ':
                        self.environ_names.add(a.asname or 'environ')
        self.up = {}                # id(node) -> parent node
        for p in ast.walk(self.tree):
            for c in ast.iter_child_nodes(p):
                self.up[id(c)] = p
        self.modconsts = self.module_constants()
        self._counts = {}
        self.unrolling = set()      # ids of the For nodes whose unrolled copies are being translated
        self.nid = 0
        self.meta = {}
        self.unsupported = []
        self.notes = []
        self.inlined = set()        # names of inlined functions, 'Class.method' for methods
        self.copies = {}
        self.fresh = 0
        # functions that write the environment, directly or through same-module callees / context managers
        writers = {k for k, f in self.funcs.items() if self.writes_env(f)}
        wclasses = {k for k, c in self.classes.items() if self.writes_env(c)}
        changed = True
        while changed:
            changed = False
            for k, f in list(self.funcs.items()) + list(self.classes.items()):
                if k in writers or k in wclasses:
                    continue
                for n in ast.walk(f):
                    if isinstance(n, ast.Call) and isinstance(n.func, ast.Name) and \
                            (n.func.id in writers or n.func.id in wclasses):
                        (writers if k in self.funcs else wclasses).add(k)
                        changed = True
                        break
        self.writers, self.writer_classes = writers, wclasses
        # small read-only helpers: mention os.environ, call nothing but os.environ methods,
        # other such helpers, and exception constructors inside `raise`
        self.readers = set()
        changed = True
        while changed:
            changed = False
            for k, f in self.funcs.items():
                if k in writers or k in self.readers or not self.mentions_environ(f) or self.is_cm_generator(f):
                    continue
                if self.only_env_calls(f):
                    self.readers.add(k)
                    changed = True
        self.inlinable = writers | self.readers
        self.deep = set()           # translate_deep: read-only stages that are inlined as well

    # ------------------------------------------------------------ recognisers
    def is_environ(self, n):
        if isinstance(n, ast.Attribute) and n.attr == 'environ' and isinstance(n.value, ast.Name) \
                and n.value.id in self.os_names:
            return True
        return isinstance(n, ast.Name) and n.id in self.environ_names

    def is_os_call(self, n, names):
        return (isinstance(n, ast.Call) and isinstance(n.func, ast.Attribute) and n.func.attr in names
                and isinstance(n.func.value, ast.Name) and n.func.value.id in self.os_names)

    def writes_env(self, fn):
        for n in ast.walk(fn):
            if isinstance(n, ast.Subscript) and self.is_environ(n.value) and not isinstance(n.ctx, ast.Load):
                return True
            if isinstance(n, ast.Call) and isinstance(n.func, ast.Attribute) and self.is_environ(n.func.value) \
                    and n.func.attr in MUTATORS:
                return True
            if self.is_os_call(n, ('putenv', 'unsetenv')):
                return True
        return False

    def mentions_environ(self, node):
        return any(self.is_environ(n) or self.is_os_call(n, ('putenv', 'unsetenv', 'getenv')) for n in ast.walk(node))

    def is_cm_generator(self, fn):
        for d in getattr(fn, 'decorator_list', []):
            if (isinstance(d, ast.Name) and d.id == 'contextmanager') or \
                    (isinstance(d, ast.Attribute) and d.attr == 'contextmanager'):
                return True
        return False

    def only_env_calls(self, fn):
        in_raise = set()
        for n in ast.walk(fn):
            if isinstance(n, ast.Raise):
                for m in ast.walk(n):
                    in_raise.add(id(m))
        for n in ast.walk(fn):
            if isinstance(n, ast.Call) and id(n) not in in_raise:
                if isinstance(n.func, ast.Attribute) and self.is_environ(n.func.value):
                    continue
                if self.is_os_call(n, ('getenv',)):
                    continue
                if isinstance(n.func, ast.Name) and n.func.id in self.readers:
                    continue
                if isinstance(n.func, ast.Attribute) and n.func.attr in STRMETH:
                    continue
                return False
            if isinstance(n, (ast.Yield, ast.YieldFrom, ast.Await)):
                return False
        return True

    @staticmethod
    def is_view_call(n):
        """<local name>.items() / .keys() / .values() / .get(..): reads of a local dict of saved values"""
        return isinstance(n, ast.Call) and isinstance(n.func, ast.Attribute) and isinstance(n.func.value, ast.Name) \
            and n.func.attr in ('items', 'keys', 'values', 'get') and not n.keywords and len(n.args) <= 1

    def syntactic_pure_env(self, fn, seen=()):
        """body = os.environ reads/writes, local assignments, if / for, return, calls of other such helpers -
        nothing that raises on purpose, nothing foreign that is called"""
        if self.is_cm_generator(fn) or fn.name in seen:
            return False
        for n in ast.walk(fn):
            if isinstance(n, (ast.Raise, ast.Try, ast.With, ast.While, ast.Import, ast.ImportFrom, ast.Assert,
                              ast.BinOp, ast.AugAssign, ast.Yield, ast.YieldFrom, ast.Await)):
                return False
            if isinstance(n, ast.Attribute) and not self.is_environ(n) and not self.is_environ(n.value) \
                    and not (isinstance(n.value, ast.Name) and n.value.id == 'self') \
                    and not (self.is_view_call(self.up.get(id(n))) and self.up[id(n)].func is n):
                return False
            if isinstance(n, ast.Subscript) and not self.is_environ(n.value) \
                    and not (isinstance(n.value, ast.Name) and isinstance(n.ctx, ast.Load)):
                return False                  # (reading an entry of a local dict / tuple of saved values is fine)
            if isinstance(n, ast.Call):
                if isinstance(n.func, ast.Attribute) and self.is_environ(n.func.value):
                    continue
                if self.is_view_call(n) or self.is_os_call(n, ('getenv',)):
                    continue
                if isinstance(n.func, ast.Name) and n.func.id in self.funcs and \
                        self.syntactic_pure_env(self.funcs[n.func.id], seen + (fn.name,)):
                    continue
                return False
        return True

    # ------------------------------------------------------------ module-level constants, uses of a name
    @staticmethod
    def literal(v):
        """('const', s) / ('tuple', [...]) for a string literal / a tuple or list display of such literals"""
        if isinstance(v, ast.Constant) and isinstance(v.value, str):
            return ('const', v.value)
        if isinstance(v, (ast.Tuple, ast.List)) and v.elts:
            vs = [Translator.literal(e) for e in v.elts]
            if all(x is not None for x in vs):
                return ('tuple', vs)
        return None

    def module_constants(self):
        """names bound exactly once in the whole module, by a module-level assignment of a string literal or of a
        tuple / list display of string literals (nested displays allowed).  Any other binding occurrence of the
        name anywhere in the file (assignment, parameter, loop / with / except / import target, def, global)
        disqualifies it; a list additionally must only be iterated over or tested with `in` (nobody can have
        mutated it).  Rebinding from another module is outside what the translator can see (trusted)."""
        bound = {}

        def bump(nm):
            bound[nm] = bound.get(nm, 0) + 1
        for n in ast.walk(self.tree):
            if isinstance(n, ast.Name) and not isinstance(n.ctx, ast.Load):
                bump(n.id)
            elif isinstance(n, ast.arg):
                bump(n.arg)
            elif isinstance(n, ast.ExceptHandler) and n.name:
                bump(n.name)
            elif isinstance(n, ast.alias):
                bump((n.asname or n.name).split('.')[0])
            elif isinstance(n, (ast.FunctionDef, ast.AsyncFunctionDef, ast.ClassDef)):
                bump(n.name)
            elif isinstance(n, (ast.Global, ast.Nonlocal)):
                for nm in n.names:
                    bump(nm)
            elif isinstance(n, (ast.MatchAs, ast.MatchStar)) and n.name:
                bump(n.name)
            elif isinstance(n, ast.MatchMapping) and n.rest:
                bump(n.rest)
        out = {}
        self.namedtuples = {}
        for s in self.tree.body:
            if isinstance(s, ast.Assign) and len(s.targets) == 1 and isinstance(s.targets[0], ast.Name):
                nm, v = s.targets[0].id, s.value
            elif isinstance(s, ast.AnnAssign) and isinstance(s.target, ast.Name) and s.value is not None:
                nm, v = s.target.id, s.value
            else:
                continue
            # N = namedtuple('N', ('a', 'b')) / 'a b' / 'a, b'  (no defaults, no rename): an immutable record type
            if isinstance(v, ast.Call) and len(v.args) == 2 and not v.keywords and bound.get(nm) == 1 and \
                    ((isinstance(v.func, ast.Name) and v.func.id == 'namedtuple' and bound.get('namedtuple', 0) == 1) or
                     (isinstance(v.func, ast.Attribute) and v.func.attr == 'namedtuple'
                      and isinstance(v.func.value, ast.Name) and v.func.value.id == 'collections')):
                fl = self.literal(v.args[1])
                fields = None
                if fl is not None and fl[0] == 'const':
                    fields = fl[1].replace(',', ' ').split()
                elif fl is not None and all(x[0] == 'const' for x in fl[1]):
                    fields = [x[1] for x in fl[1]]
                if fields and len(set(fields)) == len(fields) and all(f.isidentifier() and not f.startswith('_')
                                                                      for f in fields):
                    self.namedtuples[nm] = fields
                continue
            lit = self.literal(v)
            if lit is None or bound.get(nm) != 1:
                continue
            if any(isinstance(x, ast.List) for x in ast.walk(v)) and not self.only_iterated(self.tree, nm):
                continue
            out[nm] = lit
        return out

    def only_iterated(self, root, name):
        """every use of the name under root is `for .. in name`, a comprehension over it, or `x in name`"""
        for n in ast.walk(root):
            if isinstance(n, ast.Name) and n.id == name and isinstance(n.ctx, ast.Load):
                p = self.up.get(id(n))
                if isinstance(p, (ast.For, ast.comprehension)) and p.iter is n:
                    continue
                if isinstance(p, ast.Compare) and len(p.ops) == 1 and isinstance(p.ops[0], (ast.In, ast.NotIn)) \
                        and p.comparators[0] is n:
                    continue
                return False
        return True

    VIEWS = ('items', 'keys', 'values', 'get', 'copy')
    WRAPPERS = ('list', 'tuple', 'dict', 'sorted', 'reversed', 'len', 'iter')

    def benign_uses(self, root, name, skip=None):
        """every use of the (mutable: list / dict) value bound to the name under root is one that cannot change it:
        iteration, `.items()/.keys()/.values()/.get()/.copy()`, a subscript read, `in`, list()/tuple()/dict()/sorted()/
        reversed()/len(), an argument of a same-module function that is inlined (its parameter is tested again
        there) or of os.environ.update, `return name`"""
        if root is None:
            return False
        for n in ast.walk(root):
            if not (isinstance(n, ast.Name) and n.id == name) or n is skip:
                continue
            if isinstance(n.ctx, ast.Store):
                continue                      # the callers make sure there is exactly one binding of the name
            if not isinstance(n.ctx, ast.Load):
                return False
            p = self.up.get(id(n))
            if isinstance(p, (ast.For, ast.comprehension)) and p.iter is n:
                continue
            if isinstance(p, ast.Attribute) and p.value is n and p.attr in self.VIEWS:
                pp = self.up.get(id(p))
                if isinstance(pp, ast.Call) and pp.func is p:
                    continue
            if isinstance(p, ast.Subscript) and p.value is n and isinstance(p.ctx, ast.Load):
                continue
            if isinstance(p, ast.Compare) and len(p.ops) == 1 and isinstance(p.ops[0], (ast.In, ast.NotIn)) \
                    and p.comparators[0] is n:
                continue
            if isinstance(p, ast.Call) and n in p.args:
                if isinstance(p.func, ast.Name) and (p.func.id in self.WRAPPERS or
                                                     (p.func.id in self.inlinable and p.func.id in self.funcs)):
                    continue
                if isinstance(p.func, ast.Attribute) and self.is_environ(p.func.value) and p.func.attr == 'update':
                    continue
            if isinstance(p, ast.Return) and p.value is n:
                continue
            return False
        return True

    def iter_values(self, e, ctx):
        """the element values an iteration over the expression yields, when the translator knows them: a literal
        tuple / list, a name bound to one (locally or at module level), a known dict (its keys),
        `<known dict>.items() / .keys() / .values()`, and list() / tuple() / reversed() / sorted() of these"""
        if isinstance(e, ast.Call) and not e.keywords:
            if isinstance(e.func, ast.Attribute) and e.func.attr in ('items', 'keys', 'values') and not e.args:
                d = self.value_of(e.func.value, ctx, []) if isinstance(e.func.value, ast.Name) else OPAQUE
                if d[0] != 'dict':
                    return None
                if e.func.attr == 'items':
                    return [('tuple', [('const', k), v]) for k, v in d[1]]
                return [('const', k) if e.func.attr == 'keys' else v for k, v in d[1]]
            if isinstance(e.func, ast.Name) and e.func.id in ('list', 'tuple', 'reversed', 'sorted') and len(e.args) == 1 \
                    and e.func.id not in ctx.subst and e.func.id not in ctx.tracked:
                vs = self.iter_values(e.args[0], ctx)
                if vs is None:
                    return None
                if e.func.id == 'reversed':
                    return vs[::-1]
                if e.func.id == 'sorted':
                    def key(v):
                        return v[1] if v[0] == 'const' else \
                            (v[1][0][1] if v[0] == 'tuple' and v[1] and v[1][0][0] == 'const' else None)
                    ks = [key(v) for v in vs]
                    if any(k is None for k in ks) or len(set(ks)) != len(ks):
                        return None
                    return [v for _, v in sorted(zip(ks, vs), key=lambda kv: kv[0])]
                return vs
            return None
        if isinstance(e, (ast.Name, ast.Tuple, ast.List)):
            v = self.value_of(e, ctx, [])
            if v[0] == 'tuple':
                return list(v[1])
            if v[0] == 'dict':
                return [('const', k) for k, _ in v[1]]
            if v[0] == 'record':
                return [w for _, w in v[1]]
        return None

    def struct_lookup(self, n, ctx):
        """value of `d[k]` / `d.get(k)` for a known dict d and a constant key it has, of `t[i]` for a known tuple"""
        if isinstance(n, ast.Attribute) and isinstance(n.value, ast.Name) and isinstance(n.ctx, ast.Load):
            d = ctx.subst.get(n.value.id)             # <record>.field of a known namedtuple instance
            if d is not None and d[0] == 'record':
                for kk, v in d[1]:
                    if kk == n.attr:
                        return v
            return None
        if isinstance(n, ast.Subscript) and isinstance(n.value, ast.Name) and isinstance(n.ctx, ast.Load):
            base, key = n.value, n.slice
        elif isinstance(n, ast.Call) and isinstance(n.func, ast.Attribute) and n.func.attr == 'get' \
                and isinstance(n.func.value, ast.Name) and len(n.args) == 1 and not n.keywords:
            base, key = n.func.value, n.args[0]
        else:
            return None
        d = ctx.subst.get(base.id)
        if d is None:
            d = self.modconsts.get(base.id) if base.id not in ctx.tracked else None
        if d is None:
            return None
        if d[0] == 'dict':
            k = self.const(key, ctx)
            for kk, v in d[1]:
                if kk == k:
                    return v
        if d[0] in ('tuple', 'record') and isinstance(n, ast.Subscript) and isinstance(key, ast.Constant) \
                and isinstance(key.value, int) and not isinstance(key.value, bool) \
                and -len(d[1]) <= key.value < len(d[1]):
            return d[1][key.value] if d[0] == 'tuple' else d[1][key.value][1]
        return None

    @staticmethod
    def make_dict(pairs):
        """('dict', ...) with the semantics of a Python dict display: a repeated key keeps its first position and
        takes the last value"""
        out = []
        for k, v in pairs:
            for i, (kk, _) in enumerate(out):
                if kk == k:
                    out[i] = (k, v)
                    break
            else:
                out.append((k, v))
        return ('dict', out)

    def attr_key(self, n, ctx):
        """'self.attr' for an attribute of the context-manager instance being inlined"""
        if ctx.inst is not None and isinstance(n, ast.Attribute) and isinstance(n.value, ast.Name) \
                and n.value.id == ctx.inst['self']:
            return n.attr
        return None

    def const(self, n, ctx):
        """constant-fold a string expression, None if it is not a compile-time string"""
        if isinstance(n, ast.Constant) and isinstance(n.value, str):
            return n.value
        if isinstance(n, ast.Name) and n.id in ctx.subst and ctx.subst[n.id][0] == 'const':
            return ctx.subst[n.id][1]
        if isinstance(n, ast.Name) and n.id not in ctx.subst and n.id not in ctx.tracked \
                and self.modconsts.get(n.id, OPAQUE)[0] == 'const':
            return self.modconsts[n.id][1]
        if isinstance(n, (ast.Subscript, ast.Call, ast.Attribute)) and self.attr_key(n, ctx) is None:
            v = self.struct_lookup(n, ctx)
            if v is not None and v[0] == 'const':
                return v[1]
        a = self.attr_key(n, ctx)
        if a is not None and ctx.inst['consts'].get(a, OPAQUE)[0] == 'const':
            return ctx.inst['consts'][a][1]
        if isinstance(n, ast.BinOp) and isinstance(n.op, ast.Add):
            a, b = self.const(n.left, ctx), self.const(n.right, ctx)
            if a is not None and b is not None:
                return a + b
        if isinstance(n, ast.Call) and isinstance(n.func, ast.Attribute) and n.func.attr in STRMETH \
                and not n.args and not n.keywords:
            a = self.const(n.func.value, ctx)
            if a is not None:
                return STRMETH[n.func.attr](a)
        if isinstance(n, ast.JoinedStr):
            parts = [self.const(v, ctx) for v in n.values]
            if all(p is not None for p in parts):
                return ''.join(parts)
        return None

    def loc(self, n, ctx):
        """the tracked location (local, or attribute of the inlined instance) an expression denotes, or None"""
        a = self.attr_key(n, ctx)
        if a is not None:
            return ctx.inst['prefix'] + a if a in ctx.inst['tracked'] else None
        if isinstance(n, (ast.Subscript, ast.Call, ast.Attribute)):
            v = self.struct_lookup(n, ctx)
            return v[1] if v is not None and v[0] == 'loc' else None
        if not isinstance(n, ast.Name):
            return None
        if n.id in ctx.subst:
            v = ctx.subst[n.id]
            return v[1] if v[0] == 'loc' else None
        if n.id in ctx.tracked:
            return ctx.prefix + n.id
        return None

    def store_loc(self, t, ctx):
        """location written by an assignment target (tracked local / instance attribute), or None"""
        a = self.attr_key(t, ctx)
        if a is not None:
            return ctx.inst['prefix'] + a if a in ctx.inst['tracked'] else None
        if isinstance(t, ast.Name) and t.id in ctx.tracked and t.id not in ctx.subst:
            return ctx.prefix + t.id
        return None

    def env_value(self, v, ctx):
        """value expressions that read one variable into a local"""
        if isinstance(v, ast.Subscript) and self.is_environ(v.value):
            c = self.const(v.slice, ctx)
            return ('load', c) if c is not None else None
        if isinstance(v, ast.Call) and isinstance(v.func, ast.Attribute) and self.is_environ(v.func.value) \
                and v.func.attr in ('get', 'pop') and not v.keywords and 1 <= len(v.args) <= 2:
            c = self.const(v.args[0], ctx)
            dflt_none = len(v.args) == 1 or (isinstance(v.args[1], ast.Constant) and v.args[1].value is None)
            if c is None:
                return None
            if v.func.attr == 'get' and dflt_none:
                return ('save', c)
            if v.func.attr == 'pop' and len(v.args) == 2 and dflt_none:
                return ('popsave', c)
            if v.func.attr == 'pop' and len(v.args) == 1:
                return ('popneed', c)
        if self.is_os_call(v, ('getenv',)) and not v.keywords and 1 <= len(v.args) <= 2:
            c = self.const(v.args[0], ctx)        # os.getenv(NAME[, None]) is os.environ.get(NAME[, None])
            if c is not None and (len(v.args) == 1 or (isinstance(v.args[1], ast.Constant) and v.args[1].value is None)):
                return ('save', c)
        return None

    @staticmethod
    def bind_env(x, ev):
        """IR of `x = <environment read ev>`:  os.environ[c] = load;  .get(c) = save;  .pop(c, None) = save + pop
        (never raises);  .pop(c) = load + del (MutableMapping.pop: value = self[c] raises KeyError when unset,
        nothing deleted; then del self[c])"""
        kind, c = ev
        if kind == 'load':
            return [['load', x, c]]
        if kind == 'save':
            return [['save', x, c]]
        if kind == 'popsave':
            return [['save', x, c], ['pop', c]]
        assert kind == 'popneed', ev
        return [['load', x, c], ['del', c]]

    def is_env_read_shape(self, v, _seen=()):
        """syntactically: os.environ[...] / os.environ.get(...) / .pop(...) / call of a read-only helper"""
        if isinstance(v, ast.Subscript) and self.is_environ(v.value):
            return True
        if isinstance(v, ast.Call) and isinstance(v.func, ast.Attribute) and self.is_environ(v.func.value) \
                and v.func.attr in ('get', 'pop'):
            return True
        if self.is_os_call(v, ('getenv',)):
            return True
        if isinstance(v, ast.Call) and isinstance(v.func, ast.Name) and v.func.id in self.writers \
                and v.func.id in self.funcs and v.func.id not in _seen:
            # an environment-writing helper that hands back what it read: `return os.environ.pop(name)`
            return any(isinstance(r, ast.Return) and r.value is not None
                       and self.is_env_read_shape(r.value, _seen + (v.func.id,))
                       for r in ast.walk(self.funcs[v.func.id]))
        return isinstance(v, ast.Call) and isinstance(v.func, ast.Name) and v.func.id in self.readers

    def tracked_names(self, fn):
        out = set()
        for n in ast.walk(fn):
            if isinstance(n, (ast.Assign, ast.AnnAssign)):
                tg = n.targets if isinstance(n, ast.Assign) else [n.target]
                if len(tg) == 1 and isinstance(tg[0], ast.Name) and n.value is not None and self.is_env_read_shape(n.value):
                    out.add(tg[0].id)
        return out

    def store_count(self, fn, name):
        """number of binding occurrences of the name in the function (99 for a parameter / global / nonlocal)"""
        if fn is None:
            return 99
        key = id(fn)
        if key not in self._counts:
            count = {}

            def bump(nm, k=1):
                count[nm] = count.get(nm, 0) + k
            for n in ast.walk(fn):
                if isinstance(n, ast.Name) and not isinstance(n.ctx, ast.Load):
                    bump(n.id)
                elif isinstance(n, ast.arg):
                    bump(n.arg, 99)
                elif isinstance(n, (ast.Global, ast.Nonlocal)):
                    for nm in n.names:
                        bump(nm, 99)
                elif isinstance(n, ast.ExceptHandler) and n.name:
                    bump(n.name)
                elif isinstance(n, ast.alias):
                    bump((n.asname or n.name).split('.')[0])
                elif isinstance(n, (ast.FunctionDef, ast.AsyncFunctionDef, ast.ClassDef)) and n is not fn:
                    bump(n.name)
            self._counts[key] = count
        return self._counts[key].get(name, 0)

    def alias_position(self, n, ctx):
        """the statement runs unconditionally once its block is entered, and a binding made for it cannot leak to code
        that may run without it: top level of the function, body of a loop that is being unrolled (binding scoped to
        the round), a `finally` block (binding scoped to the block)"""
        p = self.up.get(id(n))
        if p is ctx.node:
            return n in p.body
        if isinstance(p, ast.For):
            return n in p.body and id(p) in self.unrolling
        if isinstance(p, ast.Try):
            return n in p.finalbody
        return False

    def bindable_names(self, fn):
        """names assigned exactly once in the function, by a top-level statement of its body"""
        count = {}
        for n in ast.walk(fn):
            if isinstance(n, ast.Name) and not isinstance(n.ctx, ast.Load):
                count[n.id] = count.get(n.id, 0) + 1
            if isinstance(n, (ast.Global, ast.Nonlocal)):
                for nm in n.names:
                    count[nm] = 99
            if isinstance(n, ast.ExceptHandler) and n.name:
                count[n.name] = count.get(n.name, 0) + 1
            if isinstance(n, ast.alias):
                nm = (n.asname or n.name).split('.')[0]
                count[nm] = count.get(nm, 0) + 1
        top = set()
        for s in fn.body:
            if isinstance(s, ast.Assign) and len(s.targets) == 1 and isinstance(s.targets[0], ast.Name):
                top.add(s.targets[0].id)
            if isinstance(s, ast.Assign) and len(s.targets) == 1 and isinstance(s.targets[0], (ast.Tuple, ast.List)) \
                    and all(isinstance(e, ast.Name) for e in s.targets[0].elts):
                top |= {e.id for e in s.targets[0].elts}
        params = {a.arg for a in fn.args.args + fn.args.kwonlyargs + fn.args.posonlyargs}
        params |= {a.arg for a in (fn.args.vararg, fn.args.kwarg) if a is not None}
        return {k for k in top if count.get(k) == 1 and k not in params}

    # ------------------------------------------------------------ bookkeeping
    def newid(self, kind, node, ctx, **kw):
        self.nid += 1
        end = getattr(node, 'end_lineno', node.lineno)
        # compound statements: the point belongs to the header, not to the whole block
        if isinstance(node, (ast.If, ast.While)):
            end = node.test.end_lineno
        elif isinstance(node, (ast.For, ast.AsyncFor)):
            end = node.iter.end_lineno
        elif isinstance(node, (ast.With, ast.AsyncWith)):
            end = max(i.context_expr.end_lineno for i in node.items)
        elif isinstance(node, (ast.FunctionDef, ast.AsyncFunctionDef, ast.ClassDef, ast.Try, ast.ExceptHandler)):
            end = node.lineno
        m = dict(kind=kind, func=ctx.fn, line=node.lineno, end=end)
        if ctx.round is not None:
            m['round'] = list(ctx.round)
        if ctx.pure_env:
            m['restore'] = True
        m.update(kw)
        self.meta[self.nid] = m
        return self.nid

    def unsup(self, node, ctx, msg):
        self.unsupported.append({'func': ctx.fn, 'line': getattr(node, 'lineno', 0), 'msg': msg})

    def stored(self, node, ctx):
        """tracked locations (re)bound by the expression parts of a statement"""
        out = []
        for n in ast.walk(node):
            if isinstance(n, ast.Name) and not isinstance(n.ctx, ast.Load) and n.id in ctx.tracked:
                out.append(ctx.prefix + n.id)
            if isinstance(n, ast.Attribute) and not isinstance(n.ctx, ast.Load):
                x = self.store_loc(n, ctx)
                if x:
                    out.append(x)
            if isinstance(n, ast.alias):
                nm = (n.asname or n.name).split('.')[0]
                if nm in ctx.tracked:
                    out.append(ctx.prefix + nm)
        return sorted(set(out))

    def kills(self, node, ctx, names=None):
        names = self.stored(node, ctx) if names is None else names
        return [['kill', x, self.newid('value', node, ctx)] for x in names]

    def fresh_loc(self, ctx, hint):
        self.fresh += 1
        return '%s%s#%d' % (ctx.prefix, hint, self.fresh)

    # ------------------------------------------------------------ structured values
    def value_of(self, e, ctx, pre):
        """translator-level value of an expression: ('const', s) | ('loc', x) | ('none',) | ('tuple', [...]) |
        OPAQUE; environment reads inside it are saved into fresh locations (statements appended to pre)"""
        c = self.const(e, ctx)
        if c is not None:
            return ('const', c)
        if isinstance(e, ast.Constant):
            return ('none',) if e.value is None else OPAQUE
        if isinstance(e, ast.Name):
            if e.id in ctx.subst:
                return ctx.subst[e.id]
            y = self.loc(e, ctx)
            if y:
                return ('loc', y)
            if e.id in self.modconsts and e.id not in ctx.tracked:
                return self.modconsts[e.id]
            return OPAQUE
        if self.attr_key(e, ctx) is not None:
            y = self.loc(e, ctx)
            return ('loc', y) if y else OPAQUE
        sl = self.struct_lookup(e, ctx)
        if sl is not None:
            return sl
        ev = self.env_value(e, ctx)
        if ev:
            x = self.fresh_loc(ctx, 'saved')
            pre.extend(self.bind_env(x, ev))
            return ('loc', x)
        if isinstance(e, (ast.Tuple, ast.List)):
            vs = [self.value_of(x, ctx, pre) for x in e.elts]
            return ('tuple', vs)
        if isinstance(e, ast.Dict):
            if any(k is None for k in e.keys):
                return OPAQUE
            pairs = []
            for k, v in zip(e.keys, e.values):            # a dict display evaluates key, value, key, value, ...
                kc = self.const(k, ctx)
                if kc is None:
                    return OPAQUE
                pairs.append((kc, self.value_of(v, ctx, pre)))
            return self.make_dict(pairs)
        if isinstance(e, (ast.ListComp, ast.GeneratorExp, ast.DictComp)) and len(e.generators) == 1 \
                and not e.generators[0].ifs and not e.generators[0].is_async:
            g = e.generators[0]
            it = self.iter_values(g.iter, ctx)
            if it is not None:
                out = []
                for v in it:
                    b = self.bind_target(g.target, v)
                    if b is None:
                        return OPAQUE
                    c2 = ctx.with_subst(b, ctx.round)
                    if isinstance(e, ast.DictComp):
                        kc = self.const(e.key, c2)
                        if kc is None:
                            return OPAQUE
                        out.append((kc, self.value_of(e.value, c2, pre)))
                    else:
                        out.append(self.value_of(e.elt, c2, pre))
                return self.make_dict(out) if isinstance(e, ast.DictComp) else ('tuple', out)
        if isinstance(e, ast.Call) and isinstance(e.func, ast.Name) and e.func.id in self.namedtuples \
                and not any(isinstance(a, ast.Starred) for a in e.args) and all(k.arg is not None for k in e.keywords):
            fields = self.namedtuples[e.func.id]
            given = dict(zip(fields, e.args))
            ok = len(e.args) <= len(fields)
            for k in e.keywords:
                ok = ok and k.arg in fields and k.arg not in given
                given[k.arg] = k.value
            if ok and set(given) == set(fields):
                # arguments are evaluated in the order written: positional, then keywords
                vals = {f: self.value_of(a, ctx, pre) for f, a in given.items()}
                return ('record', [(f, vals[f]) for f in fields])
            return OPAQUE
        if isinstance(e, ast.Call) and isinstance(e.func, ast.Name) and e.func.id in ('dict', 'list', 'tuple') \
                and e.func.id not in ctx.subst and e.func.id not in ctx.tracked \
                and not any(isinstance(a, ast.Starred) for a in e.args) and all(k.arg is not None for k in e.keywords):
            # dict(<pairs>) / dict(<known dict>) / dict(A=..., B=...) / list(<known>) / tuple(<known>)
            if e.func.id == 'dict' and len(e.args) <= 1:
                pairs = []
                if e.args:
                    a = self.value_of(e.args[0], ctx, pre)
                    if a[0] == 'dict':
                        pairs = list(a[1])
                    elif a[0] == 'tuple' and all(w[0] == 'tuple' and len(w[1]) == 2 and w[1][0][0] == 'const' for w in a[1]):
                        pairs = [(w[1][0][1], w[1][1]) for w in a[1]]
                    else:
                        return OPAQUE
                for k in e.keywords:
                    pairs.append((k.arg, self.value_of(k.value, ctx, pre)))
                return self.make_dict(pairs)
            if e.func.id in ('list', 'tuple') and len(e.args) == 1 and not e.keywords:
                a = self.value_of(e.args[0], ctx, pre)
                if a[0] == 'tuple':
                    return a
                if a[0] == 'dict':
                    return ('tuple', [('const', k) for k, _ in a[1]])
        return OPAQUE

    @staticmethod
    def bind_target(tg, v):
        """bindings of loop/comprehension target names for one element value, or None"""
        if isinstance(tg, ast.Name):
            return {tg.id: v}
        if isinstance(tg, (ast.Tuple, ast.List)) and all(isinstance(x, ast.Name) for x in tg.elts):
            if v[0] == 'tuple' and len(v[1]) == len(tg.elts):
                return {x.id: w for x, w in zip(tg.elts, v[1])}
            if v[0] == 'record' and len(v[1]) == len(tg.elts):
                return {x.id: w for x, (_, w) in zip(tg.elts, v[1])}
        return None

    @staticmethod
    def known(v):
        """is the value worth binding (contains a constant or a saved location)"""
        if v[0] in ('const', 'loc', 'none'):
            return True
        if v[0] in ('dict', 'record'):
            return len(v[1]) > 0 and all(Translator.known(w) for _, w in v[1])
        return v[0] == 'tuple' and len(v[1]) > 0 and all(Translator.known(w) for w in v[1])

    # ------------------------------------------------------------ expressions
    def scan(self, n, ctx, acc, cond=False):
        if n is None or self.const(n, ctx) is not None:
            return
        if self.is_environ(n):
            self.unsup(n, ctx, 'os.environ used as a value (may be aliased or mutated elsewhere)')
            return
        t = type(n)
        if t in (ast.Name, ast.Constant):
            return
        if self.attr_key(n, ctx) is not None and isinstance(n.ctx, ast.Load):
            return                      # attribute of the inlined instance: a plain slot
        if t in (ast.Subscript, ast.Call, ast.Attribute) and self.struct_lookup(n, ctx) is not None:
            return                      # entry of a dict / tuple / record the translator knows: a plain slot
        if t is ast.Call and isinstance(n.func, ast.Name) and n.func.id == 'dict' and len(n.args) == 1 \
                and not n.keywords and self.is_environ(n.args[0]):
            return                      # dict(os.environ): a copy, like os.environ.copy()
        if t is ast.Subscript and self.is_environ(n.value):
            if not isinstance(n.ctx, ast.Load):
                self.unsup(n, ctx, 'environment write in an unsupported position')
                return
            c = self.const(n.slice, ctx)
            if c is not None and not cond:
                acc['needs'].append(c)
            else:
                acc['risky'] = True
                self.scan(n.slice, ctx, acc, cond)
            return
        if t is ast.Call and isinstance(n.func, ast.Attribute) and self.is_environ(n.func.value):
            m = n.func.attr
            if m == 'get':
                for a in list(n.args) + [k.value for k in n.keywords]:
                    self.scan(a, ctx, acc, cond)
                if not (n.args and self.const(n.args[0], ctx) is not None):
                    acc['risky'] = True
                return
            if m in READERS:
                return
            if m == 'pop' and acc.get('popok'):
                return                  # the whole expression has a value known to value_of, which has turned every
                #                         pop in it (comprehension variable already bound) into save/load + pop/del
            why = {'clear': ' (removes every variable: no finite list of touched variables)',
                   'popitem': ' (removes an arbitrary variable)',
                   'update': ' (only as a statement, with a literal mapping / keywords / a dict the translator knows)',
                   'setdefault': ' (only as a statement or the whole value of an assignment, with a literal name)',
                   'pop': ' (only as a statement or the whole value of an assignment / return / known display element)',
                   }.get(m, '')
            self.unsup(n, ctx, 'os.environ.%s(...) in an unsupported position%s' % (m, why))
            return
        if self.is_os_call(n, ('putenv', 'unsetenv')):
            self.unsup(n, ctx, 'os.putenv/os.unsetenv')
            return
        if self.is_os_call(n, ('getenv',)):
            for a in list(n.args) + [k.value for k in n.keywords]:
                self.scan(a, ctx, acc, cond)
            if not (n.args and self.const(n.args[0], ctx) is not None):
                acc['risky'] = True
            return
        if t is ast.Compare and len(n.ops) == 1 and isinstance(n.ops[0], (ast.In, ast.NotIn)) \
                and self.is_environ(n.comparators[0]):
            if self.const(n.left, ctx) is None:
                acc['risky'] = True
                self.scan(n.left, ctx, acc, cond)
            return
        if t is ast.Compare and all(isinstance(op, (ast.Is, ast.IsNot)) for op in n.ops):
            for c in [n.left] + list(n.comparators):
                self.scan(c, ctx, acc, cond)
            return
        if t is ast.Call and isinstance(n.func, ast.Name) and \
                (n.func.id in self.writers or n.func.id in self.writer_classes):
            self.unsup(n, ctx, 'call of the environment-writing %s inside an expression' % n.func.id)
            return
        if t in (ast.Tuple, ast.List, ast.Set):
            for e in n.elts:
                self.scan(e, ctx, acc, cond)
            return
        if t is ast.Dict:
            for k in n.keys:
                if k is None or not isinstance(k, ast.Constant):
                    acc['risky'] = True
                self.scan(k, ctx, acc, cond)
            for v in n.values:
                self.scan(v, ctx, acc, cond)
            return
        if t is ast.Lambda:
            if self.mentions_environ(n):
                self.unsup(n, ctx, 'lambda that touches os.environ')
            return
        if t in (ast.Yield, ast.YieldFrom, ast.Await):
            self.unsup(n, ctx, 'generator / coroutine (the environment is observable while suspended)')
            return
        if t is ast.NamedExpr:
            self.scan(n.value, ctx, acc, cond)
            return
        acc['risky'] = True
        inner_cond = cond or t in (ast.BoolOp, ast.IfExp, ast.ListComp, ast.SetComp, ast.DictComp, ast.GeneratorExp)
        for c in ast.iter_child_nodes(n):
            if isinstance(c, ast.keyword):
                self.scan(c.value, ctx, acc, inner_cond)
            elif isinstance(c, ast.comprehension):
                self.scan(c.iter, ctx, acc, True)
                for i in c.ifs:
                    self.scan(i, ctx, acc, True)
            elif isinstance(c, ast.expr):
                self.scan(c, ctx, acc, inner_cond)

    def simple(self, node, ctx, exprs, force=False, kind='fault', envwrite=False):
        """fault point (if anything may raise) and unconditional environment lookups of a statement;
        envwrite: the statement is itself an environment write (in a finally block: a restore statement)"""
        acc = {'risky': bool(force), 'needs': []}
        for e in exprs:
            self.scan(e, ctx, acc)
        out = []
        if acc['risky']:
            kw = {'restore': True} if (envwrite and ctx.in_final) else {}
            out.append(['fault', self.newid(kind, node, ctx, **kw)])
        out += [['need', c] for c in acc['needs']]
        return out

    # ------------------------------------------------------------ functions, inlining
    def check_function(self, fn, ctx, allow_yield=False):
        for n in ast.walk(fn):
            if n is not fn and isinstance(n, (ast.FunctionDef, ast.AsyncFunctionDef, ast.ClassDef)):
                if self.mentions_environ(n) or any(isinstance(m, ast.Name) and m.id in ctx.tracked for m in ast.walk(n)):
                    self.unsup(n, ctx, 'nested definition that touches os.environ or a saved value')
            if isinstance(n, (ast.Global, ast.Nonlocal)) and set(n.names) & ctx.tracked:
                self.unsup(n, ctx, 'global/nonlocal declaration of a local that saves an environment value')
        decos = [d for d in fn.decorator_list
                 if not (allow_yield and self.is_cm_generator(fn))]
        if decos:
            self.notes.append('%s: decorators are not modelled' % fn.name)

    def function(self, name):
        """IR of a module-level function analysed as an entry point"""
        fn = self.funcs[name]
        ctx = Ctx(name, '', self.tracked_names(fn), {}, (name,), bindable=self.bindable_names(fn))
        ctx.top_stmts = fn.body
        ctx.node = fn
        self.check_function(fn, ctx)
        return self.block(fn.body, ctx)

    def bind_params(self, fn, call, ctx, pre, skip_self=False):
        """parameter name -> value of the corresponding argument of the call"""
        params = [a.arg for a in fn.args.posonlyargs + fn.args.args]
        if skip_self:
            params = params[1:]
        defaults = dict(zip(reversed(params), reversed(fn.args.defaults)))
        for a, d in zip(fn.args.kwonlyargs, fn.args.kw_defaults):
            if d is not None:
                defaults[a.arg] = d
        names = params + [a.arg for a in fn.args.kwonlyargs]
        out = {p: OPAQUE for p in names}
        if call is None or any(isinstance(a, ast.Starred) for a in call.args) or any(k.arg is None for k in call.keywords):
            return out
        given = {}
        for p, a in zip(params, call.args):
            given[p] = a
        for k in call.keywords:
            given[k.arg] = k.value
        stored = {n.id for n in ast.walk(fn) if isinstance(n, ast.Name) and not isinstance(n.ctx, ast.Load)}
        for p in names:
            if p in stored:
                continue                      # reassigned in the callee: not a fixed value
            if p in given:
                out[p] = self.value_of(given[p], ctx, pre)
                if out[p][0] in ('dict', 'tuple') and not self.benign_uses(fn, p):
                    out[p] = OPAQUE           # the callee may change the dict / list it is given
            elif p in defaults:
                out[p] = self.value_of(defaults[p], Ctx(fn.name, '', set(), {}, ()), [])
        va = fn.args.vararg
        if va is not None and va.arg not in stored:
            # def f(*names) called as f('A', 'B'): names is the tuple of the remaining positional arguments
            out[va.arg] = ('tuple', [self.value_of(a, ctx, pre) for a in call.args[len(params):]])
        return out

    def serial(self, fn):
        self.copies[id(fn)] = self.copies.get(id(fn), 0) + 1
        return self.copies[id(fn)]

    def first_line(self, fn):
        b = body_of(fn)
        return (b[0] if b else fn).lineno

    def inline(self, fn, call, node, ctx, ret_loc=None, qual=None, inst=None, skip_self=False, yield_body=None):
        """(statements evaluating the arguments, IR of the callee body as a scope, callee Ctx)"""
        pre = []
        binds = self.bind_params(fn, call, ctx, pre, skip_self=skip_self)
        qual = qual or fn.name
        self.inlined.add(qual)
        c = Ctx(fn.name, qual + '.', self.tracked_names(fn), {k: v for k, v in binds.items() if v is not OPAQUE},
                ctx.stack + (qual,), round=(fn.name, self.first_line(fn), self.serial(fn)), ret_loc=ret_loc, inst=inst,
                bindable=self.bindable_names(fn))
        c.yield_body = yield_body
        c.top_stmts = fn.body
        c.node = fn
        c.in_final = ctx.in_final or qual.endswith('.__exit__')
        c.pure_env = self.syntactic_pure_env(fn)
        self.check_function(fn, c, allow_yield=yield_body is not None)
        if yield_body is None and any(isinstance(n, (ast.Yield, ast.YieldFrom)) for n in ast.walk(fn)):
            self.unsup(node, ctx, 'call of the generator %s' % qual)
        body = self.block(fn.body, c)
        if yield_body is not None and c.yields != 1:
            self.unsup(node, ctx, 'context-manager generator %s with %d yield statements' % (qual, c.yields))
        return pre, ['scope', body], c

    def inlinable_call(self, value, ctx):
        if isinstance(value, ast.Call) and isinstance(value.func, ast.Name) and value.func.id in self.inlinable \
                and value.func.id in self.funcs:
            return self.funcs[value.func.id]
        return None

    def call_stmt(self, value, node, ctx, ret_loc=None, bind_name=None):
        """statement whose value is a call of a same-module function touching os.environ, or None"""
        fn = self.inlinable_call(value, ctx)
        if fn is None:
            return None
        if fn.name in ctx.stack:
            if fn.name in self.writers:
                self.unsup(node, ctx, 'recursive call of the environment-writing function %s' % fn.name)
            return None
        if self.is_cm_generator(fn):
            return None
        if fn.name in self.readers and ret_loc is None and bind_name is None and not isinstance(node, ast.Expr):
            return None                       # value goes somewhere untracked: an ordinary (read-only) call
        acc = {'risky': False, 'needs': []}
        for a in list(value.args) + [k.value for k in value.keywords]:
            self.scan(a, ctx, acc)
        n_unsup = len(self.unsupported)
        pre, body, c = self.inline(fn, value, node, ctx, ret_loc=ret_loc)
        pure = (not has_fault(body) and len(self.unsupported) == n_unsup) or c.pure_env
        out = []
        if acc['risky'] or not pure:
            out.append(['fault', self.newid('fault', node, ctx, call=fn.name)])
        out += [['need', v] for v in acc['needs']] + pre + [body]
        if bind_name is not None:
            v = c.rets[0] if len(c.rets) == 1 and self.single_final_return(fn) else OPAQUE
            if self.known(v) and (v[0] not in ('tuple', 'dict') or self.benign_uses(ctx.node, bind_name)):
                ctx.root().subst[bind_name] = v
                ctx.subst[bind_name] = v
        return out

    @staticmethod
    def single_final_return(fn):
        rets = [n for n in ast.walk(fn) if isinstance(n, ast.Return)]
        return len(rets) == 1 and fn.body and fn.body[-1] is rets[0]

    def block(self, stmts, ctx):
        out = []
        for s in stmts:
            out += self.stmt(s, ctx)
        return seq(out)

    def stmt(self, n, ctx):
        t = type(n)
        m = getattr(self, 's_' + t.__name__, None)
        if m is None:
            self.unsup(n, ctx, 'statement %s is not supported' % t.__name__)
            return [['fault', self.newid('fault', n, ctx)]]
        return m(n, ctx)

    # ------------------------------------------------------------ statements
    def s_Pass(self, n, ctx):
        return []

    def s_Global(self, n, ctx):
        return []

    s_Nonlocal = s_Global

    def s_Break(self, n, ctx):
        self.unsup(n, ctx, 'break/continue are not modelled')
        return []

    s_Continue = s_Break

    def s_Expr(self, n, ctx):
        v = n.value
        if isinstance(v, ast.Constant):
            return []
        if isinstance(v, ast.Yield) and ctx.yield_body is not None:
            ctx.root().yields += 1
            if v.value is not None:
                return self.simple(n, ctx, [v.value]) + [ctx.yield_body()]
            return [ctx.yield_body()]
        if isinstance(v, ast.Call) and isinstance(v.func, ast.Attribute) and self.is_environ(v.func.value) \
                and v.func.attr == 'pop' and not v.keywords and 1 <= len(v.args) <= 2:
            c = self.const(v.args[0], ctx)
            if c is None:
                self.unsup(n, ctx, 'os.environ.pop of a computed variable name')
                return []
            if len(v.args) == 1:
                return [['del', c]]
            return self.simple(n, ctx, [v.args[1]], envwrite=True) + [['pop', c]]
        w = self.env_write_call(v, n, ctx)
        if w is not None:
            return w
        inl = self.call_stmt(v, n, ctx)
        if inl is not None:
            return inl
        return self.simple(n, ctx, [v]) + self.kills(n, ctx)

    def set_var(self, c, vexpr, n, ctx):
        """IR of os.environ[c] = <vexpr> once vexpr has been evaluated (its fault point is the caller's business)"""
        y = self.loc(vexpr, ctx)
        if y:
            return ['setFrom', c, y]
        return ['setExpr', c, self.newid('value', n, ctx)]

    def env_write_call(self, v, n, ctx):
        """os.environ.setdefault(NAME, value) / os.environ.update(<literal mapping>, NAME=value, ...) as a statement
        (or as the value of an assignment whose target is handled by the caller); None when v is not such a call"""
        if not (isinstance(v, ast.Call) and isinstance(v.func, ast.Attribute) and self.is_environ(v.func.value)):
            return None
        m = v.func.attr
        if m == 'setdefault' and not v.keywords and 1 <= len(v.args) <= 2 and not isinstance(v.args[0], ast.Starred):
            c = self.const(v.args[0], ctx)
            if c is None:
                self.unsup(n, ctx, 'os.environ.setdefault of a computed variable name')
                return [['fault', self.newid('fault', n, ctx)]]
            if len(v.args) == 1:
                # setdefault(NAME) = setdefault(NAME, None): nothing when set, TypeError (nothing written) when unset
                return [['ifSet', c, ['skip'], ['raise']]]
            # the default is evaluated first; then: nothing if NAME is set, os.environ[NAME] = default otherwise
            return self.simple(n, ctx, [v.args[1]], envwrite=True) + \
                [['ifSet', c, ['skip'], self.set_var(c, v.args[1], n, ctx)]]
        if m == 'update' and len(v.args) <= 1 and not any(isinstance(a, ast.Starred) for a in v.args) \
                and all(k.arg is not None for k in v.keywords):
            # MutableMapping.update: the items of the mapping in its order, then the keywords, one
            # os.environ[NAME] = value each (a value that is not a string stops it half way, as in the IR)
            items, exprs = [], []
            if v.args:
                a = v.args[0]
                if isinstance(a, ast.Dict) and all(k is not None for k in a.keys):
                    for k, e in zip(a.keys, a.values):
                        items.append((self.const(k, ctx), e))
                        exprs.append(e)
                elif isinstance(a, (ast.Tuple, ast.List)) and all(isinstance(e, (ast.Tuple, ast.List)) and len(e.elts) == 2
                                                                  for e in a.elts):
                    for e in a.elts:
                        items.append((self.const(e.elts[0], ctx), e.elts[1]))
                        exprs.append(e.elts[1])
                else:
                    d = self.value_of(a, ctx, []) if isinstance(a, ast.Name) else OPAQUE
                    if d[0] != 'dict' or not all(w[0] in ('loc', 'const') for _, w in d[1]):
                        self.unsup(n, ctx, 'os.environ.update with an argument that is not a literal mapping or a dict '
                                           'of saved values the translator knows')
                        return [['fault', self.newid('fault', n, ctx)]]
                    for k, w in d[1]:
                        items.append((k, w))
            for k in v.keywords:
                items.append((k.arg, k.value))
                exprs.append(k.value)
            if any(c is None for c, _ in items):
                self.unsup(n, ctx, 'os.environ.update with a computed variable name')
                return [['fault', self.newid('fault', n, ctx)]]
            out = self.simple(n, ctx, exprs, envwrite=True)
            if v.args and isinstance(v.args[0], ast.Dict):
                nd = len(v.args[0].keys)                          # a dict display: a repeated key keeps its first
                items = list(self.make_dict(items[:nd])[1]) + items[nd:]   # position and takes the last value
            for c, e in items:
                if isinstance(e, tuple):                          # a value the translator knows
                    out.append(['setFrom', c, e[1]] if e[0] == 'loc' else ['setExpr', c, self.newid('value', n, ctx)])
                else:
                    out.append(self.set_var(c, e, n, ctx))
            return out
        return None

    def s_Assign(self, n, ctx, targets=None, value=None):
        targets = n.targets if targets is None else targets
        value = n.value if value is None else value
        if len(targets) == 1:
            t = targets[0]
            x = self.store_loc(t, ctx)
            if x:
                ev = self.env_value(value, ctx)
                if ev:
                    return self.bind_env(x, ev)
                if isinstance(value, ast.Constant) and value.value is None:
                    return [['setNone', x]]
                bind = t.id if (isinstance(t, ast.Name) and t.id in ctx.bindable and ctx.root() is ctx
                                and n in ctx.top_stmts) else None
                inl = self.call_stmt(value, n, ctx, ret_loc=x, bind_name=bind)
                if inl is not None:
                    return inl
            a = self.attr_key(t, ctx)
            if a is not None and not x:
                # untracked slot of the inlined instance: a constant there is remembered
                pre = []
                v = self.value_of(value, ctx, pre)
                if ctx.fn == '__init__' and a in ctx.inst['once'] and v[0] == 'const':
                    ctx.inst['consts'][a] = v
                    return []
                return self.simple(n, ctx, [value])
            if isinstance(t, ast.Subscript) and self.is_environ(t.value):
                c = self.const(t.slice, ctx)
                if c is None:
                    self.unsup(n, ctx, 'assignment to a computed environment variable name')
                    return [['fault', self.newid('fault', n, ctx)]]
                y = self.loc(value, ctx)
                if y:
                    return [['setFrom', c, y]]
                return self.simple(n, ctx, [value], envwrite=True) + [['setExpr', c, self.newid('value', n, ctx)]]
            if isinstance(t, ast.Name) and not x and t.id in ctx.bindable and ctx.root() is ctx \
                    and n in ctx.top_stmts:
                # assigned once, at the top level of the function: remember a structured value
                inl = self.call_stmt(value, n, ctx, bind_name=t.id)
                if inl is not None:
                    return inl
                if isinstance(value, (ast.Tuple, ast.List, ast.ListComp, ast.Dict, ast.DictComp)) or \
                        (isinstance(value, ast.Call) and isinstance(value.func, ast.Name)
                         and (value.func.id in ('dict', 'list', 'tuple') or value.func.id in self.namedtuples)):
                    n_unsup = len(self.unsupported)
                    pre = []
                    v = self.value_of(value, ctx, pre)
                    # a tuple display / namedtuple is immutable; a list / dict must not be changed between here and its uses
                    frozen = isinstance(value, ast.Tuple) or v[0] == 'record' or self.benign_uses(ctx.node, t.id, skip=t)
                    if self.known(v) and v[0] in ('tuple', 'dict', 'record') and frozen:
                        self.scan(value, ctx, {'risky': False, 'needs': [], 'popok': True})
                        if len(self.unsupported) == n_unsup:
                            ctx.subst[t.id] = v
                            return pre
                        del self.unsupported[n_unsup:]
        if len(targets) == 1 and isinstance(targets[0], ast.Name) and targets[0].id not in ctx.subst \
                and targets[0].id not in ctx.tracked and isinstance(value, (ast.Name, ast.Subscript, ast.Attribute, ast.Call)) \
                and self.attr_key(value, ctx) is None and self.store_count(ctx.node, targets[0].id) == 1 \
                and self.alias_position(n, ctx):
            # value = saved[name] / pair[1] / record.field / another such name: a second name for a saved value
            # (only for values that are never rebound: constants, None, the translator's own snapshot locations)
            v = ctx.subst.get(value.id) if isinstance(value, ast.Name) else self.struct_lookup(value, ctx)
            if v is not None and (v[0] in ('const', 'none') or (v[0] == 'loc' and '#' in v[1])):
                ctx.subst[targets[0].id] = v
                return []
        if len(targets) == 1 and isinstance(targets[0], (ast.Tuple, ast.List)) and ctx.root() is ctx \
                and n in ctx.top_stmts and all(isinstance(e, ast.Name) and e.id in ctx.bindable and e.id not in ctx.tracked
                                               for e in targets[0].elts) \
                and len({e.id for e in targets[0].elts}) == len(targets[0].elts) \
                and isinstance(value, (ast.Tuple, ast.List, ast.ListComp, ast.GeneratorExp, ast.Call)):
            # a, b = os.environ.get('A'), os.environ.get('B')  /  = [os.environ.get(n) for n in NAMES]  /  = <record>:
            # every name is assigned here and nowhere else, so it stands for the value from here on
            n_unsup = len(self.unsupported)
            pre = []
            v = self.value_of(value, ctx, pre)
            b = self.bind_target(targets[0], v) if self.known(v) else None
            if b is not None:
                self.scan(value, ctx, {'risky': False, 'needs': [], 'popok': True})
                if len(self.unsupported) == n_unsup:
                    ctx.subst.update(b)
                    return pre
                del self.unsupported[n_unsup:]
        for t in targets:
            if self.mentions_environ(t):
                self.unsup(n, ctx, 'environment write in an unsupported assignment form')
        # x = os.environ.pop(NAME[, default]) / .setdefault(NAME, v) / .update(...) with a target that is not a
        # saving local (or a default that is not None): the effect on the environment, then an opaque binding
        w = None
        if isinstance(value, ast.Call) and isinstance(value.func, ast.Attribute) and self.is_environ(value.func.value) \
                and not any(self.mentions_environ(t) for t in targets):
            if value.func.attr == 'pop' and not value.keywords and 1 <= len(value.args) <= 2 \
                    and self.const(value.args[0], ctx) is not None:
                c = self.const(value.args[0], ctx)
                w = [['del', c]] if len(value.args) == 1 else \
                    self.simple(n, ctx, [value.args[1]], envwrite=True) + [['pop', c]]
            else:
                w = self.env_write_call(value, n, ctx)
        if w is not None:
            unpack = any(not isinstance(t, ast.Name) and self.attr_key(t, ctx) is None for t in targets)
            w = w + self.simple(n, ctx, [t for t in targets if not isinstance(t, (ast.Name, ast.Tuple, ast.List))
                                        and self.attr_key(t, ctx) is None], force=unpack)
            kl = []
            for t in targets:
                kl += self.stored(t, ctx)
            return w + self.kills(n, ctx, sorted(set(kl)))
        inl = self.call_stmt(value, n, ctx) if self.inlinable_call(value, ctx) is not None \
            and self.inlinable_call(value, ctx).name in (self.writers | self.deep) else None
        unpack = any(not isinstance(t, ast.Name) and self.attr_key(t, ctx) is None for t in targets)
        if inl is not None:
            out = inl
            if unpack:
                out = out + [['fault', self.newid('fault', n, ctx)]]
        else:
            out = self.simple(n, ctx, [value] + [t for t in targets
                                                 if not isinstance(t, (ast.Name, ast.Tuple, ast.List))
                                                 and self.attr_key(t, ctx) is None], force=unpack)
        kl = []
        for t in targets:
            kl += self.stored(t, ctx)
        return out + self.kills(n, ctx, sorted(set(kl)))

    def s_AnnAssign(self, n, ctx):
        if n.value is None:
            return []
        return self.s_Assign(n, ctx, [n.target], n.value)

    def s_AugAssign(self, n, ctx):
        t = n.target
        if isinstance(t, ast.Subscript) and self.is_environ(t.value):
            c = self.const(t.slice, ctx)
            if c is None:
                self.unsup(n, ctx, 'augmented assignment to a computed environment variable name')
                return [['fault', self.newid('fault', n, ctx)]]
            return [['need', c]] + self.simple(n, ctx, [n.value], force=True, envwrite=True) + \
                [['setExpr', c, self.newid('value', n, ctx)]]
        if self.mentions_environ(t):
            self.unsup(n, ctx, 'environment write in an unsupported assignment form')
        return self.simple(n, ctx, [n.value, t] if not isinstance(t, ast.Name) else [n.value], force=True) + \
            self.kills(t, ctx)

    def s_Delete(self, n, ctx):
        out = []
        for t in n.targets:
            if isinstance(t, ast.Subscript) and self.is_environ(t.value):
                c = self.const(t.slice, ctx)
                if c is None:
                    self.unsup(n, ctx, 'del of a computed environment variable name')
                else:
                    out.append(['del', c])
            elif isinstance(t, ast.Name):
                out += self.kills(t, ctx)
            else:
                if self.mentions_environ(t):
                    self.unsup(n, ctx, 'environment write in an unsupported del form')
                out += self.simple(n, ctx, [], force=True)
        return out

    def s_Return(self, n, ctx):
        v = n.value
        root = ctx.root()
        if v is None or (isinstance(v, ast.Constant) and v.value is None):
            root.rets.append(('none',))
            return ([['setNone', ctx.ret_loc]] if ctx.ret_loc else []) + [['ret']]
        if ctx.ret_loc:
            pre = []
            val = self.value_of(v, ctx, pre) if isinstance(v, (ast.Tuple, ast.List, ast.ListComp, ast.GeneratorExp,
                                                               ast.Dict, ast.DictComp)) else OPAQUE
            if self.known(val) and val[0] in ('tuple', 'dict'):
                self.scan(v, ctx, {'risky': False, 'needs': [], 'popok': True})
                root.rets.append(val)
                return pre + [['ret']]
            ev = self.env_value(v, ctx)
            if ev:
                root.rets.append(OPAQUE)
                return self.bind_env(ctx.ret_loc, ev) + [['ret']]
            inl = self.call_stmt(v, n, ctx, ret_loc=ctx.ret_loc)
            if inl is not None:
                root.rets.append(OPAQUE)
                return inl + [['ret']]
            root.rets.append(OPAQUE)
            return self.simple(n, ctx, [v]) + [['kill', ctx.ret_loc, self.newid('value', n, ctx)], ['ret']]
        fnw = self.inlinable_call(v, ctx)
        if fnw is not None and fnw.name in (self.writers | self.deep):
            inl = self.call_stmt(v, n, ctx)
            if inl is not None:
                root.rets.append(OPAQUE)
                return inl + [['ret']]
        if ctx.inst is not None and isinstance(v, ast.Name) and v.id == ctx.inst['self']:
            root.rets.append(OPAQUE)
            return [['ret']]
        ev = self.env_value(v, ctx)
        if ev and ev[0] in ('popsave', 'popneed'):       # the value goes somewhere untracked, the effect stays
            root.rets.append(OPAQUE)
            return self.bind_env(self.fresh_loc(ctx, 'popped'), ev) + [['ret']]
        pre = []
        val = self.value_of(v, ctx, pre)
        if self.known(val) and val[0] in ('tuple', 'dict'):
            # records unsupported uses; the reads (and pops) themselves are in `pre`
            self.scan(v, ctx, {'risky': False, 'needs': [], 'popok': True})
            root.rets.append(val)
            return pre + [['ret']]
        root.rets.append(val if self.known(val) else OPAQUE)
        return self.simple(n, ctx, [v]) + [['ret']]

    def s_Raise(self, n, ctx):
        return self.simple(n, ctx, [n.exc, n.cause]) + [['raise']]

    def s_Assert(self, n, ctx):
        return self.simple(n, ctx, [n.test, n.msg], force=True)

    def s_Import(self, n, ctx):
        return self.simple(n, ctx, [], force=True) + self.kills(n, ctx)

    s_ImportFrom = s_Import

    def s_FunctionDef(self, n, ctx):
        return self.simple(n, ctx, list(n.decorator_list) + [d for d in n.args.defaults] +
                           [d for d in n.args.kw_defaults if d is not None]) + \
            self.kills(n, ctx, [ctx.prefix + n.name] if n.name in ctx.tracked else [])

    def s_ClassDef(self, n, ctx):
        return self.simple(n, ctx, [], force=True) + \
            self.kills(n, ctx, [ctx.prefix + n.name] if n.name in ctx.tracked else [])

    def s_If(self, n, ctx):
        test, neg = n.test, False
        while isinstance(test, ast.UnaryOp) and isinstance(test.op, ast.Not):
            test, neg = test.operand, not neg
        # `if c in os.environ: del os.environ[c]` is exactly os.environ.pop(c, None)
        if not neg and not n.orelse and len(n.body) == 1 and isinstance(n.body[0], ast.Delete) \
                and len(n.body[0].targets) == 1 and isinstance(test, ast.Compare) and len(test.ops) == 1 \
                and isinstance(test.ops[0], ast.In) and self.is_environ(test.comparators[0]):
            d = n.body[0].targets[0]
            c = self.const(test.left, ctx)
            if c is not None and isinstance(d, ast.Subscript) and self.is_environ(d.value) and self.const(d.slice, ctx) == c:
                return [['pop', c]]
        then, els = self.block(n.body, ctx), self.block(n.orelse, ctx)
        if isinstance(test, ast.Compare) and len(test.ops) == 1:
            op, a, b = test.ops[0], test.left, test.comparators[0]
            if isinstance(op, (ast.Is, ast.IsNot)):
                other = b if (isinstance(a, ast.Constant) and a.value is None) else \
                    (a if (isinstance(b, ast.Constant) and b.value is None) else None)
                if other is not None:
                    flip = neg != isinstance(op, ast.IsNot)
                    y = self.loc(other, ctx)
                    if y:
                        return [['ifNone', y, els, then] if flip else ['ifNone', y, then, els]]
                    if self.const(other, ctx) is not None:       # a string is never None
                        return [then if flip else els]
                    if isinstance(other, ast.Name) and ctx.subst.get(other.id) == ('none',):
                        return [els if flip else then]
            if isinstance(op, (ast.In, ast.NotIn)) and self.is_environ(b):
                c = self.const(a, ctx)
                if c is not None:
                    flip = neg != isinstance(op, ast.NotIn)
                    return [['ifSet', c, els, then] if flip else ['ifSet', c, then, els]]
        # the truth value of a saved location (a string or None) cannot raise
        # ... nor can an identity test (`x is None`, `a is not b`) of things that cannot raise
        identity = isinstance(test, ast.Compare) and all(isinstance(o, (ast.Is, ast.IsNot)) for o in test.ops)
        pre = [] if self.loc(test, ctx) else self.simple(n, ctx, [n.test], force=not identity)
        cid = self.newid('choice', n, ctx, anchor=n.lineno, then_line=n.body[0].lineno)
        return pre + [['choice', cid, then, els]]

    def unroll_values(self, n, ctx):
        """for <names> in (<literal>, ...) / in a name bound to such a tuple: the bindings of each round, or None"""
        tg = n.target
        names = [tg.id] if isinstance(tg, ast.Name) else \
            [e.id for e in tg.elts] if isinstance(tg, (ast.Tuple, ast.List)) and all(isinstance(e, ast.Name) for e in tg.elts) \
            else None
        if names is None:
            return None
        for b in n.body:
            for m in ast.walk(b):
                if isinstance(m, ast.Name) and not isinstance(m.ctx, ast.Load) and m.id in names:
                    return None
                if isinstance(m, (ast.Break, ast.Continue)):
                    return None
        if isinstance(n.iter, (ast.Tuple, ast.List)):
            for e in n.iter.elts:
                acc = {'risky': False, 'needs': []}
                self_unsup = len(self.unsupported)
                self.scan(e, ctx, acc)
                del self.unsupported[self_unsup:]
                if acc['risky'] or acc['needs']:
                    return None
            it = self.value_of(n.iter, ctx, [])
            it = it[1] if it[0] == 'tuple' else None
        else:
            # a name bound to a known tuple / list / dict (locally, by a parameter, at module level),
            # <known dict>.items() / .keys() / .values(), list() / tuple() / reversed() / sorted() of these
            it = self.iter_values(n.iter, ctx)
        if it is None:
            return None
        rounds = []
        for v in it:
            b = self.bind_target(tg, v)
            if b is None:
                return None
            rounds.append(b)
        return rounds

    def s_For(self, n, ctx):
        rounds = self.unroll_values(n, ctx)
        if rounds is not None:
            out = []
            outer = id(n) in self.unrolling
            self.unrolling.add(id(n))
            try:
                for r in rounds:
                    out.append(self.block(n.body, ctx.with_subst(r, (ctx.fn, n.body[0].lineno, self.serial(n)))))
            finally:
                if not outer:
                    self.unrolling.discard(id(n))
            return out + [self.block(n.orelse, ctx)]
        pre = self.simple(n, ctx, [n.iter], force=True)
        lid = self.newid('loop', n, ctx, body_line=n.body[0].lineno)
        body = seq(self.kills(n.target, ctx) + [self.block(n.body, ctx)])
        return pre + [['loop', lid, body], self.block(n.orelse, ctx)]

    def s_While(self, n, ctx):
        lid = self.newid('loop', n, ctx, body_line=n.body[0].lineno)
        body = seq(self.simple(n, ctx, [n.test], force=True) + [self.block(n.body, ctx)])
        return [['loop', lid, body]] + self.simple(n, ctx, [n.test], force=True) + [self.block(n.orelse, ctx)]

    def get_idiom(self, n, ctx):
        """try: x = os.environ[NAME]  except KeyError: x = None   (nothing else)  is  x = os.environ.get(NAME)"""
        if len(n.body) != 1 or len(n.handlers) != 1 or n.orelse or n.finalbody:
            return None
        a, h = n.body[0], n.handlers[0]
        if not (isinstance(h.type, ast.Name) and h.type.id == 'KeyError' and h.name is None and len(h.body) == 1):
            return None
        b = h.body[0]
        if not (isinstance(a, ast.Assign) and isinstance(b, ast.Assign) and len(a.targets) == 1 and len(b.targets) == 1):
            return None
        x, y = self.store_loc(a.targets[0], ctx), self.store_loc(b.targets[0], ctx)
        ev = self.env_value(a.value, ctx)
        if x and x == y and ev and ev[0] == 'load' and isinstance(b.value, ast.Constant) and b.value.value is None:
            return [['save', x, ev[1]]]
        return None

    def s_Try(self, n, ctx):
        idiom = self.get_idiom(n, ctx)
        if idiom is not None:
            return idiom
        body = self.block(n.body, ctx)
        if n.handlers:
            hs = []
            for h in n.handlers:
                k = self.kills(h, ctx, [ctx.prefix + h.name]) if (h.name and h.name in ctx.tracked) else []
                hs.append(seq(k + [self.block(h.body, ctx)]))
            hir = hs[-1]
            for h, ir in reversed(list(zip(n.handlers[:-1], hs[:-1]))):
                hid = self.newid('choice', h, ctx, anchor=n.body[0].lineno, then_line=h.body[0].lineno)
                hir = ['choice', hid, ir, hir]
            tid = self.newid('except', n, ctx, anchor=n.body[0].lineno,
                             handler_lines=[h.body[0].lineno for h in n.handlers])
            body = ['tryExcept', tid, body, hir]
        if n.orelse:
            self.notes.append('%s:%d: try/else over-approximated as try followed by else' % (ctx.fn, n.lineno))
            body = seq([body, self.block(n.orelse, ctx)])
        if n.finalbody:
            body = ['tryFinally', body, self.block(n.finalbody, ctx.final())]
        return [body]

    # ------------------------------------------------------------ with
    def class_methods(self, cls):
        return {m.name: m for m in cls.body if isinstance(m, ast.FunctionDef)}

    def with_class(self, cls, call, n, ctx, as_var, body_thunk):
        """`with C(args): body` for a same-module class C with __enter__ / __exit__"""
        ms = self.class_methods(cls)
        k = self.serial(cls)
        prefix = '%s#%d.' % (cls.name, k)
        # attribute slots: tracked when they receive an environment value / None-or-value / a helper's result
        assigned = {}
        for m in ms.values():
            selfname = m.args.args[0].arg if m.args.args else None
            for x in ast.walk(m):
                if isinstance(x, (ast.Assign, ast.AnnAssign)):
                    tg = x.targets if isinstance(x, ast.Assign) else [x.target]
                    for t in tg:
                        for y in ast.walk(t):
                            if isinstance(y, ast.Attribute) and isinstance(y.value, ast.Name) and y.value.id == selfname \
                                    and not isinstance(y.ctx, ast.Load):
                                assigned.setdefault(y.attr, []).append((m.name, x))
                elif isinstance(x, (ast.AugAssign, ast.Delete, ast.For, ast.With)):
                    for y in ast.walk(x):
                        if isinstance(y, ast.Attribute) and not isinstance(y.ctx, ast.Load) and \
                                isinstance(y.value, ast.Name) and y.value.id == selfname:
                            assigned.setdefault(y.attr, []).append((m.name, None))
        tracked = {a for a, ws in assigned.items()
                   if any(w is not None and w.value is not None and len(getattr(w, 'targets', [1])) == 1
                          and self.is_env_read_shape(w.value) for _, w in ws)}
        once = {a for a, ws in assigned.items() if len(ws) == 1 and ws[0][0] == '__init__' and a not in tracked}
        inst = {'self': None, 'prefix': prefix, 'tracked': tracked, 'consts': {}, 'once': once, 'cls': cls.name}
        # the instance must not escape: `self` is only used as `self.attr`, or returned by __enter__
        for m in ms.values():
            selfname = m.args.args[0].arg if m.args.args else None
            attr_bases = {id(y.value) for y in ast.walk(m) if isinstance(y, ast.Attribute)}
            for x in ast.walk(m):
                if isinstance(x, ast.Name) and x.id == selfname and id(x) not in attr_bases:
                    par_ok = any(isinstance(r, ast.Return) and r.value is x for r in ast.walk(m))
                    if not par_ok:
                        self.unsup(x, ctx, 'context-manager instance of %s escapes in %s' % (cls.name, m.name))
        if as_var is not None:
            used = any(isinstance(x, ast.Name) and x.id == as_var for s in n.body for x in ast.walk(s))
            if used:
                self.unsup(n, ctx, 'the `as` variable of the inlined context manager %s is used in the block' % cls.name)
        out = []
        acc = {'risky': False, 'needs': []}
        for a in list(call.args) + [kw.value for kw in call.keywords]:
            self.scan(a, ctx, acc)
        if acc['risky']:
            out.append(['fault', self.newid('fault', n, ctx)])
        out += [['need', v] for v in acc['needs']]

        def method(name, callnode):
            m = ms[name]
            i2 = dict(inst, self=m.args.args[0].arg if m.args.args else None)
            i2['consts'], i2['tracked'], i2['once'] = inst['consts'], inst['tracked'], inst['once']
            pre, body, _ = self.inline(m, callnode, n, ctx, qual='%s.%s' % (cls.name, name), inst=i2, skip_self=True)
            return pre + [body]
        if '__init__' in ms:
            out += method('__init__', call)
        elif call.args or call.keywords:
            out.append(['fault', self.newid('fault', n, ctx)])
        out += method('__enter__', None)
        exit_ir = seq(method('__exit__', None))
        swallow = any(isinstance(r, ast.Return) and r.value is not None and
                      not (isinstance(r.value, ast.Constant) and r.value.value in (False, None))
                      for r in ast.walk(ms['__exit__']))
        prot = ['tryFinally', body_thunk(), exit_ir]
        if swallow:
            prot = ['tryExcept', self.newid('with', n, ctx), prot, ['skip']]
        out.append(prot)
        return out

    def with_generator(self, fn, call, n, ctx, body_thunk):
        """`with g(args): body` for a same-module @contextmanager generator: its body with the
        `yield` statement replaced by the block"""
        state = {}

        def thunk():
            b = body_thunk()
            state['ret'] = any(x[0] == 'ret' for x in walk_ir(b))
            return b
        acc = {'risky': False, 'needs': []}
        for a in list(call.args) + [kw.value for kw in call.keywords]:
            self.scan(a, ctx, acc)
        out = []
        if acc['risky']:
            out.append(['fault', self.newid('fault', n, ctx)])
        out += [['need', v] for v in acc['needs']]
        for x in ast.walk(fn):
            if isinstance(x, (ast.Yield, ast.YieldFrom)):
                par_ok = any(isinstance(s, ast.Expr) and s.value is x for s in ast.walk(fn))
                if not par_ok or isinstance(x, ast.YieldFrom):
                    self.unsup(x, ctx, 'context-manager generator %s uses the value of yield / yield from' % fn.name)
        pre, body, _ = self.inline(fn, call, n, ctx, yield_body=thunk)
        if state.get('ret'):
            self.unsup(n, ctx, 'return inside a block guarded by the generator context manager %s' % fn.name)
        return out + pre + [body]

    def s_With(self, n, ctx, k=0):
        if k >= len(n.items):
            return [self.block(n.body, ctx)]
        it = n.items[k]
        rest = lambda: seq(self.s_With(n, ctx, k + 1))
        e = it.context_expr
        as_var = it.optional_vars.id if isinstance(it.optional_vars, ast.Name) else None
        if isinstance(e, ast.Call) and isinstance(e.func, ast.Name):
            cls = self.classes.get(e.func.id)
            fn = self.funcs.get(e.func.id)
            if cls is not None and {'__enter__', '__exit__'} <= set(self.class_methods(cls)) and \
                    (self.mentions_environ(cls) or cls.name in self.writer_classes):
                if it.optional_vars is not None and as_var is None:
                    self.unsup(n, ctx, 'unpacking the value of an inlined context manager')
                out = self.with_class(cls, e, n, ctx, as_var, rest)
                return out[:-1] + (self.kills(it.optional_vars, ctx) if it.optional_vars is not None else []) + out[-1:]
            if fn is not None and self.is_cm_generator(fn) and (self.mentions_environ(fn) or fn.name in self.writers):
                if fn.name in ctx.stack:
                    self.unsup(n, ctx, 'recursive use of the context manager %s' % fn.name)
                else:
                    return self.with_generator(fn, e, n, ctx, rest)
        out = self.simple(n, ctx, [e], force=True)
        if it.optional_vars is not None:
            if self.mentions_environ(it.optional_vars):
                self.unsup(n, ctx, 'environment write in a with target')
            out += self.kills(it.optional_vars, ctx)
        wid = self.newid('with', n, ctx)
        out.append(['tryExcept', wid, rest(), ['skip']])
        out.append(['fault', self.newid('fault', n, ctx, exit=True)])
        return out


class RestoreScan:
    """Syntactic recognition of restore code, independent of whether the translation to the IR succeeded.

    Restore context = the body of a `finally:`, the body of an `__exit__` method, the part of a @contextmanager
    generator that runs after its `yield` (following statements, and the handlers / else / finally of a `try`
    around the yield), and the body of a same-module function that touches os.environ and is called from restore
    context.  In restore context the following are restore code (the fault injector never raises at their lines):
      * a simple statement that writes os.environ (whatever its value expression is: evaluating the value being put
        back belongs to the restore);
      * a statement that only touches os.environ and local names (PURE: names, constants, os.environ[...] / its
        methods, entries and views of local dicts, attributes of `self`, identity / equality / membership tests,
        arithmetic, displays and comprehensions of these, list/tuple/dict/sorted/reversed/len/str of these, calls of same-module
        helpers that touch os.environ with such arguments), including compound statements all of whose parts are PURE;
      * the head (test / iterable) of an `if` / `for` / `while` that is not PURE as a whole, when the head is PURE -
        its blocks are scanned statement by statement, so a collaborator call inside a `finally` (flist.close())
        stays injectable.
    Everywhere: all lines of a helper that syntactically only reads / writes os.environ and locals (PURE-ENV), and
    the head of an `if` / `for` / `while` that is PURE as a whole and writes os.environ (an environment idiom such as
    `for name in names: del os.environ[name]`: the head is revisited between two writes and cannot raise).
    `lines` = set of (function name as in code.co_name, line number)."""

    BUILTINS = ('dict', 'list', 'tuple', 'sorted', 'reversed', 'len', 'iter', 'str', 'bool', 'set', 'frozenset',
                'zip', 'enumerate', 'isinstance')
    METHODS = ('items', 'keys', 'values', 'get', 'copy') + tuple(STRMETH)

    def __init__(self, tr):
        self.tr = tr
        self.lines = set()
        self.why = {}
        self.queued = []
        self.done = set()
        funcs = [(f, None) for f in tr.funcs.values()]
        for c in tr.classes.values():
            funcs += [(m, c) for m in c.body if isinstance(m, ast.FunctionDef)]
        self.allfuncs = funcs
        self.containers = {}
        for fn, _ in funcs:
            self.containers.setdefault(fn.name, set()).update(self.container_names(fn))
        self.cur = None
        self.queue_ok = False
        for fn, cls in funcs:
            # environment idiom in any context: an if / for / while that is PURE as a whole and writes os.environ -
            # its head is visited between two environment writes and cannot raise
            selfname = fn.args.args[0].arg if (cls is not None and fn.args.args) else None
            for n in ast.walk(fn):
                if isinstance(n, (ast.If, ast.For, ast.While)) and any(self.env_write(m) for m in ast.walk(n)):
                    self.cur = self.owner(n, fn)
                    if self.pure_stmt(n, selfname if self.cur == fn.name else None):
                        self.mark(self.cur, n.lineno, (n.iter if isinstance(n, ast.For) else n.test).end_lineno,
                                  'head of an environment idiom')
        self.queue_ok = True
        for fn, cls in funcs:
            selfname = fn.args.args[0].arg if (cls is not None and fn.args.args) else None
            if cls is None and tr.syntactic_pure_env(fn) and tr.mentions_environ(fn):
                for s in body_of(fn):
                    self.mark(fn.name, s.lineno, s.end_lineno, 'pure-env helper')
            if cls is not None and fn.name == '__exit__':
                self.block(fn.body, fn.name, selfname)
            if tr.is_cm_generator(fn):
                self.after_yield(fn)
            for n in ast.walk(fn):
                if isinstance(n, ast.Try) and n.finalbody:
                    self.block(n.finalbody, self.owner(n, fn), selfname)
        while self.queued:
            fn = self.queued.pop()
            if id(fn) in self.done:
                continue
            self.done.add(id(fn))
            self.block(fn.body, fn.name, None)

    def container_names(self, fn):
        """locals that (may) hold a plain tuple / list / dict / string of saved values: parameters, and names assigned
        from a display, a comprehension, dict()/list()/tuple()/sorted(), an os.environ read, a same-module helper"""
        tr = self.tr
        out = {a.arg for a in fn.args.posonlyargs + fn.args.args + fn.args.kwonlyargs}
        for n in ast.walk(fn):
            if isinstance(n, (ast.Assign, ast.AnnAssign)) and n.value is not None:
                v = n.value
                ok = isinstance(v, (ast.Dict, ast.DictComp, ast.List, ast.ListComp, ast.Tuple, ast.Constant)) or \
                    tr.is_env_read_shape(v) or \
                    (isinstance(v, ast.Call) and isinstance(v.func, ast.Name) and
                     (v.func.id in ('dict', 'list', 'tuple', 'sorted') or v.func.id in tr.inlinable))
                if ok:
                    for t in (n.targets if isinstance(n, ast.Assign) else [n.target]):
                        if isinstance(t, ast.Name):
                            out.add(t.id)
            elif isinstance(n, (ast.For, ast.comprehension)):
                for t in ast.walk(n.target):
                    if isinstance(t, ast.Name):
                        out.add(t.id)
        return out

    def owner(self, node, default):
        """name of the innermost function containing the node (the co_name of its LINE events)"""
        p = self.tr.up.get(id(node))
        while p is not None and not isinstance(p, (ast.FunctionDef, ast.AsyncFunctionDef)):
            p = self.tr.up.get(id(p))
        return p.name if p is not None else default.name

    def mark(self, func, a, b, why):
        for l in range(a, (b or a) + 1):
            self.lines.add((func, l))
            self.why.setdefault((func, l), why)

    def after_yield(self, fn):
        for y in ast.walk(fn):
            if not (isinstance(y, ast.Expr) and isinstance(y.value, (ast.Yield, ast.YieldFrom))):
                continue
            child, p = y, self.tr.up.get(id(y))
            while p is not None:
                for fld in ('body', 'orelse', 'finalbody'):
                    blk = getattr(p, fld, None)
                    if isinstance(blk, list) and child in blk:
                        self.block(blk[blk.index(child) + 1:], fn.name, None)
                        if isinstance(p, ast.Try) and fld == 'body':
                            for h in p.handlers:
                                self.block(h.body, fn.name, None)
                            self.block(p.orelse, fn.name, None)
                            self.block(p.finalbody, fn.name, None)
                if p is fn:
                    break
                child, p = p, self.tr.up.get(id(p))

    # ---------------------------------------------------------------- purity
    def pure(self, e, selfname):
        tr = self.tr
        if e is None or isinstance(e, (ast.Constant, ast.Name)) or tr.is_environ(e):
            return True
        P = lambda x: self.pure(x, selfname)
        if isinstance(e, ast.Attribute):
            return isinstance(e.value, ast.Name) and selfname is not None and e.value.id == selfname
        if isinstance(e, ast.Subscript):
            return (tr.is_environ(e.value) or
                    (isinstance(e.value, ast.Name) and e.value.id in self.containers.get(self.cur, ())) or
                    (isinstance(e.value, ast.Attribute) and P(e.value))) and P(e.slice)
        if isinstance(e, ast.Call):
            args = list(e.args) + [k.value for k in e.keywords]
            if not all(P(a.value if isinstance(a, ast.Starred) else a) for a in args):
                return False
            f = e.func
            if isinstance(f, ast.Attribute):
                if tr.is_environ(f.value) or tr.is_os_call(e, ('getenv',)):
                    return True
                if f.attr not in self.METHODS:
                    return False
                if isinstance(f.value, ast.Name):
                    return f.value.id in self.containers.get(self.cur, ())
                return isinstance(f.value, ast.Constant) or (isinstance(f.value, ast.Attribute) and P(f.value))
            if isinstance(f, ast.Name):
                if f.id in tr.funcs and (f.id in tr.inlinable or tr.syntactic_pure_env(tr.funcs[f.id])):
                    if not tr.is_cm_generator(tr.funcs[f.id]):
                        if self.queue_ok:
                            self.queued.append(tr.funcs[f.id])
                        return True
                return f.id in self.BUILTINS and f.id not in tr.funcs and f.id not in tr.classes
            return False
        if isinstance(e, ast.Compare):
            return all(P(x) for x in [e.left] + list(e.comparators))
        if isinstance(e, ast.BoolOp):
            return all(P(x) for x in e.values)
        if isinstance(e, ast.UnaryOp):
            return P(e.operand)
        if isinstance(e, ast.BinOp):
            return P(e.left) and P(e.right)       # arithmetic / concatenation of locals and constants (k + 1)
        if isinstance(e, ast.IfExp):
            return P(e.test) and P(e.body) and P(e.orelse)
        if isinstance(e, (ast.Tuple, ast.List, ast.Set)):
            return all(P(x) for x in e.elts)
        if isinstance(e, ast.Dict):
            return all(P(x) for x in list(e.keys) + list(e.values))
        if isinstance(e, ast.Starred):
            return P(e.value)
        if isinstance(e, ast.NamedExpr):
            return P(e.value)
        if isinstance(e, ast.JoinedStr):
            return all(P(x) for x in e.values)
        if isinstance(e, ast.FormattedValue):
            return P(e.value) and P(e.format_spec)
        if isinstance(e, (ast.ListComp, ast.SetComp, ast.GeneratorExp, ast.DictComp)):
            parts = [e.key, e.value] if isinstance(e, ast.DictComp) else [e.elt]
            for g in e.generators:
                if g.is_async or not self.simple_target(g.target, selfname):
                    return False
                parts += [g.iter] + list(g.ifs)
            return all(P(x) for x in parts)
        return False

    def simple_target(self, t, selfname):
        if isinstance(t, ast.Name):
            return True
        if isinstance(t, (ast.Tuple, ast.List)):
            return all(self.simple_target(x, selfname) for x in t.elts)
        if isinstance(t, ast.Starred):
            return self.simple_target(t.value, selfname)
        if isinstance(t, (ast.Attribute, ast.Subscript)):
            return self.pure(t, selfname)
        return False

    def env_write(self, s):
        """a simple statement that writes os.environ"""
        tr = self.tr
        if isinstance(s, (ast.Assign, ast.AugAssign, ast.AnnAssign, ast.Delete)):
            tg = s.targets if isinstance(s, (ast.Assign, ast.Delete)) else [s.target]
            if any(isinstance(t, ast.Subscript) and tr.is_environ(t.value) for t in tg):
                return True
        v = getattr(s, 'value', None) if isinstance(s, (ast.Expr, ast.Assign, ast.AnnAssign)) else None
        return isinstance(v, ast.Call) and isinstance(v.func, ast.Attribute) and tr.is_environ(v.func.value) \
            and v.func.attr in MUTATORS

    def pure_stmt(self, s, selfname):
        P = lambda x: self.pure(x, selfname)
        B = lambda b: all(self.pure_stmt(x, selfname) for x in b)
        if isinstance(s, (ast.Pass, ast.Global, ast.Nonlocal, ast.Break, ast.Continue)):
            return True
        if self.env_write(s) and self.queue_ok:
            return True                   # (restore context only: evaluating the value put back belongs to the restore)
        if isinstance(s, ast.Expr):
            return P(s.value)
        if isinstance(s, ast.Assign):
            return P(s.value) and all(self.simple_target(t, selfname) for t in s.targets)
        if isinstance(s, ast.AnnAssign):
            return P(s.value) and self.simple_target(s.target, selfname)
        if isinstance(s, ast.AugAssign):
            return P(s.value) and self.simple_target(s.target, selfname)
        if isinstance(s, ast.Delete):
            return all(self.simple_target(t, selfname) for t in s.targets)
        if isinstance(s, ast.Return):
            return P(s.value)
        if isinstance(s, (ast.If, ast.While)):
            return P(s.test) and B(s.body) and B(s.orelse)
        if isinstance(s, ast.For):
            return P(s.iter) and self.simple_target(s.target, selfname) and B(s.body) and B(s.orelse)
        if isinstance(s, ast.Try):
            return B(s.body) and B(s.orelse) and B(s.finalbody) and \
                all((h.type is None or P(h.type)) and B(h.body) for h in s.handlers)
        return False

    # ---------------------------------------------------------------- marking
    def block(self, stmts, func, selfname):
        self.cur = func
        for s in stmts:
            if isinstance(s, (ast.FunctionDef, ast.AsyncFunctionDef, ast.ClassDef)):
                continue
            if self.pure_stmt(s, selfname):
                self.mark(func, s.lineno, s.end_lineno, 'restore statement')
                continue
            if isinstance(s, (ast.If, ast.While)):
                if self.pure(s.test, selfname):
                    self.mark(func, s.lineno, s.test.end_lineno, 'head around restore code')
                self.block(s.body, func, selfname)
                self.block(s.orelse, func, selfname)
            elif isinstance(s, ast.For):
                if self.pure(s.iter, selfname) and self.simple_target(s.target, selfname):
                    self.mark(func, s.lineno, s.iter.end_lineno, 'head around restore code')
                self.block(s.body, func, selfname)
                self.block(s.orelse, func, selfname)
            elif isinstance(s, ast.Try):
                self.block(s.body, func, selfname)
                for h in s.handlers:
                    self.block(h.body, func, selfname)
                self.block(s.orelse, func, selfname)
                self.block(s.finalbody, func, selfname)
            elif isinstance(s, (ast.With, ast.AsyncWith)):
                self.block(s.body, func, selfname)


def restore_lines(tr):
    """(function name, line) pairs at which the fault injector must never raise; see RestoreScan"""
    return RestoreScan(tr).lines if tr is not None else set()


def env_writer_census(pkg_root):
    """every function of the package (tests excluded) that writes os.environ syntactically"""
    import pathlib
    found = []
    for f in sorted(pathlib.Path(pkg_root).rglob('*.py')):
        if 'tests' in f.parts:
            continue
        try:
            tr = Translator(f)
        except SyntaxError:
            continue
        for n in ast.walk(tr.tree):
            if isinstance(n, (ast.FunctionDef, ast.AsyncFunctionDef)) and tr.writes_env(n):
                # innermost only
                if not any(isinstance(m, (ast.FunctionDef, ast.AsyncFunctionDef)) and m is not n and tr.writes_env(m)
                           for m in ast.walk(n)):
                    found.append((str(f.relative_to(pkg_root)), n.name))
        body_level = [s for s in tr.tree.body if not isinstance(s, (ast.FunctionDef, ast.AsyncFunctionDef, ast.ClassDef))]
        if any(tr.writes_env(s) for s in body_level):
            found.append((str(f.relative_to(pkg_root)), '<module>'))
    return found


def called_names(fn):
    out = set()
    for n in ast.walk(fn):
        if isinstance(n, ast.Call):
            if isinstance(n.func, ast.Name):
                out.add(n.func.id)
            elif isinstance(n.func, ast.Attribute):
                out.add(n.func.attr)
    return out


def translate_deep(path, func, limit=6):
    """extension round: like translate(), but EVERY same-module function that mentions os.environ (also the big read-only
    stages: readspec, spec_path, number_of_fibers, ...) is inlined as a `scope` wherever the entry point or an inlined callee
    calls it in a statement of its own (`x = f(..)` / `f(..)`), recursively (the translator's call stack is the visited set;
    a recursive call is an ordinary fault point).  A callee whose body leaves the translatable fragment is taken out again
    and the translation repeated (at most `limit` times): it stays a named assumption (census).  Returns
    (translator, ir, names inlined on top of translate(), names given up)."""
    gave_up = []
    for _ in range(limit):
        tr = Translator(path)
        if func not in tr.funcs:
            return translate(path, func) + ([], gave_up)
        base = set(tr.inlinable)
        deep = {k for k, f in tr.funcs.items() if k != func and k not in base and k not in gave_up
                and tr.mentions_environ(f) and not tr.is_cm_generator(f)}
        tr.inlinable = base | deep
        tr.deep = deep
        ir = tr.function(func)
        bad = sorted({u['func'] for u in tr.unsupported if u['func'] in deep})
        if not bad:
            return tr, ir, sorted(deep & {q.split('.')[0] for q in tr.inlined}), gave_up
        gave_up += bad
    return tr, ir, sorted(deep & {q.split('.')[0] for q in tr.inlined}), gave_up


def translate(path, func):
    """IR of one module-level function (callees / context managers of the same module that touch os.environ inlined)"""
    tr = Translator(path)
    if func not in tr.funcs:
        tr.unsup(tr.tree, Ctx(func, '', set(), {}, ()), 'function %s not found in %s' % (func, path))
        return tr, ['fault', 0]
    ir = tr.function(func)
    return tr, ir


HEADER = '''/- GENERATED on every run by harness/xlate/c20_envir.py from the Python sources named below.
   Do not edit; not under version control. -/
import PydlVerif.Model.EnvIR
namespace PydlVerif.Gen.C20
open PydlVerif.EnvIR PydlVerif.EnvIR.Stmt

'''


def emit(progs):
    """progs: list of dict(name, ir, vars, source, unsupported).  Returns (text, {theorem: line})"""
    lines = HEADER.splitlines()
    where = {}
    for p in progs:
        lines.append('/-- IR of %s -/' % p['source'])
        lines.append('def %s : Stmt :=' % p['name'])
        lines.append('  ' + lean(p['ir']))
        lines.append('')
        for u in p['unsupported']:
            lines.append('-- not translatable: %s:%d %s' % (u['func'], u['line'], u['msg']))
        lines.append('/-- number of constructs outside the translatable fragment -/')
        where[p['name'] + '_translated'] = len(lines) + 1
        lines.append('theorem %s_translated : (%d : Nat) = 0 := by decide' % (p['name'], len(p['unsupported'])))
        vs = '[' + ', '.join('"%s"' % v for v in p['vars']) + ']'
        where[p['name'] + '_restores'] = len(lines) + 1
        lines.append('theorem %s_restores : restores %s %s = true := by decide' % (p['name'], p['name'], vs))
        lines.append('')
    lines.append('end PydlVerif.Gen.C20')
    return '\n'.join(lines) + '\n', where


# ---------------------------------------------------------------- transitive census of in-package callees (extension round)
def _resolve_import(pkg_root, relfile, node, alias):
    """file (relative to the package root) and name a `from <mod> import <name>` of relfile refers to, or None when it is not
    inside the package"""
    import pathlib
    parts = list(pathlib.PurePosixPath(relfile).parts[:-1])         # package path of the importing module
    if pathlib.PurePosixPath(relfile).name == '__init__.py':
        pass
    if node.level:
        base = parts[:len(parts) - (node.level - 1)] if node.level > 1 else parts
        if node.level - 1 > len(parts):
            return None
    else:
        mod = (node.module or '').split('.')
        if mod[0] != pathlib.Path(pkg_root).name:
            return None
        base, node_mod = [], mod[1:]
        for cand in ('/'.join(base + node_mod) + '.py', '/'.join(base + node_mod + ['__init__.py'])):
            if (pathlib.Path(pkg_root) / cand).is_file():
                return cand, alias.name
        return None
    mod = (node.module or '').split('.') if node.module else []
    for cand in ('/'.join(base + mod) + '.py', '/'.join(base + mod + ['__init__.py'])):
        if cand != '.py' and (pathlib.Path(pkg_root) / cand).is_file():
            return cand, alias.name
    # `from . import name` where name is a sub-module: not a function
    return None


def transitive_callees(pkg_root, relfile, func, inlined=(), depth=8):
    """every function defined inside the package that is reachable from `func` of `relfile` through calls by plain name
    (same module, `from .. import name`, re-exports through an __init__ one level), followed recursively with a visited set
    and a depth limit.  Returns (rows, unresolved, cut): rows = [{'file', 'func', 'depth', 'via', 'effect', 'reads'}] with
    effect in 'translated' (inlined into the IR as a scope) | 'writes' (writes os.environ and is NOT in the IR) |
    'reads' (only looks variables up: in the IR this is the fault point of the call statement) | 'neutral';
    cut = functions at the depth limit whose callees were not followed."""
    import pathlib
    pkg_root = pathlib.Path(pkg_root)
    cache = {}

    def module(rel):
        if rel not in cache:
            try:
                tr = Translator(pkg_root / rel)
            except (SyntaxError, OSError):
                tr = None
            imports = {}
            if tr is not None:
                for n in ast.walk(tr.tree):
                    if isinstance(n, ast.ImportFrom):
                        for a in n.names:
                            r = _resolve_import(pkg_root, rel, n, a)
                            if r is not None:
                                imports[a.asname or a.name] = r
            cache[rel] = (tr, imports)
        return cache[rel]

    def lookup(rel, name, hops=0):
        tr, imports = module(rel)
        if tr is None:
            return None
        if name in tr.funcs:
            return rel, tr.funcs[name], tr
        if name in tr.classes:
            return rel, tr.classes[name], tr
        if name in imports and hops < 3:
            return lookup(imports[name][0], imports[name][1], hops + 1)
        return None

    rows, cut, seen = [], [], set()
    todo = [(relfile, func, 0, None)]
    while todo:
        rel, name, d, via = todo.pop(0)
        hit = lookup(rel, name)
        if hit is None:
            continue
        rel, node, tr = hit
        if (rel, node.name) in seen:
            continue
        seen.add((rel, node.name))
        if d > 0:
            if rel == relfile and node.name in {q.split('.')[0] for q in inlined}:
                effect = 'translated'
            elif tr.writes_env(node):
                effect = 'writes'
            elif tr.mentions_environ(node):
                effect = 'reads'
            else:
                effect = 'neutral'
            reads = sorted({n.slice.value for n in ast.walk(node) if isinstance(n, ast.Subscript) and tr.is_environ(n.value)
                            and isinstance(n.slice, ast.Constant) and isinstance(n.slice.value, str)} |
                           {n.args[0].value for n in ast.walk(node) if isinstance(n, ast.Call) and n.args
                            and isinstance(n.args[0], ast.Constant) and isinstance(n.args[0].value, str)
                            and ((isinstance(n.func, ast.Attribute) and tr.is_environ(n.func.value)) or tr.is_os_call(n, ('getenv',)))})
            rows.append({'file': rel, 'func': node.name, 'depth': d, 'via': via, 'effect': effect, 'reads': reads})
        if d >= depth:
            cut.append('%s:%s' % (rel, node.name))
            continue
        for n in ast.walk(node):
            if isinstance(n, ast.Call) and isinstance(n.func, ast.Name):
                todo.append((rel, n.func.id, d + 1, node.name))
    return rows, cut

"""Python AST -> effect IR (lean/PydlVerif/Model/EnvIR.lean) for property C20.

Keeps of a function only: control flow, its effects on os.environ, and the locals
in which environment values are saved.  Everything else that may raise (call,
subscript, attribute access, operator, truth test, unpacking, import, iteration)
becomes a `fault` point; every other test an oracle `choice`.  The translation is
conservative; a construct that cannot be translated soundly is recorded in
`unsupported` and makes the regenerated obligation `<prog>_translated` fail.

Same-module callees that touch os.environ are inlined (`scope`), with their parameters
bound to the literal arguments of the call (names of variables as string literals, tuples
of literals, saved locals), their `return os.environ[...]`/`.get(...)` bound to the target
of the call, structured return values ((name, saved value) pairs) propagated to the caller;
`with <same-module context manager>` (class with __enter__/__exit__, or a
@contextmanager generator) is inlined as enter ... tryFinally(body, exit).  A helper
whose inlined body has no fault point is PURE-ENV: calling it is not a fault point.

IR nodes are JSON lists: ["seq", a, b], ["fault", id], ["need", "VAR"], ...
`meta[id]` records for every point id its kind and source lines, so that the
fault-injection harness can map events of the real run to oracle decisions.
"""
import ast

MUTATORS = ('pop', 'update', 'clear', 'setdefault', 'popitem', '__setitem__', '__delitem__')
READERS = ('copy', 'keys', 'values', 'items')
STRMETH = {'upper': str.upper, 'lower': str.lower, 'strip': str.strip, 'title': str.title,
           'capitalize': str.capitalize}
OPAQUE = ('opaque',)


def seq(items):
    """balanced seq of IR nodes (seq is associative in the semantics); drops skips"""
    flat = [i for i in items if i != ['skip']]
    if not flat:
        return ['skip']
    if len(flat) == 1:
        return flat[0]
    h = len(flat) // 2
    return ['seq', seq(flat[:h]), seq(flat[h:])]


def lean(ir):
    """Lean source of an IR node; must equal `EnvIR.render` on the parsed JSON form"""
    tag = ir[0]
    if tag in ('skip', 'raise', 'ret'):
        return tag
    parts = []
    for a in ir[1:]:
        if isinstance(a, list):
            parts.append(lean(a))
        elif isinstance(a, str):
            assert '"' not in a and '\\' not in a, a
            parts.append('"%s"' % a)
        else:
            parts.append(str(int(a)))
    return '(%s %s)' % (tag, ' '.join(parts))


def walk_ir(ir):
    yield ir
    for a in ir[1:]:
        if isinstance(a, list):
            yield from walk_ir(a)


def has_fault(ir):
    """does the IR contain anything but environment effects on saved values (PURE-ENV test)"""
    return any(n[0] in ('fault', 'raise', 'choice', 'loop', 'tryExcept', 'kill', 'setExpr') for n in walk_ir(ir))


def body_of(fn):
    """statements of a function without the docstring"""
    b = fn.body
    if b and isinstance(b[0], ast.Expr) and isinstance(b[0].value, ast.Constant) and isinstance(b[0].value.value, str):
        b = b[1:]
    return b


class Ctx:
    def __init__(self, fn, prefix, tracked, subst, stack, round=None, ret_loc=None, inst=None, bindable=()):
        self.fn, self.prefix, self.tracked, self.subst, self.stack = fn, prefix, tracked, subst, stack
        self.round = round        # (function, first line, serial) of the innermost unrolled-loop / inlined copy
        self.ret_loc = ret_loc    # caller's location that receives `return <environment value>`
        self.inst = inst          # instance of a context-manager class being inlined
        self.bindable = bindable  # names assigned exactly once, at the top level of the function body
        self.rets = []            # structured values of the return statements
        self.yield_body = None    # thunk: IR of the `with` body, for a @contextmanager generator
        self.yields = 0
        self.in_final = False     # inside a `finally` block / __exit__ / a helper called from there
        self.pure_env = False     # inside a helper that syntactically only reads/writes os.environ and locals
        self.top_stmts = ()

    def with_subst(self, extra, round):
        s = dict(self.subst)
        s.update(extra)
        c = Ctx(self.fn, self.prefix, self.tracked, s, self.stack, round, self.ret_loc, self.inst, self.bindable)
        c.rets, c.yield_body = self.rets, self.yield_body
        c.in_final, c.pure_env = self.in_final, self.pure_env
        c.parent = self
        return c

    def final(self):
        c = self.with_subst({}, self.round)
        c.in_final = True
        return c

    def root(self):
        c = self
        while getattr(c, 'parent', None) is not None:
            c = c.parent
        return c


class Translator:
    def __init__(self, path, src=None):
        self.path = str(path)
        self.src = src if src is not None else open(path).read()
        self.tree = ast.parse(self.src)
        self.funcs = {n.name: n for n in self.tree.body if isinstance(n, ast.FunctionDef)}
        self.classes = {n.name: n for n in self.tree.body if isinstance(n, ast.ClassDef)}
        self.os_names, self.environ_names = set(), set()
        for n in ast.walk(self.tree):
            if isinstance(n, ast.Import):
                for a in n.names:
                    if a.name == 'os':
                        self.os_names.add(a.asname or 'os')
            elif isinstance(n, ast.ImportFrom) and n.module == 'os':
                for a in n.names:
                    if a.name == 'environ':
                        self.environ_names.add(a.asname or 'environ')
        self.nid = 0
        self.meta = {}
        self.unsupported = []
        self.notes = []
        self.inlined = set()        # names of inlined functions, 'Class.method' for methods
        self.copies = {}
        self.fresh = 0
        # functions that write the environment, directly or through same-module callees / context managers
        writers = {k for k, f in self.funcs.items() if self.writes_env(f)}
        wclasses = {k for k, c in self.classes.items() if self.writes_env(c)}
        changed = True
        while changed:
            changed = False
            for k, f in list(self.funcs.items()) + list(self.classes.items()):
                if k in writers or k in wclasses:
                    continue
                for n in ast.walk(f):
                    if isinstance(n, ast.Call) and isinstance(n.func, ast.Name) and \
                            (n.func.id in writers or n.func.id in wclasses):
                        (writers if k in self.funcs else wclasses).add(k)
                        changed = True
                        break
        self.writers, self.writer_classes = writers, wclasses
        # small read-only helpers: mention os.environ, call nothing but os.environ methods,
        # other such helpers, and exception constructors inside `raise`
        self.readers = set()
        changed = True
        while changed:
            changed = False
            for k, f in self.funcs.items():
                if k in writers or k in self.readers or not self.mentions_environ(f) or self.is_cm_generator(f):
                    continue
                if self.only_env_calls(f):
                    self.readers.add(k)
                    changed = True
        self.inlinable = writers | self.readers

    # ------------------------------------------------------------ recognisers
    def is_environ(self, n):
        if isinstance(n, ast.Attribute) and n.attr == 'environ' and isinstance(n.value, ast.Name) \
                and n.value.id in self.os_names:
            return True
        return isinstance(n, ast.Name) and n.id in self.environ_names

    def is_os_call(self, n, names):
        return (isinstance(n, ast.Call) and isinstance(n.func, ast.Attribute) and n.func.attr in names
                and isinstance(n.func.value, ast.Name) and n.func.value.id in self.os_names)

    def writes_env(self, fn):
        for n in ast.walk(fn):
            if isinstance(n, ast.Subscript) and self.is_environ(n.value) and not isinstance(n.ctx, ast.Load):
                return True
            if isinstance(n, ast.Call) and isinstance(n.func, ast.Attribute) and self.is_environ(n.func.value) \
                    and n.func.attr in MUTATORS:
                return True
            if self.is_os_call(n, ('putenv', 'unsetenv')):
                return True
        return False

    def mentions_environ(self, node):
        return any(self.is_environ(n) or self.is_os_call(n, ('putenv', 'unsetenv')) for n in ast.walk(node))

    def is_cm_generator(self, fn):
        for d in getattr(fn, 'decorator_list', []):
            if (isinstance(d, ast.Name) and d.id == 'contextmanager') or \
                    (isinstance(d, ast.Attribute) and d.attr == 'contextmanager'):
                return True
        return False

    def only_env_calls(self, fn):
        in_raise = set()
        for n in ast.walk(fn):
            if isinstance(n, ast.Raise):
                for m in ast.walk(n):
                    in_raise.add(id(m))
        for n in ast.walk(fn):
            if isinstance(n, ast.Call) and id(n) not in in_raise:
                if isinstance(n.func, ast.Attribute) and self.is_environ(n.func.value):
                    continue
                if isinstance(n.func, ast.Name) and n.func.id in self.readers:
                    continue
                if isinstance(n.func, ast.Attribute) and n.func.attr in STRMETH:
                    continue
                return False
            if isinstance(n, (ast.Yield, ast.YieldFrom, ast.Await)):
                return False
        return True

    def syntactic_pure_env(self, fn, seen=()):
        """body = os.environ reads/writes, local assignments, if / for, return, calls of other such helpers -
        nothing that raises on purpose, nothing foreign that is called"""
        if self.is_cm_generator(fn) or fn.name in seen:
            return False
        for n in ast.walk(fn):
            if isinstance(n, (ast.Raise, ast.Try, ast.With, ast.While, ast.Import, ast.ImportFrom, ast.Assert,
                              ast.BinOp, ast.AugAssign, ast.Yield, ast.YieldFrom, ast.Await)):
                return False
            if isinstance(n, ast.Attribute) and not self.is_environ(n) and not self.is_environ(n.value) \
                    and not (isinstance(n.value, ast.Name) and n.value.id == 'self'):
                return False
            if isinstance(n, ast.Subscript) and not self.is_environ(n.value):
                return False
            if isinstance(n, ast.Call):
                if isinstance(n.func, ast.Attribute) and self.is_environ(n.func.value):
                    continue
                if isinstance(n.func, ast.Name) and n.func.id in self.funcs and \
                        self.syntactic_pure_env(self.funcs[n.func.id], seen + (fn.name,)):
                    continue
                return False
        return True

    def attr_key(self, n, ctx):
        """'self.attr' for an attribute of the context-manager instance being inlined"""
        if ctx.inst is not None and isinstance(n, ast.Attribute) and isinstance(n.value, ast.Name) \
                and n.value.id == ctx.inst['self']:
            return n.attr
        return None

    def const(self, n, ctx):
        """constant-fold a string expression, None if it is not a compile-time string"""
        if isinstance(n, ast.Constant) and isinstance(n.value, str):
            return n.value
        if isinstance(n, ast.Name) and n.id in ctx.subst and ctx.subst[n.id][0] == 'const':
            return ctx.subst[n.id][1]
        a = self.attr_key(n, ctx)
        if a is not None and ctx.inst['consts'].get(a, OPAQUE)[0] == 'const':
            return ctx.inst['consts'][a][1]
        if isinstance(n, ast.BinOp) and isinstance(n.op, ast.Add):
            a, b = self.const(n.left, ctx), self.const(n.right, ctx)
            if a is not None and b is not None:
                return a + b
        if isinstance(n, ast.Call) and isinstance(n.func, ast.Attribute) and n.func.attr in STRMETH \
                and not n.args and not n.keywords:
            a = self.const(n.func.value, ctx)
            if a is not None:
                return STRMETH[n.func.attr](a)
        if isinstance(n, ast.JoinedStr):
            parts = [self.const(v, ctx) for v in n.values]
            if all(p is not None for p in parts):
                return ''.join(parts)
        return None

    def loc(self, n, ctx):
        """the tracked location (local, or attribute of the inlined instance) an expression denotes, or None"""
        a = self.attr_key(n, ctx)
        if a is not None:
            return ctx.inst['prefix'] + a if a in ctx.inst['tracked'] else None
        if not isinstance(n, ast.Name):
            return None
        if n.id in ctx.subst:
            v = ctx.subst[n.id]
            return v[1] if v[0] == 'loc' else None
        if n.id in ctx.tracked:
            return ctx.prefix + n.id
        return None

    def store_loc(self, t, ctx):
        """location written by an assignment target (tracked local / instance attribute), or None"""
        a = self.attr_key(t, ctx)
        if a is not None:
            return ctx.inst['prefix'] + a if a in ctx.inst['tracked'] else None
        if isinstance(t, ast.Name) and t.id in ctx.tracked and t.id not in ctx.subst:
            return ctx.prefix + t.id
        return None

    def env_value(self, v, ctx):
        """value expressions that read one variable into a local"""
        if isinstance(v, ast.Subscript) and self.is_environ(v.value):
            c = self.const(v.slice, ctx)
            return ('load', c) if c is not None else None
        if isinstance(v, ast.Call) and isinstance(v.func, ast.Attribute) and self.is_environ(v.func.value) \
                and v.func.attr in ('get', 'pop') and not v.keywords and 1 <= len(v.args) <= 2:
            c = self.const(v.args[0], ctx)
            dflt_none = len(v.args) == 1 or (isinstance(v.args[1], ast.Constant) and v.args[1].value is None)
            if c is None:
                return None
            if v.func.attr == 'get' and dflt_none:
                return ('save', c)
            if v.func.attr == 'pop' and len(v.args) == 2 and dflt_none:
                return ('popsave', c)
        return None

    def is_env_read_shape(self, v):
        """syntactically: os.environ[...] / os.environ.get(...) / .pop(...) / call of a read-only helper"""
        if isinstance(v, ast.Subscript) and self.is_environ(v.value):
            return True
        if isinstance(v, ast.Call) and isinstance(v.func, ast.Attribute) and self.is_environ(v.func.value) \
                and v.func.attr in ('get', 'pop'):
            return True
        return isinstance(v, ast.Call) and isinstance(v.func, ast.Name) and v.func.id in self.readers

    def tracked_names(self, fn):
        out = set()
        for n in ast.walk(fn):
            if isinstance(n, (ast.Assign, ast.AnnAssign)):
                tg = n.targets if isinstance(n, ast.Assign) else [n.target]
                if len(tg) == 1 and isinstance(tg[0], ast.Name) and n.value is not None and self.is_env_read_shape(n.value):
                    out.add(tg[0].id)
        return out

    def bindable_names(self, fn):
        """names assigned exactly once in the function, by a top-level statement of its body"""
        count = {}
        for n in ast.walk(fn):
            if isinstance(n, ast.Name) and not isinstance(n.ctx, ast.Load):
                count[n.id] = count.get(n.id, 0) + 1
            if isinstance(n, (ast.Global, ast.Nonlocal)):
                for nm in n.names:
                    count[nm] = 99
        top = set()
        for s in fn.body:
            if isinstance(s, ast.Assign) and len(s.targets) == 1 and isinstance(s.targets[0], ast.Name):
                top.add(s.targets[0].id)
        params = {a.arg for a in fn.args.args + fn.args.kwonlyargs + fn.args.posonlyargs}
        return {k for k in top if count.get(k) == 1 and k not in params}

    # ------------------------------------------------------------ bookkeeping
    def newid(self, kind, node, ctx, **kw):
        self.nid += 1
        end = getattr(node, 'end_lineno', node.lineno)
        # compound statements: the point belongs to the header, not to the whole block
        if isinstance(node, (ast.If, ast.While)):
            end = node.test.end_lineno
        elif isinstance(node, (ast.For, ast.AsyncFor)):
            end = node.iter.end_lineno
        elif isinstance(node, (ast.With, ast.AsyncWith)):
            end = max(i.context_expr.end_lineno for i in node.items)
        elif isinstance(node, (ast.FunctionDef, ast.AsyncFunctionDef, ast.ClassDef, ast.Try, ast.ExceptHandler)):
            end = node.lineno
        m = dict(kind=kind, func=ctx.fn, line=node.lineno, end=end)
        if ctx.round is not None:
            m['round'] = list(ctx.round)
        if ctx.pure_env:
            m['restore'] = True
        m.update(kw)
        self.meta[self.nid] = m
        return self.nid

    def unsup(self, node, ctx, msg):
        self.unsupported.append({'func': ctx.fn, 'line': getattr(node, 'lineno', 0), 'msg': msg})

    def stored(self, node, ctx):
        """tracked locations (re)bound by the expression parts of a statement"""
        out = []
        for n in ast.walk(node):
            if isinstance(n, ast.Name) and not isinstance(n.ctx, ast.Load) and n.id in ctx.tracked:
                out.append(ctx.prefix + n.id)
            if isinstance(n, ast.Attribute) and not isinstance(n.ctx, ast.Load):
                x = self.store_loc(n, ctx)
                if x:
                    out.append(x)
            if isinstance(n, ast.alias):
                nm = (n.asname or n.name).split('.')[0]
                if nm in ctx.tracked:
                    out.append(ctx.prefix + nm)
        return sorted(set(out))

    def kills(self, node, ctx, names=None):
        names = self.stored(node, ctx) if names is None else names
        return [['kill', x, self.newid('value', node, ctx)] for x in names]

    def fresh_loc(self, ctx, hint):
        self.fresh += 1
        return '%s%s#%d' % (ctx.prefix, hint, self.fresh)

    # ------------------------------------------------------------ structured values
    def value_of(self, e, ctx, pre):
        """translator-level value of an expression: ('const', s) | ('loc', x) | ('none',) | ('tuple', [...]) |
        OPAQUE; environment reads inside it are saved into fresh locations (statements appended to pre)"""
        c = self.const(e, ctx)
        if c is not None:
            return ('const', c)
        if isinstance(e, ast.Constant):
            return ('none',) if e.value is None else OPAQUE
        if isinstance(e, ast.Name):
            if e.id in ctx.subst:
                return ctx.subst[e.id]
            y = self.loc(e, ctx)
            return ('loc', y) if y else OPAQUE
        if self.attr_key(e, ctx) is not None:
            y = self.loc(e, ctx)
            return ('loc', y) if y else OPAQUE
        ev = self.env_value(e, ctx)
        if ev and ev[0] in ('load', 'save'):
            x = self.fresh_loc(ctx, 'saved')
            pre.append([ev[0], x, ev[1]])
            return ('loc', x)
        if isinstance(e, (ast.Tuple, ast.List)):
            vs = [self.value_of(x, ctx, pre) for x in e.elts]
            return ('tuple', vs)
        if isinstance(e, (ast.ListComp, ast.GeneratorExp)) and len(e.generators) == 1 and not e.generators[0].ifs \
                and not e.generators[0].is_async:
            g = e.generators[0]
            it = self.value_of(g.iter, ctx, []) if isinstance(g.iter, (ast.Name, ast.Tuple, ast.List)) else OPAQUE
            if it[0] == 'tuple':
                out = []
                for v in it[1]:
                    b = self.bind_target(g.target, v)
                    if b is None:
                        return OPAQUE
                    out.append(self.value_of(e.elt, ctx.with_subst(b, ctx.round), pre))
                return ('tuple', out)
        return OPAQUE

    @staticmethod
    def bind_target(tg, v):
        """bindings of loop/comprehension target names for one element value, or None"""
        if isinstance(tg, ast.Name):
            return {tg.id: v}
        if isinstance(tg, (ast.Tuple, ast.List)) and all(isinstance(x, ast.Name) for x in tg.elts):
            if v[0] == 'tuple' and len(v[1]) == len(tg.elts):
                return {x.id: w for x, w in zip(tg.elts, v[1])}
        return None

    @staticmethod
    def known(v):
        """is the value worth binding (contains a constant or a saved location)"""
        if v[0] in ('const', 'loc', 'none'):
            return True
        return v[0] == 'tuple' and len(v[1]) > 0 and all(Translator.known(w) for w in v[1])

    # ------------------------------------------------------------ expressions
    def scan(self, n, ctx, acc, cond=False):
        if n is None or self.const(n, ctx) is not None:
            return
        if self.is_environ(n):
            self.unsup(n, ctx, 'os.environ used as a value (may be aliased or mutated elsewhere)')
            return
        t = type(n)
        if t in (ast.Name, ast.Constant):
            return
        if self.attr_key(n, ctx) is not None and isinstance(n.ctx, ast.Load):
            return                      # attribute of the inlined instance: a plain slot
        if t is ast.Subscript and self.is_environ(n.value):
            if not isinstance(n.ctx, ast.Load):
                self.unsup(n, ctx, 'environment write in an unsupported position')
                return
            c = self.const(n.slice, ctx)
            if c is not None and not cond:
                acc['needs'].append(c)
            else:
                acc['risky'] = True
                self.scan(n.slice, ctx, acc, cond)
            return
        if t is ast.Call and isinstance(n.func, ast.Attribute) and self.is_environ(n.func.value):
            m = n.func.attr
            if m == 'get':
                for a in list(n.args) + [k.value for k in n.keywords]:
                    self.scan(a, ctx, acc, cond)
                if not (n.args and self.const(n.args[0], ctx) is not None):
                    acc['risky'] = True
                return
            if m in READERS:
                return
            self.unsup(n, ctx, 'os.environ.%s(...) in an unsupported position' % m)
            return
        if self.is_os_call(n, ('putenv', 'unsetenv')):
            self.unsup(n, ctx, 'os.putenv/os.unsetenv')
            return
        if t is ast.Compare and len(n.ops) == 1 and isinstance(n.ops[0], (ast.In, ast.NotIn)) \
                and self.is_environ(n.comparators[0]):
            if self.const(n.left, ctx) is None:
                acc['risky'] = True
                self.scan(n.left, ctx, acc, cond)
            return
        if t is ast.Compare and all(isinstance(op, (ast.Is, ast.IsNot)) for op in n.ops):
            for c in [n.left] + list(n.comparators):
                self.scan(c, ctx, acc, cond)
            return
        if t is ast.Call and isinstance(n.func, ast.Name) and \
                (n.func.id in self.writers or n.func.id in self.writer_classes):
            self.unsup(n, ctx, 'call of the environment-writing %s inside an expression' % n.func.id)
            return
        if t in (ast.Tuple, ast.List, ast.Set):
            for e in n.elts:
                self.scan(e, ctx, acc, cond)
            return
        if t is ast.Dict:
            for k in n.keys:
                if k is None or not isinstance(k, ast.Constant):
                    acc['risky'] = True
                self.scan(k, ctx, acc, cond)
            for v in n.values:
                self.scan(v, ctx, acc, cond)
            return
        if t is ast.Lambda:
            if self.mentions_environ(n):
                self.unsup(n, ctx, 'lambda that touches os.environ')
            return
        if t in (ast.Yield, ast.YieldFrom, ast.Await):
            self.unsup(n, ctx, 'generator / coroutine (the environment is observable while suspended)')
            return
        if t is ast.NamedExpr:
            self.scan(n.value, ctx, acc, cond)
            return
        acc['risky'] = True
        inner_cond = cond or t in (ast.BoolOp, ast.IfExp, ast.ListComp, ast.SetComp, ast.DictComp, ast.GeneratorExp)
        for c in ast.iter_child_nodes(n):
            if isinstance(c, ast.keyword):
                self.scan(c.value, ctx, acc, inner_cond)
            elif isinstance(c, ast.comprehension):
                self.scan(c.iter, ctx, acc, True)
                for i in c.ifs:
                    self.scan(i, ctx, acc, True)
            elif isinstance(c, ast.expr):
                self.scan(c, ctx, acc, inner_cond)

    def simple(self, node, ctx, exprs, force=False, kind='fault', envwrite=False):
        """fault point (if anything may raise) and unconditional environment lookups of a statement;
        envwrite: the statement is itself an environment write (in a finally block: a restore statement)"""
        acc = {'risky': bool(force), 'needs': []}
        for e in exprs:
            self.scan(e, ctx, acc)
        out = []
        if acc['risky']:
            kw = {'restore': True} if (envwrite and ctx.in_final) else {}
            out.append(['fault', self.newid(kind, node, ctx, **kw)])
        out += [['need', c] for c in acc['needs']]
        return out

    # ------------------------------------------------------------ functions, inlining
    def check_function(self, fn, ctx, allow_yield=False):
        for n in ast.walk(fn):
            if n is not fn and isinstance(n, (ast.FunctionDef, ast.AsyncFunctionDef, ast.ClassDef)):
                if self.mentions_environ(n) or any(isinstance(m, ast.Name) and m.id in ctx.tracked for m in ast.walk(n)):
                    self.unsup(n, ctx, 'nested definition that touches os.environ or a saved value')
            if isinstance(n, (ast.Global, ast.Nonlocal)) and set(n.names) & ctx.tracked:
                self.unsup(n, ctx, 'global/nonlocal declaration of a local that saves an environment value')
        decos = [d for d in fn.decorator_list
                 if not (allow_yield and self.is_cm_generator(fn))]
        if decos:
            self.notes.append('%s: decorators are not modelled' % fn.name)

    def function(self, name):
        """IR of a module-level function analysed as an entry point"""
        fn = self.funcs[name]
        ctx = Ctx(name, '', self.tracked_names(fn), {}, (name,), bindable=self.bindable_names(fn))
        ctx.top_stmts = fn.body
        self.check_function(fn, ctx)
        return self.block(fn.body, ctx)

    def bind_params(self, fn, call, ctx, pre, skip_self=False):
        """parameter name -> value of the corresponding argument of the call"""
        params = [a.arg for a in fn.args.posonlyargs + fn.args.args]
        if skip_self:
            params = params[1:]
        defaults = dict(zip(reversed(params), reversed(fn.args.defaults)))
        for a, d in zip(fn.args.kwonlyargs, fn.args.kw_defaults):
            if d is not None:
                defaults[a.arg] = d
        names = params + [a.arg for a in fn.args.kwonlyargs]
        out = {p: OPAQUE for p in names}
        if call is None or any(isinstance(a, ast.Starred) for a in call.args) or any(k.arg is None for k in call.keywords):
            return out
        given = {}
        for p, a in zip(params, call.args):
            given[p] = a
        for k in call.keywords:
            given[k.arg] = k.value
        stored = {n.id for n in ast.walk(fn) if isinstance(n, ast.Name) and not isinstance(n.ctx, ast.Load)}
        for p in names:
            if p in stored:
                continue                      # reassigned in the callee: not a fixed value
            if p in given:
                out[p] = self.value_of(given[p], ctx, pre)
            elif p in defaults:
                out[p] = self.value_of(defaults[p], Ctx(fn.name, '', set(), {}, ()), [])
        return out

    def serial(self, fn):
        self.copies[id(fn)] = self.copies.get(id(fn), 0) + 1
        return self.copies[id(fn)]

    def first_line(self, fn):
        b = body_of(fn)
        return (b[0] if b else fn).lineno

    def inline(self, fn, call, node, ctx, ret_loc=None, qual=None, inst=None, skip_self=False, yield_body=None):
        """(statements evaluating the arguments, IR of the callee body as a scope, callee Ctx)"""
        pre = []
        binds = self.bind_params(fn, call, ctx, pre, skip_self=skip_self)
        qual = qual or fn.name
        self.inlined.add(qual)
        c = Ctx(fn.name, qual + '.', self.tracked_names(fn), {k: v for k, v in binds.items() if v is not OPAQUE},
                ctx.stack + (qual,), round=(fn.name, self.first_line(fn), self.serial(fn)), ret_loc=ret_loc, inst=inst,
                bindable=self.bindable_names(fn))
        c.yield_body = yield_body
        c.top_stmts = fn.body
        c.in_final = ctx.in_final or qual.endswith('.__exit__')
        c.pure_env = self.syntactic_pure_env(fn)
        self.check_function(fn, c, allow_yield=yield_body is not None)
        if yield_body is None and any(isinstance(n, (ast.Yield, ast.YieldFrom)) for n in ast.walk(fn)):
            self.unsup(node, ctx, 'call of the generator %s' % qual)
        body = self.block(fn.body, c)
        if yield_body is not None and c.yields != 1:
            self.unsup(node, ctx, 'context-manager generator %s with %d yield statements' % (qual, c.yields))
        return pre, ['scope', body], c

    def inlinable_call(self, value, ctx):
        if isinstance(value, ast.Call) and isinstance(value.func, ast.Name) and value.func.id in self.inlinable \
                and value.func.id in self.funcs:
            return self.funcs[value.func.id]
        return None

    def call_stmt(self, value, node, ctx, ret_loc=None, bind_name=None):
        """statement whose value is a call of a same-module function touching os.environ, or None"""
        fn = self.inlinable_call(value, ctx)
        if fn is None:
            return None
        if fn.name in ctx.stack:
            if fn.name in self.writers:
                self.unsup(node, ctx, 'recursive call of the environment-writing function %s' % fn.name)
            return None
        if self.is_cm_generator(fn):
            return None
        if fn.name in self.readers and ret_loc is None and bind_name is None and not isinstance(node, ast.Expr):
            return None                       # value goes somewhere untracked: an ordinary (read-only) call
        acc = {'risky': False, 'needs': []}
        for a in list(value.args) + [k.value for k in value.keywords]:
            self.scan(a, ctx, acc)
        n_unsup = len(self.unsupported)
        pre, body, c = self.inline(fn, value, node, ctx, ret_loc=ret_loc)
        pure = (not has_fault(body) and len(self.unsupported) == n_unsup) or c.pure_env
        out = []
        if acc['risky'] or not pure:
            out.append(['fault', self.newid('fault', node, ctx, call=fn.name)])
        out += [['need', v] for v in acc['needs']] + pre + [body]
        if bind_name is not None:
            v = c.rets[0] if len(c.rets) == 1 and self.single_final_return(fn) else OPAQUE
            if self.known(v):
                ctx.root().subst[bind_name] = v
                ctx.subst[bind_name] = v
        return out

    @staticmethod
    def single_final_return(fn):
        rets = [n for n in ast.walk(fn) if isinstance(n, ast.Return)]
        return len(rets) == 1 and fn.body and fn.body[-1] is rets[0]

    def block(self, stmts, ctx):
        out = []
        for s in stmts:
            out += self.stmt(s, ctx)
        return seq(out)

    def stmt(self, n, ctx):
        t = type(n)
        m = getattr(self, 's_' + t.__name__, None)
        if m is None:
            self.unsup(n, ctx, 'statement %s is not supported' % t.__name__)
            return [['fault', self.newid('fault', n, ctx)]]
        return m(n, ctx)

    # ------------------------------------------------------------ statements
    def s_Pass(self, n, ctx):
        return []

    def s_Global(self, n, ctx):
        return []

    s_Nonlocal = s_Global

    def s_Break(self, n, ctx):
        self.unsup(n, ctx, 'break/continue are not modelled')
        return []

    s_Continue = s_Break

    def s_Expr(self, n, ctx):
        v = n.value
        if isinstance(v, ast.Constant):
            return []
        if isinstance(v, ast.Yield) and ctx.yield_body is not None:
            ctx.root().yields += 1
            if v.value is not None:
                return self.simple(n, ctx, [v.value]) + [ctx.yield_body()]
            return [ctx.yield_body()]
        if isinstance(v, ast.Call) and isinstance(v.func, ast.Attribute) and self.is_environ(v.func.value) \
                and v.func.attr == 'pop' and not v.keywords and 1 <= len(v.args) <= 2:
            c = self.const(v.args[0], ctx)
            if c is None:
                self.unsup(n, ctx, 'os.environ.pop of a computed variable name')
                return []
            if len(v.args) == 1:
                return [['del', c]]
            return self.simple(n, ctx, [v.args[1]], envwrite=True) + [['pop', c]]
        inl = self.call_stmt(v, n, ctx)
        if inl is not None:
            return inl
        return self.simple(n, ctx, [v]) + self.kills(n, ctx)

    def s_Assign(self, n, ctx, targets=None, value=None):
        targets = n.targets if targets is None else targets
        value = n.value if value is None else value
        if len(targets) == 1:
            t = targets[0]
            x = self.store_loc(t, ctx)
            if x:
                ev = self.env_value(value, ctx)
                if ev:
                    if ev[0] == 'load':
                        return [['load', x, ev[1]]]
                    if ev[0] == 'save':
                        return [['save', x, ev[1]]]
                    return [['save', x, ev[1]], ['pop', ev[1]]]
                if isinstance(value, ast.Constant) and value.value is None:
                    return [['setNone', x]]
                bind = t.id if (isinstance(t, ast.Name) and t.id in ctx.bindable and ctx.root() is ctx
                                and n in ctx.top_stmts) else None
                inl = self.call_stmt(value, n, ctx, ret_loc=x, bind_name=bind)
                if inl is not None:
                    return inl
            a = self.attr_key(t, ctx)
            if a is not None and not x:
                # untracked slot of the inlined instance: a constant there is remembered
                pre = []
                v = self.value_of(value, ctx, pre)
                if ctx.fn == '__init__' and a in ctx.inst['once'] and v[0] == 'const':
                    ctx.inst['consts'][a] = v
                    return []
                return self.simple(n, ctx, [value])
            if isinstance(t, ast.Subscript) and self.is_environ(t.value):
                c = self.const(t.slice, ctx)
                if c is None:
                    self.unsup(n, ctx, 'assignment to a computed environment variable name')
                    return [['fault', self.newid('fault', n, ctx)]]
                y = self.loc(value, ctx)
                if y:
                    return [['setFrom', c, y]]
                return self.simple(n, ctx, [value], envwrite=True) + [['setExpr', c, self.newid('value', n, ctx)]]
            if isinstance(t, ast.Name) and not x and t.id in ctx.bindable and ctx.root() is ctx \
                    and n in ctx.top_stmts:
                # assigned once, at the top level of the function: remember a structured value
                inl = self.call_stmt(value, n, ctx, bind_name=t.id)
                if inl is not None:
                    return inl
                if isinstance(value, (ast.Tuple, ast.List, ast.ListComp)):
                    acc = {'risky': False, 'needs': []}
                    self.scan(value, ctx, acc)
                    pre = []
                    v = self.value_of(value, ctx, pre)
                    if self.known(v) and v[0] == 'tuple':
                        ctx.subst[t.id] = v
                        return pre
        for t in targets:
            if self.mentions_environ(t):
                self.unsup(n, ctx, 'environment write in an unsupported assignment form')
        inl = self.call_stmt(value, n, ctx) if self.inlinable_call(value, ctx) is not None \
            and self.inlinable_call(value, ctx).name in self.writers else None
        unpack = any(not isinstance(t, ast.Name) and self.attr_key(t, ctx) is None for t in targets)
        if inl is not None:
            out = inl
            if unpack:
                out = out + [['fault', self.newid('fault', n, ctx)]]
        else:
            out = self.simple(n, ctx, [value] + [t for t in targets
                                                 if not isinstance(t, (ast.Name, ast.Tuple, ast.List))
                                                 and self.attr_key(t, ctx) is None], force=unpack)
        kl = []
        for t in targets:
            kl += self.stored(t, ctx)
        return out + self.kills(n, ctx, sorted(set(kl)))

    def s_AnnAssign(self, n, ctx):
        if n.value is None:
            return []
        return self.s_Assign(n, ctx, [n.target], n.value)

    def s_AugAssign(self, n, ctx):
        t = n.target
        if isinstance(t, ast.Subscript) and self.is_environ(t.value):
            c = self.const(t.slice, ctx)
            if c is None:
                self.unsup(n, ctx, 'augmented assignment to a computed environment variable name')
                return [['fault', self.newid('fault', n, ctx)]]
            return [['need', c]] + self.simple(n, ctx, [n.value], force=True, envwrite=True) + \
                [['setExpr', c, self.newid('value', n, ctx)]]
        if self.mentions_environ(t):
            self.unsup(n, ctx, 'environment write in an unsupported assignment form')
        return self.simple(n, ctx, [n.value, t] if not isinstance(t, ast.Name) else [n.value], force=True) + \
            self.kills(t, ctx)

    def s_Delete(self, n, ctx):
        out = []
        for t in n.targets:
            if isinstance(t, ast.Subscript) and self.is_environ(t.value):
                c = self.const(t.slice, ctx)
                if c is None:
                    self.unsup(n, ctx, 'del of a computed environment variable name')
                else:
                    out.append(['del', c])
            elif isinstance(t, ast.Name):
                out += self.kills(t, ctx)
            else:
                if self.mentions_environ(t):
                    self.unsup(n, ctx, 'environment write in an unsupported del form')
                out += self.simple(n, ctx, [], force=True)
        return out

    def s_Return(self, n, ctx):
        v = n.value
        root = ctx.root()
        if v is None or (isinstance(v, ast.Constant) and v.value is None):
            root.rets.append(('none',))
            return ([['setNone', ctx.ret_loc]] if ctx.ret_loc else []) + [['ret']]
        if ctx.ret_loc:
            pre = []
            val = self.value_of(v, ctx, pre) if isinstance(v, (ast.Tuple, ast.List, ast.ListComp, ast.GeneratorExp)) else OPAQUE
            if self.known(val) and val[0] == 'tuple':
                acc = {'risky': False, 'needs': []}
                self.scan(v, ctx, acc)
                root.rets.append(val)
                return pre + [['ret']]
            ev = self.env_value(v, ctx)
            if ev and ev[0] in ('load', 'save'):
                root.rets.append(OPAQUE)
                return [[ev[0], ctx.ret_loc, ev[1]], ['ret']]
            inl = self.call_stmt(v, n, ctx, ret_loc=ctx.ret_loc)
            if inl is not None:
                root.rets.append(OPAQUE)
                return inl + [['ret']]
            root.rets.append(OPAQUE)
            return self.simple(n, ctx, [v]) + [['kill', ctx.ret_loc, self.newid('value', n, ctx)], ['ret']]
        fnw = self.inlinable_call(v, ctx)
        if fnw is not None and fnw.name in self.writers:
            inl = self.call_stmt(v, n, ctx)
            if inl is not None:
                root.rets.append(OPAQUE)
                return inl + [['ret']]
        if ctx.inst is not None and isinstance(v, ast.Name) and v.id == ctx.inst['self']:
            root.rets.append(OPAQUE)
            return [['ret']]
        pre = []
        val = self.value_of(v, ctx, pre)
        if self.known(val) and val[0] == 'tuple':
            acc = {'risky': False, 'needs': []}
            self.scan(v, ctx, acc)           # records unsupported uses; the reads themselves are in `pre`
            root.rets.append(val)
            return pre + [['ret']]
        root.rets.append(val if self.known(val) else OPAQUE)
        return self.simple(n, ctx, [v]) + [['ret']]

    def s_Raise(self, n, ctx):
        return self.simple(n, ctx, [n.exc, n.cause]) + [['raise']]

    def s_Assert(self, n, ctx):
        return self.simple(n, ctx, [n.test, n.msg], force=True)

    def s_Import(self, n, ctx):
        return self.simple(n, ctx, [], force=True) + self.kills(n, ctx)

    s_ImportFrom = s_Import

    def s_FunctionDef(self, n, ctx):
        return self.simple(n, ctx, list(n.decorator_list) + [d for d in n.args.defaults] +
                           [d for d in n.args.kw_defaults if d is not None]) + \
            self.kills(n, ctx, [ctx.prefix + n.name] if n.name in ctx.tracked else [])

    def s_ClassDef(self, n, ctx):
        return self.simple(n, ctx, [], force=True) + \
            self.kills(n, ctx, [ctx.prefix + n.name] if n.name in ctx.tracked else [])

    def s_If(self, n, ctx):
        test, neg = n.test, False
        while isinstance(test, ast.UnaryOp) and isinstance(test.op, ast.Not):
            test, neg = test.operand, not neg
        # `if c in os.environ: del os.environ[c]` is exactly os.environ.pop(c, None)
        if not neg and not n.orelse and len(n.body) == 1 and isinstance(n.body[0], ast.Delete) \
                and len(n.body[0].targets) == 1 and isinstance(test, ast.Compare) and len(test.ops) == 1 \
                and isinstance(test.ops[0], ast.In) and self.is_environ(test.comparators[0]):
            d = n.body[0].targets[0]
            c = self.const(test.left, ctx)
            if c is not None and isinstance(d, ast.Subscript) and self.is_environ(d.value) and self.const(d.slice, ctx) == c:
                return [['pop', c]]
        then, els = self.block(n.body, ctx), self.block(n.orelse, ctx)
        if isinstance(test, ast.Compare) and len(test.ops) == 1:
            op, a, b = test.ops[0], test.left, test.comparators[0]
            if isinstance(op, (ast.Is, ast.IsNot)):
                other = b if (isinstance(a, ast.Constant) and a.value is None) else \
                    (a if (isinstance(b, ast.Constant) and b.value is None) else None)
                if other is not None:
                    flip = neg != isinstance(op, ast.IsNot)
                    y = self.loc(other, ctx)
                    if y:
                        return [['ifNone', y, els, then] if flip else ['ifNone', y, then, els]]
                    if self.const(other, ctx) is not None:       # a string is never None
                        return [then if flip else els]
                    if isinstance(other, ast.Name) and ctx.subst.get(other.id) == ('none',):
                        return [els if flip else then]
            if isinstance(op, (ast.In, ast.NotIn)) and self.is_environ(b):
                c = self.const(a, ctx)
                if c is not None:
                    flip = neg != isinstance(op, ast.NotIn)
                    return [['ifSet', c, els, then] if flip else ['ifSet', c, then, els]]
        # the truth value of a saved location (a string or None) cannot raise
        # ... nor can an identity test (`x is None`, `a is not b`) of things that cannot raise
        identity = isinstance(test, ast.Compare) and all(isinstance(o, (ast.Is, ast.IsNot)) for o in test.ops)
        pre = [] if self.loc(test, ctx) else self.simple(n, ctx, [n.test], force=not identity)
        cid = self.newid('choice', n, ctx, anchor=n.lineno, then_line=n.body[0].lineno)
        return pre + [['choice', cid, then, els]]

    def unroll_values(self, n, ctx):
        """for <names> in (<literal>, ...) / in a name bound to such a tuple: the bindings of each round, or None"""
        tg = n.target
        names = [tg.id] if isinstance(tg, ast.Name) else \
            [e.id for e in tg.elts] if isinstance(tg, (ast.Tuple, ast.List)) and all(isinstance(e, ast.Name) for e in tg.elts) \
            else None
        if names is None:
            return None
        for b in n.body:
            for m in ast.walk(b):
                if isinstance(m, ast.Name) and not isinstance(m.ctx, ast.Load) and m.id in names:
                    return None
                if isinstance(m, (ast.Break, ast.Continue)):
                    return None
        if isinstance(n.iter, (ast.Tuple, ast.List)):
            for e in n.iter.elts:
                acc = {'risky': False, 'needs': []}
                self_unsup = len(self.unsupported)
                self.scan(e, ctx, acc)
                del self.unsupported[self_unsup:]
                if acc['risky'] or acc['needs']:
                    return None
            it = self.value_of(n.iter, ctx, [])
        elif isinstance(n.iter, ast.Name) and n.iter.id in ctx.subst:
            it = ctx.subst[n.iter.id]
        else:
            return None
        if it[0] != 'tuple':
            return None
        rounds = []
        for v in it[1]:
            b = self.bind_target(tg, v)
            if b is None:
                return None
            rounds.append(b)
        return rounds

    def s_For(self, n, ctx):
        rounds = self.unroll_values(n, ctx)
        if rounds is not None:
            out = []
            for r in rounds:
                out.append(self.block(n.body, ctx.with_subst(r, (ctx.fn, n.body[0].lineno, self.serial(n)))))
            return out + [self.block(n.orelse, ctx)]
        pre = self.simple(n, ctx, [n.iter], force=True)
        lid = self.newid('loop', n, ctx, body_line=n.body[0].lineno)
        body = seq(self.kills(n.target, ctx) + [self.block(n.body, ctx)])
        return pre + [['loop', lid, body], self.block(n.orelse, ctx)]

    def s_While(self, n, ctx):
        lid = self.newid('loop', n, ctx, body_line=n.body[0].lineno)
        body = seq(self.simple(n, ctx, [n.test], force=True) + [self.block(n.body, ctx)])
        return [['loop', lid, body]] + self.simple(n, ctx, [n.test], force=True) + [self.block(n.orelse, ctx)]

    def s_Try(self, n, ctx):
        body = self.block(n.body, ctx)
        if n.handlers:
            hs = []
            for h in n.handlers:
                k = self.kills(h, ctx, [ctx.prefix + h.name]) if (h.name and h.name in ctx.tracked) else []
                hs.append(seq(k + [self.block(h.body, ctx)]))
            hir = hs[-1]
            for h, ir in reversed(list(zip(n.handlers[:-1], hs[:-1]))):
                hid = self.newid('choice', h, ctx, anchor=n.body[0].lineno, then_line=h.body[0].lineno)
                hir = ['choice', hid, ir, hir]
            tid = self.newid('except', n, ctx, anchor=n.body[0].lineno,
                             handler_lines=[h.body[0].lineno for h in n.handlers])
            body = ['tryExcept', tid, body, hir]
        if n.orelse:
            self.notes.append('%s:%d: try/else over-approximated as try followed by else' % (ctx.fn, n.lineno))
            body = seq([body, self.block(n.orelse, ctx)])
        if n.finalbody:
            body = ['tryFinally', body, self.block(n.finalbody, ctx.final())]
        return [body]

    # ------------------------------------------------------------ with
    def class_methods(self, cls):
        return {m.name: m for m in cls.body if isinstance(m, ast.FunctionDef)}

    def with_class(self, cls, call, n, ctx, as_var, body_thunk):
        """`with C(args): body` for a same-module class C with __enter__ / __exit__"""
        ms = self.class_methods(cls)
        k = self.serial(cls)
        prefix = '%s#%d.' % (cls.name, k)
        # attribute slots: tracked when they receive an environment value / None-or-value / a helper's result
        assigned = {}
        for m in ms.values():
            selfname = m.args.args[0].arg if m.args.args else None
            for x in ast.walk(m):
                if isinstance(x, (ast.Assign, ast.AnnAssign)):
                    tg = x.targets if isinstance(x, ast.Assign) else [x.target]
                    for t in tg:
                        for y in ast.walk(t):
                            if isinstance(y, ast.Attribute) and isinstance(y.value, ast.Name) and y.value.id == selfname \
                                    and not isinstance(y.ctx, ast.Load):
                                assigned.setdefault(y.attr, []).append((m.name, x))
                elif isinstance(x, (ast.AugAssign, ast.Delete, ast.For, ast.With)):
                    for y in ast.walk(x):
                        if isinstance(y, ast.Attribute) and not isinstance(y.ctx, ast.Load) and \
                                isinstance(y.value, ast.Name) and y.value.id == selfname:
                            assigned.setdefault(y.attr, []).append((m.name, None))
        tracked = {a for a, ws in assigned.items()
                   if any(w is not None and w.value is not None and len(getattr(w, 'targets', [1])) == 1
                          and self.is_env_read_shape(w.value) for _, w in ws)}
        once = {a for a, ws in assigned.items() if len(ws) == 1 and ws[0][0] == '__init__' and a not in tracked}
        inst = {'self': None, 'prefix': prefix, 'tracked': tracked, 'consts': {}, 'once': once, 'cls': cls.name}
        # the instance must not escape: `self` is only used as `self.attr`, or returned by __enter__
        for m in ms.values():
            selfname = m.args.args[0].arg if m.args.args else None
            attr_bases = {id(y.value) for y in ast.walk(m) if isinstance(y, ast.Attribute)}
            for x in ast.walk(m):
                if isinstance(x, ast.Name) and x.id == selfname and id(x) not in attr_bases:
                    par_ok = any(isinstance(r, ast.Return) and r.value is x for r in ast.walk(m))
                    if not par_ok:
                        self.unsup(x, ctx, 'context-manager instance of %s escapes in %s' % (cls.name, m.name))
        if as_var is not None:
            used = any(isinstance(x, ast.Name) and x.id == as_var for s in n.body for x in ast.walk(s))
            if used:
                self.unsup(n, ctx, 'the `as` variable of the inlined context manager %s is used in the block' % cls.name)
        out = []
        acc = {'risky': False, 'needs': []}
        for a in list(call.args) + [kw.value for kw in call.keywords]:
            self.scan(a, ctx, acc)
        if acc['risky']:
            out.append(['fault', self.newid('fault', n, ctx)])
        out += [['need', v] for v in acc['needs']]

        def method(name, callnode):
            m = ms[name]
            i2 = dict(inst, self=m.args.args[0].arg if m.args.args else None)
            i2['consts'], i2['tracked'], i2['once'] = inst['consts'], inst['tracked'], inst['once']
            pre, body, _ = self.inline(m, callnode, n, ctx, qual='%s.%s' % (cls.name, name), inst=i2, skip_self=True)
            return pre + [body]
        if '__init__' in ms:
            out += method('__init__', call)
        elif call.args or call.keywords:
            out.append(['fault', self.newid('fault', n, ctx)])
        out += method('__enter__', None)
        exit_ir = seq(method('__exit__', None))
        swallow = any(isinstance(r, ast.Return) and r.value is not None and
                      not (isinstance(r.value, ast.Constant) and r.value.value in (False, None))
                      for r in ast.walk(ms['__exit__']))
        prot = ['tryFinally', body_thunk(), exit_ir]
        if swallow:
            prot = ['tryExcept', self.newid('with', n, ctx), prot, ['skip']]
        out.append(prot)
        return out

    def with_generator(self, fn, call, n, ctx, body_thunk):
        """`with g(args): body` for a same-module @contextmanager generator: its body with the
        `yield` statement replaced by the block"""
        state = {}

        def thunk():
            b = body_thunk()
            state['ret'] = any(x[0] == 'ret' for x in walk_ir(b))
            return b
        acc = {'risky': False, 'needs': []}
        for a in list(call.args) + [kw.value for kw in call.keywords]:
            self.scan(a, ctx, acc)
        out = []
        if acc['risky']:
            out.append(['fault', self.newid('fault', n, ctx)])
        out += [['need', v] for v in acc['needs']]
        for x in ast.walk(fn):
            if isinstance(x, (ast.Yield, ast.YieldFrom)):
                par_ok = any(isinstance(s, ast.Expr) and s.value is x for s in ast.walk(fn))
                if not par_ok or isinstance(x, ast.YieldFrom):
                    self.unsup(x, ctx, 'context-manager generator %s uses the value of yield / yield from' % fn.name)
        pre, body, _ = self.inline(fn, call, n, ctx, yield_body=thunk)
        if state.get('ret'):
            self.unsup(n, ctx, 'return inside a block guarded by the generator context manager %s' % fn.name)
        return out + pre + [body]

    def s_With(self, n, ctx, k=0):
        if k >= len(n.items):
            return [self.block(n.body, ctx)]
        it = n.items[k]
        rest = lambda: seq(self.s_With(n, ctx, k + 1))
        e = it.context_expr
        as_var = it.optional_vars.id if isinstance(it.optional_vars, ast.Name) else None
        if isinstance(e, ast.Call) and isinstance(e.func, ast.Name):
            cls = self.classes.get(e.func.id)
            fn = self.funcs.get(e.func.id)
            if cls is not None and {'__enter__', '__exit__'} <= set(self.class_methods(cls)) and \
                    (self.mentions_environ(cls) or cls.name in self.writer_classes):
                if it.optional_vars is not None and as_var is None:
                    self.unsup(n, ctx, 'unpacking the value of an inlined context manager')
                out = self.with_class(cls, e, n, ctx, as_var, rest)
                return out[:-1] + (self.kills(it.optional_vars, ctx) if it.optional_vars is not None else []) + out[-1:]
            if fn is not None and self.is_cm_generator(fn) and (self.mentions_environ(fn) or fn.name in self.writers):
                if fn.name in ctx.stack:
                    self.unsup(n, ctx, 'recursive use of the context manager %s' % fn.name)
                else:
                    return self.with_generator(fn, e, n, ctx, rest)
        out = self.simple(n, ctx, [e], force=True)
        if it.optional_vars is not None:
            if self.mentions_environ(it.optional_vars):
                self.unsup(n, ctx, 'environment write in a with target')
            out += self.kills(it.optional_vars, ctx)
        wid = self.newid('with', n, ctx)
        out.append(['tryExcept', wid, rest(), ['skip']])
        out.append(['fault', self.newid('fault', n, ctx, exit=True)])
        return out


def env_writer_census(pkg_root):
    """every function of the package (tests excluded) that writes os.environ syntactically"""
    import pathlib
    found = []
    for f in sorted(pathlib.Path(pkg_root).rglob('*.py')):
        if 'tests' in f.parts:
            continue
        try:
            tr = Translator(f)
        except SyntaxError:
            continue
        for n in ast.walk(tr.tree):
            if isinstance(n, (ast.FunctionDef, ast.AsyncFunctionDef)) and tr.writes_env(n):
                # innermost only
                if not any(isinstance(m, (ast.FunctionDef, ast.AsyncFunctionDef)) and m is not n and tr.writes_env(m)
                           for m in ast.walk(n)):
                    found.append((str(f.relative_to(pkg_root)), n.name))
        body_level = [s for s in tr.tree.body if not isinstance(s, (ast.FunctionDef, ast.AsyncFunctionDef, ast.ClassDef))]
        if any(tr.writes_env(s) for s in body_level):
            found.append((str(f.relative_to(pkg_root)), '<module>'))
    return found


def called_names(fn):
    out = set()
    for n in ast.walk(fn):
        if isinstance(n, ast.Call):
            if isinstance(n.func, ast.Name):
                out.add(n.func.id)
            elif isinstance(n.func, ast.Attribute):
                out.add(n.func.attr)
    return out


def translate(path, func):
    """IR of one module-level function (callees / context managers of the same module that touch os.environ inlined)"""
    tr = Translator(path)
    if func not in tr.funcs:
        tr.unsup(tr.tree, Ctx(func, '', set(), {}, ()), 'function %s not found in %s' % (func, path))
        return tr, ['fault', 0]
    ir = tr.function(func)
    return tr, ir


HEADER = '''/- GENERATED on every run by harness/xlate/c20_envir.py from the Python sources named below.
   Do not edit; not under version control. -/
import PydlVerif.Model.EnvIR
namespace PydlVerif.Gen.C20
open PydlVerif.EnvIR PydlVerif.EnvIR.Stmt

'''


def emit(progs):
    """progs: list of dict(name, ir, vars, source, unsupported).  Returns (text, {theorem: line})"""
    lines = HEADER.splitlines()
    where = {}
    for p in progs:
        lines.append('/-- IR of %s -/' % p['source'])
        lines.append('def %s : Stmt :=' % p['name'])
        lines.append('  ' + lean(p['ir']))
        lines.append('')
        for u in p['unsupported']:
            lines.append('-- not translatable: %s:%d %s' % (u['func'], u['line'], u['msg']))
        lines.append('/-- number of constructs outside the translatable fragment -/')
        where[p['name'] + '_translated'] = len(lines) + 1
        lines.append('theorem %s_translated : (%d : Nat) = 0 := by decide' % (p['name'], len(p['unsupported'])))
        vs = '[' + ', '.join('"%s"' % v for v in p['vars']) + ']'
        where[p['name'] + '_restores'] = len(lines) + 1
        lines.append('theorem %s_restores : restores %s %s = true := by decide' % (p['name'], p['name'], vs))
        lines.append('')
    lines.append('end PydlVerif.Gen.C20')
    return '\n'.join(lines) + '\n', where

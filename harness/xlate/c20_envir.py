"""Python AST -> effect IR (lean/PydlVerif/Model/EnvIR.lean) for property C20.

Keeps of a function only: control flow, its effects on os.environ, and the locals
in which environment values are saved.  Everything else that may raise (call,
subscript, attribute access, operator, truth test, unpacking, import, iteration)
becomes a `fault` point; every other test an oracle `choice`.  The translation is
conservative; a construct that cannot be translated soundly is recorded in
`unsupported` and makes the regenerated obligation `<prog>_translated` fail.

IR nodes are JSON lists: ["seq", a, b], ["fault", id], ["need", "VAR"], ...
`meta[id]` records for every point id its kind and source lines, so that the
fault-injection harness can map events of the real run to oracle decisions.
"""
import ast

MUTATORS = ('pop', 'update', 'clear', 'setdefault', 'popitem', '__setitem__', '__delitem__')
READERS = ('copy', 'keys', 'values', 'items')
STRMETH = {'upper': str.upper, 'lower': str.lower, 'strip': str.strip, 'title': str.title,
           'capitalize': str.capitalize}


def seq(items):
    """balanced seq of IR nodes (seq is associative in the semantics); drops skips"""
    flat = [i for i in items if i != ['skip']]
    if not flat:
        return ['skip']
    if len(flat) == 1:
        return flat[0]
    h = len(flat) // 2
    return ['seq', seq(flat[:h]), seq(flat[h:])]


def lean(ir):
    """Lean source of an IR node; must equal `EnvIR.render` on the parsed JSON form"""
    tag = ir[0]
    if tag in ('skip', 'raise', 'ret'):
        return tag
    parts = []
    for a in ir[1:]:
        if isinstance(a, list):
            parts.append(lean(a))
        elif isinstance(a, str):
            assert '"' not in a and '\\' not in a, a
            parts.append('"%s"' % a)
        else:
            parts.append(str(int(a)))
    return '(%s %s)' % (tag, ' '.join(parts))


def walk_ir(ir):
    yield ir
    for a in ir[1:]:
        if isinstance(a, list):
            yield from walk_ir(a)


class Ctx:
    def __init__(self, fn, prefix, tracked, subst, stack, round=None):
        self.fn, self.prefix, self.tracked, self.subst, self.stack = fn, prefix, tracked, subst, stack
        self.round = round      # (first body line, serial number of this copy) of the innermost unrolled loop

    def with_subst(self, extra, round):
        s = dict(self.subst)
        s.update(extra)
        return Ctx(self.fn, self.prefix, self.tracked, s, self.stack, round)


class Translator:
    def __init__(self, path, src=None):
        self.path = str(path)
        self.src = src if src is not None else open(path).read()
        self.tree = ast.parse(self.src)
        self.funcs = {n.name: n for n in self.tree.body if isinstance(n, ast.FunctionDef)}
        self.os_names, self.environ_names = set(), set()
        for n in ast.walk(self.tree):
            if isinstance(n, ast.Import):
                for a in n.names:
                    if a.name == 'os':
                        self.os_names.add(a.asname or 'os')
            elif isinstance(n, ast.ImportFrom) and n.module == 'os':
                for a in n.names:
                    if a.name == 'environ':
                        self.environ_names.add(a.asname or 'environ')
        self.nid = 0
        self.meta = {}
        self.unsupported = []
        self.notes = []
        self.inlined = set()
        self.copies = {}
        direct = {k for k, f in self.funcs.items() if self.writes_env(f)}
        self.direct_writers = set(direct)
        changed = True
        while changed:
            changed = False
            for k, f in self.funcs.items():
                if k in direct:
                    continue
                for n in ast.walk(f):
                    if isinstance(n, ast.Call) and isinstance(n.func, ast.Name) and n.func.id in direct:
                        direct.add(k)
                        changed = True
                        break
        self.inlinable = direct

    # ------------------------------------------------------------ recognisers
    def is_environ(self, n):
        if isinstance(n, ast.Attribute) and n.attr == 'environ' and isinstance(n.value, ast.Name) \
                and n.value.id in self.os_names:
            return True
        return isinstance(n, ast.Name) and n.id in self.environ_names

    def is_os_call(self, n, names):
        return (isinstance(n, ast.Call) and isinstance(n.func, ast.Attribute) and n.func.attr in names
                and isinstance(n.func.value, ast.Name) and n.func.value.id in self.os_names)

    def writes_env(self, fn):
        for n in ast.walk(fn):
            if isinstance(n, ast.Subscript) and self.is_environ(n.value) and not isinstance(n.ctx, ast.Load):
                return True
            if isinstance(n, ast.Call) and isinstance(n.func, ast.Attribute) and self.is_environ(n.func.value) \
                    and n.func.attr in MUTATORS:
                return True
            if self.is_os_call(n, ('putenv', 'unsetenv')):
                return True
        return False

    def mentions_environ(self, node):
        return any(self.is_environ(n) or self.is_os_call(n, ('putenv', 'unsetenv')) for n in ast.walk(node))

    def const(self, n, ctx):
        """constant-fold a string expression, None if it is not a compile-time string"""
        if isinstance(n, ast.Constant) and isinstance(n.value, str):
            return n.value
        if isinstance(n, ast.Name) and n.id in ctx.subst and ctx.subst[n.id][0] == 'const':
            return ctx.subst[n.id][1]
        if isinstance(n, ast.BinOp) and isinstance(n.op, ast.Add):
            a, b = self.const(n.left, ctx), self.const(n.right, ctx)
            if a is not None and b is not None:
                return a + b
        if isinstance(n, ast.Call) and isinstance(n.func, ast.Attribute) and n.func.attr in STRMETH \
                and not n.args and not n.keywords:
            a = self.const(n.func.value, ctx)
            if a is not None:
                return STRMETH[n.func.attr](a)
        if isinstance(n, ast.JoinedStr):
            parts = [self.const(v, ctx) for v in n.values]
            if all(p is not None for p in parts):
                return ''.join(parts)
        return None

    def loc(self, n, ctx):
        """the tracked local a Name denotes, or None"""
        if not isinstance(n, ast.Name):
            return None
        if n.id in ctx.subst:
            v = ctx.subst[n.id]
            return v[1] if v[0] == 'loc' else None
        if n.id in ctx.tracked:
            return ctx.prefix + n.id
        return None

    def env_value(self, v, ctx):
        """value expressions that read one variable into a local"""
        if isinstance(v, ast.Subscript) and self.is_environ(v.value):
            c = self.const(v.slice, ctx)
            return ('load', c) if c is not None else None
        if isinstance(v, ast.Call) and isinstance(v.func, ast.Attribute) and self.is_environ(v.func.value) \
                and v.func.attr in ('get', 'pop') and not v.keywords and 1 <= len(v.args) <= 2:
            c = self.const(v.args[0], ctx)
            dflt_none = len(v.args) == 1 or (isinstance(v.args[1], ast.Constant) and v.args[1].value is None)
            if c is None:
                return None
            if v.func.attr == 'get' and dflt_none:
                return ('save', c)
            if v.func.attr == 'pop' and len(v.args) == 2 and dflt_none:
                return ('popsave', c)
        return None

    def tracked_names(self, fn):
        out = set()
        for n in ast.walk(fn):
            if isinstance(n, (ast.Assign, ast.AnnAssign)):
                tg = n.targets if isinstance(n, ast.Assign) else [n.target]
                if len(tg) == 1 and isinstance(tg[0], ast.Name) and n.value is not None \
                        and self.env_value(n.value, Ctx('', '', set(), {}, ())):
                    out.add(tg[0].id)
        return out

    # ------------------------------------------------------------ bookkeeping
    def newid(self, kind, node, ctx, **kw):
        self.nid += 1
        end = getattr(node, 'end_lineno', node.lineno)
        # compound statements: the point belongs to the header, not to the whole block
        if isinstance(node, (ast.If, ast.While)):
            end = node.test.end_lineno
        elif isinstance(node, (ast.For, ast.AsyncFor)):
            end = node.iter.end_lineno
        elif isinstance(node, (ast.With, ast.AsyncWith)):
            end = max(i.context_expr.end_lineno for i in node.items)
        elif isinstance(node, (ast.FunctionDef, ast.AsyncFunctionDef, ast.ClassDef, ast.Try, ast.ExceptHandler)):
            end = node.lineno
        m = dict(kind=kind, func=ctx.fn, line=node.lineno, end=end)
        if ctx.round is not None:
            m['round'] = list(ctx.round)
        m.update(kw)
        self.meta[self.nid] = m
        return self.nid

    def unsup(self, node, ctx, msg):
        self.unsupported.append({'func': ctx.fn, 'line': getattr(node, 'lineno', 0), 'msg': msg})

    def stored(self, node, ctx):
        """tracked locals (re)bound by the expression parts of a statement"""
        out = []
        for n in ast.walk(node):
            if isinstance(n, ast.Name) and not isinstance(n.ctx, ast.Load) and n.id in ctx.tracked:
                out.append(ctx.prefix + n.id)
            if isinstance(n, ast.alias):
                nm = (n.asname or n.name).split('.')[0]
                if nm in ctx.tracked:
                    out.append(ctx.prefix + nm)
        return sorted(set(out))

    def kills(self, node, ctx, names=None):
        names = self.stored(node, ctx) if names is None else names
        return [['kill', x, self.newid('value', node, ctx)] for x in names]

    # ------------------------------------------------------------ expressions
    def scan(self, n, ctx, acc, cond=False):
        if n is None or self.const(n, ctx) is not None:
            return
        if self.is_environ(n):
            self.unsup(n, ctx, 'os.environ used as a value (may be aliased or mutated elsewhere)')
            return
        t = type(n)
        if t in (ast.Name, ast.Constant):
            return
        if t is ast.Subscript and self.is_environ(n.value):
            if not isinstance(n.ctx, ast.Load):
                self.unsup(n, ctx, 'environment write in an unsupported position')
                return
            c = self.const(n.slice, ctx)
            if c is not None and not cond:
                acc['needs'].append(c)
            else:
                acc['risky'] = True
                self.scan(n.slice, ctx, acc, cond)
            return
        if t is ast.Call and isinstance(n.func, ast.Attribute) and self.is_environ(n.func.value):
            m = n.func.attr
            if m == 'get':
                for a in list(n.args) + [k.value for k in n.keywords]:
                    self.scan(a, ctx, acc, cond)
                if not (n.args and self.const(n.args[0], ctx) is not None):
                    acc['risky'] = True
                return
            if m in READERS:
                return
            self.unsup(n, ctx, 'os.environ.%s(...) in an unsupported position' % m)
            return
        if self.is_os_call(n, ('putenv', 'unsetenv')):
            self.unsup(n, ctx, 'os.putenv/os.unsetenv')
            return
        if t is ast.Compare and len(n.ops) == 1 and isinstance(n.ops[0], (ast.In, ast.NotIn)) \
                and self.is_environ(n.comparators[0]):
            if self.const(n.left, ctx) is None:
                acc['risky'] = True
                self.scan(n.left, ctx, acc, cond)
            return
        if t is ast.Compare and all(isinstance(op, (ast.Is, ast.IsNot)) for op in n.ops):
            for c in [n.left] + list(n.comparators):
                self.scan(c, ctx, acc, cond)
            return
        if t is ast.Call and isinstance(n.func, ast.Name) and n.func.id in self.inlinable:
            self.unsup(n, ctx, 'call of the environment-writing function %s inside an expression' % n.func.id)
            return
        if t in (ast.Tuple, ast.List, ast.Set):
            for e in n.elts:
                self.scan(e, ctx, acc, cond)
            return
        if t is ast.Dict:
            for k in n.keys:
                if k is None or not isinstance(k, ast.Constant):
                    acc['risky'] = True
                self.scan(k, ctx, acc, cond)
            for v in n.values:
                self.scan(v, ctx, acc, cond)
            return
        if t is ast.Lambda:
            if self.mentions_environ(n):
                self.unsup(n, ctx, 'lambda that touches os.environ')
            return
        if t in (ast.Yield, ast.YieldFrom, ast.Await):
            self.unsup(n, ctx, 'generator / coroutine (the environment is observable while suspended)')
            return
        if t is ast.NamedExpr:
            self.scan(n.value, ctx, acc, cond)
            return
        acc['risky'] = True
        inner_cond = cond or t in (ast.BoolOp, ast.IfExp, ast.ListComp, ast.SetComp, ast.DictComp, ast.GeneratorExp)
        first = True
        for c in ast.iter_child_nodes(n):
            cc = inner_cond and not (first and t in (ast.BoolOp, ast.IfExp) and False)
            first = False
            if isinstance(c, ast.keyword):
                self.scan(c.value, ctx, acc, cc)
            elif isinstance(c, ast.comprehension):
                self.scan(c.iter, ctx, acc, True)
                for i in c.ifs:
                    self.scan(i, ctx, acc, True)
            elif isinstance(c, ast.expr):
                self.scan(c, ctx, acc, cc)

    def simple(self, node, ctx, exprs, force=False, kind='fault'):
        """fault point (if anything may raise) and unconditional environment lookups of a statement"""
        acc = {'risky': bool(force), 'needs': []}
        for e in exprs:
            self.scan(e, ctx, acc)
        out = []
        if acc['risky']:
            out.append(['fault', self.newid(kind, node, ctx)])
        out += [['need', c] for c in acc['needs']]
        return out

    # ------------------------------------------------------------ statements
    def function(self, name, stack=()):
        fn = self.funcs[name]
        prefix = '' if not stack else name + '.'
        ctx = Ctx(name, prefix, self.tracked_names(fn), {}, tuple(stack) + (name,))
        for n in ast.walk(fn):
            if n is not fn and isinstance(n, (ast.FunctionDef, ast.AsyncFunctionDef, ast.ClassDef)):
                if self.mentions_environ(n) or any(isinstance(m, ast.Name) and m.id in ctx.tracked for m in ast.walk(n)):
                    self.unsup(n, ctx, 'nested definition that touches os.environ or a saved value')
            if isinstance(n, (ast.Global, ast.Nonlocal)) and set(n.names) & ctx.tracked:
                self.unsup(n, ctx, 'global/nonlocal declaration of a local that saves an environment value')
        if fn.decorator_list:
            self.notes.append('%s: decorators are not modelled' % name)
        return self.block(fn.body, ctx)

    def block(self, stmts, ctx):
        out = []
        for s in stmts:
            out += self.stmt(s, ctx)
        return seq(out)

    def try_inline(self, value, node, ctx):
        if not (isinstance(value, ast.Call) and isinstance(value.func, ast.Name) and value.func.id in self.inlinable):
            return None
        f = value.func.id
        if f in ctx.stack:
            self.unsup(node, ctx, 'recursive call of the environment-writing function %s' % f)
            return None
        acc = {'risky': True, 'needs': []}
        for a in list(value.args) + [k.value for k in value.keywords]:
            self.scan(a, ctx, acc)
        out = [['fault', self.newid('fault', node, ctx, call=f)]] + [['need', c] for c in acc['needs']]
        self.inlined.add(f)
        out.append(['scope', self.function(f, ctx.stack)])
        return out

    def stmt(self, n, ctx):
        t = type(n)
        m = getattr(self, 's_' + t.__name__, None)
        if m is None:
            self.unsup(n, ctx, 'statement %s is not supported' % t.__name__)
            return [['fault', self.newid('fault', n, ctx)]]
        return m(n, ctx)

    def s_Pass(self, n, ctx):
        return []

    def s_Global(self, n, ctx):
        return []

    s_Nonlocal = s_Global

    def s_Break(self, n, ctx):
        self.unsup(n, ctx, 'break/continue are not modelled')
        return []

    s_Continue = s_Break

    def s_Expr(self, n, ctx):
        v = n.value
        if isinstance(v, ast.Constant):
            return []
        if isinstance(v, ast.Call) and isinstance(v.func, ast.Attribute) and self.is_environ(v.func.value) \
                and v.func.attr == 'pop' and not v.keywords and 1 <= len(v.args) <= 2:
            c = self.const(v.args[0], ctx)
            if c is None:
                self.unsup(n, ctx, 'os.environ.pop of a computed variable name')
                return []
            if len(v.args) == 1:
                return [['del', c]]
            return self.simple(n, ctx, [v.args[1]]) + [['pop', c]]
        inl = self.try_inline(v, n, ctx)
        if inl is not None:
            return inl
        return self.simple(n, ctx, [v]) + self.kills(n, ctx)

    def s_Assign(self, n, ctx, targets=None, value=None):
        targets = n.targets if targets is None else targets
        value = n.value if value is None else value
        if len(targets) == 1:
            t = targets[0]
            if isinstance(t, ast.Name):
                x = ctx.prefix + t.id if t.id in ctx.tracked else None
                ev = self.env_value(value, ctx)
                if x and ev:
                    if ev[0] == 'load':
                        return [['load', x, ev[1]]]
                    if ev[0] == 'save':
                        return [['save', x, ev[1]]]
                    return [['save', x, ev[1]], ['pop', ev[1]]]
                if x and isinstance(value, ast.Constant) and value.value is None:
                    return [['setNone', x]]
            if isinstance(t, ast.Subscript) and self.is_environ(t.value):
                c = self.const(t.slice, ctx)
                if c is None:
                    self.unsup(n, ctx, 'assignment to a computed environment variable name')
                    return [['fault', self.newid('fault', n, ctx)]]
                y = self.loc(value, ctx)
                if y:
                    return [['setFrom', c, y]]
                return self.simple(n, ctx, [value]) + [['setExpr', c, self.newid('value', n, ctx)]]
        for t in targets:
            if self.mentions_environ(t):
                self.unsup(n, ctx, 'environment write in an unsupported assignment form')
        inl = self.try_inline(value, n, ctx)
        unpack = any(not isinstance(t, ast.Name) for t in targets)
        if inl is not None:
            out = inl
            if unpack:
                out = out + [['fault', self.newid('fault', n, ctx)]]
        else:
            out = self.simple(n, ctx, [value] + [t for t in targets if not isinstance(t, (ast.Name, ast.Tuple, ast.List))],
                              force=unpack)
        kl = []
        for t in targets:
            kl += self.stored(t, ctx)
        return out + self.kills(n, ctx, sorted(set(kl)))

    def s_AnnAssign(self, n, ctx):
        if n.value is None:
            return []
        return self.s_Assign(n, ctx, [n.target], n.value)

    def s_AugAssign(self, n, ctx):
        t = n.target
        if isinstance(t, ast.Subscript) and self.is_environ(t.value):
            c = self.const(t.slice, ctx)
            if c is None:
                self.unsup(n, ctx, 'augmented assignment to a computed environment variable name')
                return [['fault', self.newid('fault', n, ctx)]]
            return [['need', c]] + self.simple(n, ctx, [n.value], force=True) + \
                [['setExpr', c, self.newid('value', n, ctx)]]
        if self.mentions_environ(t):
            self.unsup(n, ctx, 'environment write in an unsupported assignment form')
        return self.simple(n, ctx, [n.value, t] if not isinstance(t, ast.Name) else [n.value], force=True) + \
            self.kills(t, ctx)

    def s_Delete(self, n, ctx):
        out = []
        for t in n.targets:
            if isinstance(t, ast.Subscript) and self.is_environ(t.value):
                c = self.const(t.slice, ctx)
                if c is None:
                    self.unsup(n, ctx, 'del of a computed environment variable name')
                else:
                    out.append(['del', c])
            elif isinstance(t, ast.Name):
                out += self.kills(t, ctx)
            else:
                if self.mentions_environ(t):
                    self.unsup(n, ctx, 'environment write in an unsupported del form')
                out += self.simple(n, ctx, [], force=True)
        return out

    def s_Return(self, n, ctx):
        if n.value is not None:
            inl = self.try_inline(n.value, n, ctx)
            if inl is not None:
                return inl + [['ret']]
        return self.simple(n, ctx, [n.value]) + [['ret']]

    def s_Raise(self, n, ctx):
        return self.simple(n, ctx, [n.exc, n.cause]) + [['raise']]

    def s_Assert(self, n, ctx):
        return self.simple(n, ctx, [n.test, n.msg], force=True)

    def s_Import(self, n, ctx):
        return self.simple(n, ctx, [], force=True) + self.kills(n, ctx)

    s_ImportFrom = s_Import

    def s_FunctionDef(self, n, ctx):
        return self.simple(n, ctx, list(n.decorator_list) + [d for d in n.args.defaults] +
                           [d for d in n.args.kw_defaults if d is not None]) + \
            self.kills(n, ctx, [ctx.prefix + n.name] if n.name in ctx.tracked else [])

    def s_ClassDef(self, n, ctx):
        return self.simple(n, ctx, [], force=True) + \
            self.kills(n, ctx, [ctx.prefix + n.name] if n.name in ctx.tracked else [])

    def s_If(self, n, ctx):
        test, neg = n.test, False
        while isinstance(test, ast.UnaryOp) and isinstance(test.op, ast.Not):
            test, neg = test.operand, not neg
        then, els = self.block(n.body, ctx), self.block(n.orelse, ctx)
        if isinstance(test, ast.Compare) and len(test.ops) == 1:
            op, a, b = test.ops[0], test.left, test.comparators[0]
            if isinstance(op, (ast.Is, ast.IsNot)):
                other = b if (isinstance(a, ast.Constant) and a.value is None) else \
                    (a if (isinstance(b, ast.Constant) and b.value is None) else None)
                if other is not None:
                    flip = neg != isinstance(op, ast.IsNot)
                    y = self.loc(other, ctx)
                    if y:
                        return [['ifNone', y, els, then] if flip else ['ifNone', y, then, els]]
                    if self.const(other, ctx) is not None:       # a string is never None
                        return [then if flip else els]
            if isinstance(op, (ast.In, ast.NotIn)) and self.is_environ(b):
                c = self.const(a, ctx)
                if c is not None:
                    flip = neg != isinstance(op, ast.NotIn)
                    return [['ifSet', c, els, then] if flip else ['ifSet', c, then, els]]
        pre = self.simple(n, ctx, [n.test], force=True)
        cid = self.newid('choice', n, ctx, anchor=n.lineno, then_line=n.body[0].lineno)
        return pre + [['choice', cid, then, els]]

    def unroll_values(self, n, ctx):
        """for <names> in (<literal>, ...): the bindings of each round, or None"""
        if not isinstance(n.iter, (ast.Tuple, ast.List)) or n.orelse and False:
            return None
        tg = n.target
        names = [tg.id] if isinstance(tg, ast.Name) else \
            [e.id for e in tg.elts] if isinstance(tg, (ast.Tuple, ast.List)) and all(isinstance(e, ast.Name) for e in tg.elts) \
            else None
        if names is None:
            return None
        for b in n.body:
            for m in ast.walk(b):
                if isinstance(m, ast.Name) and not isinstance(m.ctx, ast.Load) and m.id in names:
                    return None
                if isinstance(m, (ast.Break, ast.Continue)):
                    return None

        def classify(e):
            c = self.const(e, ctx)
            if c is not None:
                return ('const', c)
            if isinstance(e, ast.Name):
                y = self.loc(e, ctx)
                if y:
                    return ('loc', y)
                return ctx.subst.get(e.id, ('opaque',)) if e.id in ctx.subst else ('opaque',)
            if isinstance(e, ast.Constant):
                return ('opaque',)
            return None
        rounds = []
        for e in n.iter.elts:
            if isinstance(tg, ast.Name):
                v = classify(e)
                if v is None:
                    return None
                rounds.append({names[0]: v})
            else:
                if not isinstance(e, (ast.Tuple, ast.List)) or len(e.elts) != len(names):
                    return None
                vs = [classify(x) for x in e.elts]
                if any(v is None for v in vs):
                    return None
                rounds.append(dict(zip(names, vs)))
        return rounds

    def s_For(self, n, ctx):
        rounds = self.unroll_values(n, ctx)
        if rounds is not None:
            out = []
            for r in rounds:
                self.copies[id(n)] = self.copies.get(id(n), 0) + 1
                out.append(self.block(n.body, ctx.with_subst(r, (n.body[0].lineno, self.copies[id(n)]))))
            return out + [self.block(n.orelse, ctx)]
        pre = self.simple(n, ctx, [n.iter], force=True)
        lid = self.newid('loop', n, ctx, body_line=n.body[0].lineno)
        body = seq(self.kills(n.target, ctx) + [self.block(n.body, ctx)])
        return pre + [['loop', lid, body], self.block(n.orelse, ctx)]

    def s_While(self, n, ctx):
        lid = self.newid('loop', n, ctx, body_line=n.body[0].lineno)
        body = seq(self.simple(n, ctx, [n.test], force=True) + [self.block(n.body, ctx)])
        return [['loop', lid, body]] + self.simple(n, ctx, [n.test], force=True) + [self.block(n.orelse, ctx)]

    def s_Try(self, n, ctx):
        body = self.block(n.body, ctx)
        if n.handlers:
            hs = []
            for h in n.handlers:
                k = self.kills(h, ctx, [ctx.prefix + h.name]) if (h.name and h.name in ctx.tracked) else []
                hs.append(seq(k + [self.block(h.body, ctx)]))
            hir = hs[-1]
            for h, ir in reversed(list(zip(n.handlers[:-1], hs[:-1]))):
                hid = self.newid('choice', h, ctx, anchor=n.body[0].lineno, then_line=h.body[0].lineno)
                hir = ['choice', hid, ir, hir]
            tid = self.newid('except', n, ctx, anchor=n.body[0].lineno,
                             handler_lines=[h.body[0].lineno for h in n.handlers])
            body = ['tryExcept', tid, body, hir]
        if n.orelse:
            self.notes.append('%s:%d: try/else over-approximated as try followed by else' % (ctx.fn, n.lineno))
            body = seq([body, self.block(n.orelse, ctx)])
        if n.finalbody:
            body = ['tryFinally', body, self.block(n.finalbody, ctx)]
        return [body]

    def s_With(self, n, ctx):
        out = []
        for it in n.items:
            out += self.simple(n, ctx, [it.context_expr], force=True)
            if it.optional_vars is not None:
                if self.mentions_environ(it.optional_vars):
                    self.unsup(n, ctx, 'environment write in a with target')
                out += self.kills(it.optional_vars, ctx)
        wid = self.newid('with', n, ctx)
        out.append(['tryExcept', wid, self.block(n.body, ctx), ['skip']])
        out.append(['fault', self.newid('fault', n, ctx, exit=True)])
        return out


def env_writer_census(pkg_root):
    """every function of the package (tests excluded) that writes os.environ syntactically"""
    import pathlib
    found = []
    for f in sorted(pathlib.Path(pkg_root).rglob('*.py')):
        if 'tests' in f.parts:
            continue
        try:
            tr = Translator(f)
        except SyntaxError:
            continue
        for n in ast.walk(tr.tree):
            if isinstance(n, (ast.FunctionDef, ast.AsyncFunctionDef)) and tr.writes_env(n):
                # innermost only
                if not any(isinstance(m, (ast.FunctionDef, ast.AsyncFunctionDef)) and m is not n and tr.writes_env(m)
                           for m in ast.walk(n)):
                    found.append((str(f.relative_to(pkg_root)), n.name))
        body_level = [s for s in tr.tree.body if not isinstance(s, (ast.FunctionDef, ast.AsyncFunctionDef, ast.ClassDef))]
        if any(tr.writes_env(s) for s in body_level):
            found.append((str(f.relative_to(pkg_root)), '<module>'))
    return found


def called_names(fn):
    out = set()
    for n in ast.walk(fn):
        if isinstance(n, ast.Call):
            if isinstance(n.func, ast.Name):
                out.add(n.func.id)
            elif isinstance(n.func, ast.Attribute):
                out.add(n.func.attr)
    return out


def translate(path, func):
    """IR of one module-level function (environment-writing callees of the same module inlined)"""
    tr = Translator(path)
    if func not in tr.funcs:
        tr.unsup(tr.tree, Ctx(func, '', set(), {}, ()), 'function %s not found in %s' % (func, path))
        return tr, ['fault', 0]
    ir = tr.function(func)
    return tr, ir


HEADER = '''/- GENERATED on every run by harness/xlate/c20_envir.py from the Python sources named below.
   Do not edit; not under version control. -/
import PydlVerif.Model.EnvIR
namespace PydlVerif.Gen.C20
open PydlVerif.EnvIR PydlVerif.EnvIR.Stmt

'''


def emit(progs):
    """progs: list of dict(name, ir, vars, source, unsupported).  Returns (text, {theorem: line})"""
    lines = HEADER.splitlines()
    where = {}
    for p in progs:
        lines.append('/-- IR of %s -/' % p['source'])
        lines.append('def %s : Stmt :=' % p['name'])
        lines.append('  ' + lean(p['ir']))
        lines.append('')
        for u in p['unsupported']:
            lines.append('-- not translatable: %s:%d %s' % (u['func'], u['line'], u['msg']))
        lines.append('/-- number of constructs outside the translatable fragment -/')
        where[p['name'] + '_translated'] = len(lines) + 1
        lines.append('theorem %s_translated : (%d : Nat) = 0 := by decide' % (p['name'], len(p['unsupported'])))
        vs = '[' + ', '.join('"%s"' % v for v in p['vars']) + ']'
        where[p['name'] + '_restores'] = len(lines) + 1
        lines.append('theorem %s_restores : restores %s %s = true := by decide' % (p['name'], p['name'], vs))
        lines.append('')
    lines.append('end PydlVerif.Gen.C20')
    return '\n'.join(lines) + '\n', where

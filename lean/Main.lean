import Lean.Data.Json
import PydlVerif.Driver.C01
import PydlVerif.Driver.C02
import PydlVerif.Driver.C03
import PydlVerif.Driver.C04
import PydlVerif.Driver.C05
import PydlVerif.Driver.C06
import PydlVerif.Driver.C07
import PydlVerif.Driver.C08
import PydlVerif.Driver.C09
import PydlVerif.Driver.C10
import PydlVerif.Driver.C11
import PydlVerif.Driver.C12
import PydlVerif.Driver.C13
import PydlVerif.Driver.C14
import PydlVerif.Driver.C15
import PydlVerif.Driver.C16
import PydlVerif.Driver.C17
import PydlVerif.Driver.C18
import PydlVerif.Driver.C19
import PydlVerif.Driver.C20
open Lean

/-- line protocol: one JSON object per line, field "p" names the property whose
model operations are addressed; the answer is one JSON value per line. -/
def dispatch (p : String) (j : Json) : Except String Json :=
  match p with
  | "C01" => PydlVerif.Driver.C01.handle j
  | "C02" => PydlVerif.Driver.C02.handle j
  | "C03" => PydlVerif.Driver.C03.handle j
  | "C04" => PydlVerif.Driver.C04.handle j
  | "C05" => PydlVerif.Driver.C05.handle j
  | "C06" => PydlVerif.Driver.C06.handle j
  | "C07" => PydlVerif.Driver.C07.handle j
  | "C08" => PydlVerif.Driver.C08.handle j
  | "C09" => PydlVerif.Driver.C09.handle j
  | "C10" => PydlVerif.Driver.C10.handle j
  | "C11" => PydlVerif.Driver.C11.handle j
  | "C12" => PydlVerif.Driver.C12.handle j
  | "C13" => PydlVerif.Driver.C13.handle j
  | "C14" => PydlVerif.Driver.C14.handle j
  | "C15" => PydlVerif.Driver.C15.handle j
  | "C16" => PydlVerif.Driver.C16.handle j
  | "C17" => PydlVerif.Driver.C17.handle j
  | "C18" => PydlVerif.Driver.C18.handle j
  | "C19" => PydlVerif.Driver.C19.handle j
  | "C20" => PydlVerif.Driver.C20.handle j
  | _ => throw s!"unknown property {p}"

def answer (line : String) : String :=
  match Json.parse line with
  | .error e => (Json.mkObj [("driver_error", Json.str e)]).compress
  | .ok j =>
    match j.getObjValAs? String "p" with
    | .error e => (Json.mkObj [("driver_error", Json.str e)]).compress
    | .ok p =>
      match dispatch p j with
      | .ok r => r.compress
      | .error e => (Json.mkObj [("driver_error", Json.str e)]).compress

partial def loop (hin hout : IO.FS.Stream) : IO Unit := do
  let line ← hin.getLine
  if line.isEmpty then return ()
  if line.trimAscii.isEmpty then loop hin hout else
  hout.putStrLn (answer line)
  loop hin hout

def main : IO Unit := do
  loop (← IO.getStdin) (← IO.getStdout)

import PydlVerif.Model.JsonUtil
open Lean
namespace PydlVerif.Driver.C01

def handle (_j : Json) : Except String Json := throw "C01: no model operations yet"

end PydlVerif.Driver.C01

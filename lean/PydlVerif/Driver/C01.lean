import PydlVerif.Model.JsonUtil
import PydlVerif.Model.YannyDom
open Lean
namespace PydlVerif.Driver.C01
open PydlVerif PydlVerif.Yanny

/-! Executable float instance: a float cell is carried as the text numpy printed for it. -/

def digits1 (s : Str) : Option Str :=
  match s.takeWhile Char.isDigit with
  | [] => none
  | _ => some (s.dropWhile Char.isDigit)

def expPart (s : Str) : Bool :=
  match s with
  | [] => true
  | e :: r =>
    if e == 'e' || e == 'E' then
      let r := match r with
        | '+' :: t => t
        | '-' :: t => t
        | _ => r
      digits1 r == some []
    else false

/-- the texts Python's `float()` accepts (without surrounding blanks or `_`) -/
def floatSyntax (t : Str) : Bool :=
  let u := match t with
    | '+' :: r => r
    | '-' :: r => r
    | _ => t
  let l := lower u
  if l == "inf".toList || l == "infinity".toList || l == "nan".toList then true else
  match u with
  | '.' :: r => match digits1 r with
    | some r2 => expPart r2
    | none => false
  | _ =>
    match digits1 u with
    | none => false
    | some ('.' :: r) => expPart (r.dropWhile Char.isDigit)
    | some r => expPart r

def ioText : FloatIO Str := ⟨fun _ x => x, fun _ t => if floatSyntax t then some t else none⟩

/-- strings with non-ASCII characters go out as `{"u": [code points]}`: the harness reads the
driver's output with `str.splitlines`, which also splits at U+0085, U+2028, ... -/
def sj (s : Str) : Json :=
  if s.all (fun c => c.toNat < 128) then Json.str (String.ofList s)
  else Json.mkObj [("u", J.ofList (fun c => J.ofNat c.toNat) s)]
def js (j : Json) : Except String Str := do pure (← J.str j).toList

def fwJ : FW → Json
  | .f4 => J.ofNat 4
  | .f8 => J.ofNat 8

def scJ : Sc Str → Json
  | .int n => J.ofInt n
  | .flt w x => Json.mkObj [("w", fwJ w), ("t", sj x)]
  | .str s => sj s

def cellJ : Cell Str → Json
  | .one v => scJ v
  | .many vs => J.ofList scJ vs

def jsc (j : Json) : Except String (Sc Str) :=
  match j with
  | Json.str s => pure (.str s.toList)
  | Json.num _ => do pure (.int (← J.int j))
  | _ => do
    let w ← J.fNat j "w"
    let t ← js (← J.fld j "t")
    pure (.flt (if w == 4 then .f4 else .f8) t)

def jcell (j : Json) : Except String (Cell Str) :=
  match j with
  | Json.arr a => do pure (.many (← a.toList.mapM jsc))
  | _ => do pure (.one (← jsc j))

def npT (s : String) : Except String NpT :=
  match s with
  | "i2" => pure .i2 | "i4" => pure .i4 | "i8" => pure .i8 | "f4" => pure .f4 | "f8" => pure .f8
  | "u2" => pure .u2 | "u4" => pure .u4 | "u8" => pure .u8 | "i1" => pure .i1 | "u1" => pure .u1
  | "b1" => pure .b1 | "f2" => pure .f2 | "c8" => pure .c8 | "c16" => pure .c16
  | _ =>
    match s.toList with
    | 'S' :: r => match parseNat r with
      | some n => pure (.S n)
      | none => throw s!"bad type {s}"
    | 'U' :: r => match parseNat r with
      | some n => pure (.U n)
      | none => throw s!"bad type {s}"
    | _ => throw s!"bad type {s}"

def jcol (j : Json) : Except String Col := do
  match ← J.arr j with
  | #[n, t, l] => pure ⟨← js n, ← npT (← J.str t), ← J.nat l⟩
  | _ => throw "col: [name, type, alen]"

def jenum (j : Json) : Except String EnumDecl := do
  match ← J.arr j with
  | #[c, t, l] => pure ⟨← js c, ← js t, ← J.list js l⟩
  | _ => throw "enum: [col, type, labels]"

def jpair (j : Json) : Except String (Str × Str) := do
  match ← J.arr j with
  | #[k, v] => pure (← js k, ← js v)
  | _ => throw "pair: [k, v]"

def jtable (j : Json) : Except String (TableD Str) := do
  pure ⟨← js (← J.fld j "name"), ← J.list jcol (← J.fld j "cols"),
        ← J.list (J.list jcell) (← J.fld j "rows")⟩

def jdoc (j : Json) : Except String (Doc Str) := do
  pure ⟨← js (← J.fld j "comments"), ← J.list jpair (← J.fld j "hdr"),
        ← J.list jenum (← J.fld j "enums"), ← J.list jtable (← J.fld j "tables")⟩

def rtJ : RT → Json
  | .i2 => "i2" | .i4 => "i4" | .i8 => "i8" | .f4 => "f4" | .f8 => "f8"
  | .S n => Json.str ("S" ++ toString n)

def parsedJ (p : Parsed Str) : Json :=
  Json.mkObj [
    ("pairs", J.ofList (fun kv => Json.arr #[sj kv.1, sj kv.2]) p.pairs),
    ("tables", J.ofList (fun t => Json.mkObj [
      ("name", sj t.name),
      ("cols", J.ofList (fun c => Json.arr #[sj c.name, rtJ c.ty,
          match c.alen with
          | some n => J.ofNat n
          | none => Json.null]) t.cols),
      ("rows", J.ofList (J.ofList cellJ) t.rows)]) p.tables)]

def exJ {α} (f : α → Json) : Except String α → Json
  | .ok v => Json.mkObj [("ok", f v)]
  | .error e => Json.mkObj [("err", Json.str e)]

def tokJ (r : Except String (Str × Str)) : Json := exJ (fun p => Json.arr #[sj p.1, sj p.2]) r

def handle (j : Json) : Except String Json := do
  let op ← J.fStr j "op"
  match op with
  | "tok" =>
    -- protect, get_token, trailing_comment, double braces, strip on a batch of strings
    let ss ← J.list js (← J.fld j "s")
    pure (J.ofList (fun s => Json.mkObj [
      ("protect", sj (protect s)), ("token", tokJ (getToken s)),
      ("tc", sj (trailingComment s)), ("db", sj (doubleBraces s)), ("strip", sj (strip s)),
      ("tokp", tokJ (getToken (protect s)))]) ss)
  | "ints" =>
    let ns ← J.fInts j "n"
    pure (J.ofList (fun n => Json.arr #[sj (fmtInt n),
      match parseInt (fmtInt n) with
      | some m => J.ofInt m
      | none => Json.null]) ns)
  | "parseint" =>
    let ss ← J.list js (← J.fld j "s")
    pure (J.ofList (fun s => match parseInt s with
      | some m => J.ofInt m
      | none => Json.null) ss)
  | "struct" =>
    let cols ← J.list jcol (← J.fld j "cols")
    let name ← js (← J.fld j "name")
    let enums ← J.list jenum (← J.fld j "enums")
    pure (Json.mkObj [("struct", exJ sj (dtypeToStruct cols name enums)),
                      ("enum", J.ofList (fun e => sj (enumText e)) enums)])
  | "doc" =>
    -- render the document, parse the rendering, canonical form, domain predicate
    let d ← jdoc (← J.fld j "doc")
    let r := renderFile ioText d
    let p := match r with
      | .ok t => exJ parsedJ (parseFile ioText t)
      | .error e => Json.mkObj [("err", Json.str e)]
    pure (Json.mkObj [("text", exJ sj r), ("parsed", p), ("canon", parsedJ (canon d)),
                      ("ok", Json.bool (docOK ioText d))])
  | "parse" =>
    let t ← js (← J.fld j "text")
    let fr := front t
    pure (Json.mkObj [("parsed", exJ parsedJ (parseFile ioText t)),
      ("structs", J.ofList (fun d => sj d.text) fr.structs),
      ("enums", J.ofList (fun d => sj d.text) fr.enums),
      ("symbols", J.ofList (fun t => Json.arr #[sj t.1, J.ofList sj t.2]) fr.tables)])
  | "row" =>
    -- one data line: format and re-read the row body
    let cells ← J.list jcell (← J.fld j "cells")
    let sch := cells.map (fun c => match c with
      | .one (.int _) => (⟨.int, false⟩ : ColSpec)
      | .one (.flt w _) => ⟨.flt w, false⟩
      | .one (.str _) => ⟨.str, false⟩
      | .many (.int _ :: _) => ⟨.int, true⟩
      | .many (.flt w _ :: _) => ⟨.flt w, true⟩
      | .many _ => ⟨.str, true⟩)
    let body := fmtRowBody ioText cells
    pure (Json.mkObj [("body", sj body), ("back", exJ (J.ofList cellJ) (parseRow ioText sch body))])
  | _ => throw s!"C01: unknown op {op}"

end PydlVerif.Driver.C01

import PydlVerif.Model.JsonUtil
import PydlVerif.Model.YannyLayout
import PydlVerif.Driver.C01
open Lean
namespace PydlVerif.Driver.C02
open PydlVerif PydlVerif.Yanny PydlVerif.Driver.C01

/-! JSON codecs of layouts (see harness/props/c02.py, `lay_json`). -/

def jbool (j : Json) : Except String Bool := J.bool j

def jsep (j : Json) : Except String Sep := do
  match ← J.arr j with
  | #[a, c] =>
    if c.isNull then pure ⟨← js a, none⟩ else
    match ← J.arr c with
    | #[b, crlf, c2] => pure ⟨← js a, some (← js b, ← jbool crlf, ← js c2)⟩
    | _ => throw "sep.cont: [b, crlf, c]"
  | _ => throw "sep: [a, cont]"

def jq (j : Json) : Except String QStyle :=
  match j with
  | Json.arr #[p] => do pure (.braced (← js p))
  | _ => do
    let n ← J.nat j
    pure (if n == 0 then .bare else .quoted)

def jcellLay (j : Json) : Except String CellLay := do
  match j.getObjVal? "op" with
  | .ok op =>
    let rest ← J.list (fun e => do
      match ← J.arr e with
      | #[s, q] => pure (← jsep s, ← jq q)
      | _ => throw "elem: [sep, q]") (← J.fld j "rest")
    pure (.many (← js op) (← jq (← J.fld j "q")) rest (← js (← J.fld j "cl")))
  | .error _ => pure (.one (← jq (← J.fld j "q")))

def jcomment (j : Json) (k : String) : Except String (Option Str) := J.fOpt js j k

def jrowLay (j : Json) : Except String RowLay := do
  let cells ← J.list (fun e => do
    match ← J.arr e with
    | #[s, c] => pure (← jsep s, ← jcellLay c)
    | _ => throw "cell: [sep, lay]") (← J.fld j "cells")
  pure ⟨← js (← J.fld j "lead"), ← js (← J.fld j "name"), cells, ← js (← J.fld j "trail"),
        ← jcomment j "comment", ← J.fBool j "crlf"⟩

def jpairLay (j : Json) : Except String PairLay := do
  pure ⟨← js (← J.fld j "lead"), ← jsep (← J.fld j "sep"), ← js (← J.fld j "trail"),
        ← jcomment j "comment", ← J.fBool j "crlf"⟩

def jcolLay (j : Json) : Except String ColLay := do
  pure ⟨← js (← J.fld j "pre"), ← js (← J.fld j "gap"), ← J.fBool j "l1", ← J.fBool j "l2", ← J.fBool j "unsized"⟩

def jstructLay (j : Json) : Except String StructLay := do
  pure ⟨← js (← J.fld j "lead"), ← js (← J.fld j "g1"), ← js (← J.fld j "g2"),
        ← J.list jcolLay (← J.fld j "cols"), ← js (← J.fld j "closePre"), ← js (← J.fld j "g3"),
        ← js (← J.fld j "name"), ← js (← J.fld j "g4"), ← js (← J.fld j "trail"),
        ← jcomment j "comment", ← J.fBool j "crlf"⟩

def jenumLay (j : Json) : Except String EnumLay := do
  pure ⟨← js (← J.fld j "lead"), ← js (← J.fld j "g1"), ← js (← J.fld j "g2"), ← js (← J.fld j "op"),
        ← J.list js (← J.fld j "afterComma"), ← js (← J.fld j "cl"), ← js (← J.fld j "g3"),
        ← js (← J.fld j "g4"), ← js (← J.fld j "trail"), ← jcomment j "comment", ← J.fBool j "crlf"⟩

def jslot (j : Json) : Except String Slot := do
  let k ← J.fStr j "k"
  match k with
  | "pair" => pure (.pair (← jpairLay j))
  | "row" => pure (.row (← J.fNat j "t") (← jrowLay j))
  | "sdef" => pure (.sdef (← jstructLay j))
  | "edef" => pure (.edef (← jenumLay j))
  | "filler" => pure (.filler (← js (← J.fld j "text")) (← J.fBool j "crlf"))
  | _ => throw s!"slot kind {k}"

def jlayout (j : Json) : Except String Layout := do
  pure ⟨← J.list jslot (← J.fld j "slots"), ← J.fBool j "finalEol"⟩

def optJ {α} (f : α → Json) : Option α → Json
  | some v => f v
  | none => Json.null

def rawJ (r : RawParsed Str) : Json :=
  Json.mkObj [
    ("pairs", J.ofList (fun kv => Json.arr #[sj kv.1, sj kv.2]) r.pairs),
    ("tables", J.ofList (fun t =>
      let rows := match r.rows.find? (fun e => e.1 == t.1) with
        | some e => e.2
        | none => []
      Json.mkObj [("name", sj t.1),
        ("cols", J.ofList (fun c => Json.arr #[sj c.1, J.ofList cellJ c.2]) (rawColumns t.2 rows))])
      r.front.tables)]

/-- everything the harness compares for one text -/
def parseAll (t : Str) : Json :=
  let fr := front t
  Json.mkObj [
    ("parsed", exJ parsedJ (parseFile2 ioText t)),
    ("parsedOld", exJ parsedJ (parseFile ioText t)),
    ("parsedOldS", exJ parsedJ (parseFileS selectDef ioText t)),
    ("raw", exJ rawJ (parseRaw2 ioText t)),
    ("structs", J.ofList (fun d => sj d.text) fr.structs),
    ("enums", J.ofList (fun d => sj d.text) fr.enums),
    ("symbols", J.ofList (fun t => Json.arr #[sj t.1, J.ofList sj t.2]) fr.tables)]

def handle (j : Json) : Except String Json := do
  let op ← J.fStr j "op"
  match op with
  | "lay" =>
    -- render document × layout, parse the rendering (as read in binary and in text mode)
    let d ← jdoc (← J.fld j "doc")
    let lay ← jlayout (← J.fld j "lay")
    let ok := docOK2 d && layoutOK ioText d lay
    let ok2 := docOK2 d && layoutOK2 ioText d lay
    -- second extension round: the widened domain (binary read) and the text-mode domain
    let okw := docOK2 d && layoutOKW ioText d lay
    let oku := docOK2 d && layoutOKU ioText d lay
    match renders ioText d lay with
    | none => pure (Json.mkObj [("text", Json.null), ("ok", Json.bool ok), ("ok2", Json.bool ok2),
        ("okw", Json.bool okw), ("oku", Json.bool oku)])
    | some t =>
      let tn := univNl t
      pure (Json.mkObj [("text", sj t), ("ok", Json.bool ok), ("ok2", Json.bool ok2),
        ("okw", Json.bool okw), ("oku", Json.bool oku),
        ("univLay", optJ sj (renders ioText d lay.univ)),
        ("logical", optJ sj (rendersLogical ioText d lay)),
        ("canon", parsedJ (canon d)),
        ("bin", parseAll t),
        ("txt", if tn == t then Json.null else parseAll tn),
        ("univ", sj tn)])
  | "parse" =>
    let t ← js (← J.fld j "text")
    pure (parseAll t)
  | "sel" =>
    -- which typedef text `type()` selects: before and after the fix
    let structs ← J.list js (← J.fld j "structs")
    let table ← js (← J.fld j "table")
    pure (Json.mkObj [("old", optJ sj (selectDefOld structs table)), ("new", optJ sj (selectDef2 structs table)),
                      ("names", J.ofList (fun s => optJ sj (tdNameOf s)) structs)])
  | "qtok" =>
    -- token written in style q, followed by a separator and more text
    let items ← J.list (fun e => do
      pure (← jq (← J.fld e "q"), ← js (← J.fld e "s"), ← js (← J.fld e "tail"))) (← J.fld j "items")
    pure (J.ofList (fun (q, s, tail) => Json.mkObj [
      ("text", sj (quoteTok q s ++ tail)), ("legal", Json.bool (tokLegal q s)), ("elegal", Json.bool (elemLegal q s)),
      ("token", tokJ (getToken (quoteTok q s ++ tail)))]) items)
  | "tc" =>
    let ss ← J.list js (← J.fld j "s")
    pure (J.ofList (fun s => sj (trailingComment s)) ss)
  | _ => throw s!"C02: unknown op {op}"

end PydlVerif.Driver.C02

import PydlVerif.Model.JsonUtil
open Lean
namespace PydlVerif.Driver.C02

def handle (_j : Json) : Except String Json := throw "C02: no model operations yet"

end PydlVerif.Driver.C02

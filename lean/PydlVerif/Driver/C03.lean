import PydlVerif.Model.JsonUtil
import PydlVerif.Model.YannyHist
import PydlVerif.Model.YannyHistDom
import PydlVerif.Driver.C01
open Lean
namespace PydlVerif.Driver.C03
open PydlVerif PydlVerif.Yanny PydlVerif.Driver.C01

/-! Line protocol of C03.  Floats are carried as the text the writer prints (`ioHist`).

  {"op":"run","raw":b,"files":[[path,text],..],"start":path,"paths":[..],"ops":[..]}
      ops: {"k":"write","p":path|null,"cm":{"d":stamp}|{"s":text}|{"l":[..]}}
           {"k":"append","stamp":..,"data":[[key,{"t":text}|{"c":[[col,[cell,..]],..]}],..]}
           {"k":"nondict"} {"k":"reread"} {"k":"unlink"} {"k":"rebind","p":path}
      answer: {"init":state,"steps":[{"out":..,"state":..,"hyp":..},..]}
      optional "doc": the document (C01 `jdoc`) the start file was written from; the answer then has
      "dom": the hypotheses of `history_content` evaluated on this history (`docOK`, `rawOK`, the
      start file is `renderFile doc`, `histOK`; "bad": index of the first op that leaves the domain)
      and its conclusion ("final": the view after the last op is `viewOfDoc` of `histDoc`)
  {"op":"parse","raw":b,"text":..}  → view
-/

/-! `repr(float(t))` for a decimal text `t` of at most 17 significant digits: the digits stay, the
layout is Python's (`format_float_short` with code 'r': exponent form iff decpt <= -4 or decpt > 16). -/

def rstripZeros (d : Str) : Str := (d.reverse.dropWhile (· == '0')).reverse

def pad2 (n : Nat) : Str := if n < 10 then '0' :: fmtNat n else fmtNat n

def pyRepr (t : Str) : Str :=
  let neg := t.head? == some '-'
  let u := match t with
    | '-' :: r => r
    | '+' :: r => r
    | _ => t
  let sg : Str := if neg then ['-'] else []
  let l := lower u
  if l == "nan".toList then "nan".toList
  else if l == "inf".toList || l == "infinity".toList then sg ++ "inf".toList
  else
    let isE := fun (c : Char) => c == 'e' || c == 'E'
    let mant := u.takeWhile (fun c => !isE c)
    let ex := (u.dropWhile (fun c => !isE c)).drop 1
    let ip := mant.takeWhile (· != '.')
    let fp := (mant.dropWhile (· != '.')).drop 1
    let e : Int := (parseInt ex).getD 0
    let digits := ip ++ fp
    let lead := (digits.takeWhile (· == '0')).length
    let d := rstripZeros (digits.drop lead)
    if d.isEmpty then sg ++ "0.0".toList else
    let decpt : Int := (ip.length : Int) + e - (lead : Int)
    if decpt ≤ -4 || decpt > 16 then
      let x := decpt - 1
      sg ++ d.take 1 ++ (if d.length > 1 then '.' :: d.drop 1 else []) ++
        'e' :: (if x < 0 then '-' else '+') :: pad2 x.natAbs
    else if decpt ≤ 0 then sg ++ '0' :: '.' :: (List.replicate decpt.natAbs '0' ++ d)
    else if d.length ≤ decpt.toNat then sg ++ d ++ List.replicate (decpt.toNat - d.length) '0' ++ ".0".toList
    else sg ++ d.take decpt.toNat ++ '.' :: d.drop decpt.toNat

/-- executable float instance of C03: a float is the text printed for it; a binary64 value (double
columns, and every float in raw mode) is carried in Python's layout, a float32 value as numpy
prints it -/
def ioHist : FloatIO Str :=
  ⟨fun _ x => x, fun w t => if floatSyntax t then some (match w with | .f8 => pyRepr t | .f4 => t) else none⟩

def tviewJ (t : TView Str) : Json :=
  Json.mkObj [
    ("name", sj t.name),
    ("cols", J.ofList sj t.cols),
    ("types", match t.types with
      | none => Json.null
      | some cs => J.ofList (fun c => Json.arr #[sj c.name, rtJ c.ty,
          match c.alen with
          | some n => J.ofNat n
          | none => Json.null]) cs),
    ("rows", J.ofList (J.ofList cellJ) t.rows)]

def viewJ (v : View Str) : Json :=
  Json.mkObj [
    ("structs", J.ofList sj v.structs),
    ("enums", J.ofList sj v.enums),
    ("symbols", J.ofList (fun t => Json.arr #[sj t.1, J.ofList sj t.2]) v.symbols),
    ("pairs", J.ofList (fun kv => Json.arr #[sj kv.1, sj kv.2]) v.pairs),
    ("tables", J.ofList tviewJ v.tables)]

def outJ : Out → Json
  | .ok => Json.str "ok"
  | .warn => Json.str "warn"
  | .error k => Json.mkObj [("error", Json.str k)]

def stateJ (paths : List Str) (s : State Str) : Json :=
  Json.mkObj [
    ("filename", sj s.obj.filename),
    ("contents", sj s.obj.contents),
    ("view", exJ viewJ s.obj.view),
    ("files", J.ofList (fun p => Json.arr #[sj p, match s.fs p with
      | some t => sj t
      | none => Json.null]) paths)]

def jcm (j : Json) : Except String Comments :=
  match j.getObjVal? "d" with
  | .ok d => do pure (.default (← js d))
  | .error _ =>
    match j.getObjVal? "s" with
    | .ok s => do pure (.text (← js s))
    | .error _ => do pure (.lines (← J.list js (← J.fld j "l")))

def javal (j : Json) : Except String (AVal Str) :=
  match j.getObjVal? "t" with
  | .ok t => do pure (.text (← js t))
  | .error _ => do
    let cs ← J.list (fun c => do
      match ← J.arr c with
      | #[n, cells] => pure (← js n, ← J.list jcell cells)
      | _ => throw "column: [name, cells]") (← J.fld j "c")
    pure (.table cs)

def jop (j : Json) : Except String (Op Str) := do
  match ← J.fStr j "k" with
  | "write" =>
    let p ← J.fOpt js j "p"
    pure (.write p (← jcm (← J.fld j "cm")))
  | "append" =>
    let data ← J.list (fun e => do
      match ← J.arr e with
      | #[k, v] => pure (← js k, ← javal v)
      | _ => throw "entry: [key, value]") (← J.fld j "data")
    pure (.append data (← js (← J.fld j "stamp")))
  | "nondict" => pure .appendNonDict
  | "reread" => pure .reread
  | "unlink" => pure .unlink
  | "rebind" => pure (.rebind (← js (← J.fld j "p")))
  | k => throw s!"C03: unknown op kind {k}"

def viewEq (a b : Except String (View Str)) : Bool :=
  match a, b with
  | .ok x, .ok y => decide (x = y)
  | .error x, .error y => x == y
  | _, _ => false

def scF4 : Sc Str → Bool
  | .flt .f4 _ => true
  | _ => false

def cellF4 : Cell Str → Bool
  | .one v => scF4 v
  | .many vs => vs.any scF4

def loopEq (a b : Except String (LoopSt Str)) : Bool :=
  match a, b with
  | .ok x, .ok y => decide (x.pairs = y.pairs) && decide (x.rows = y.rows)
  | .error x, .error y => x == y
  | _, _ => false

/-- the hypotheses of `history_content_partial`, and its conclusion, evaluated on the step actually taken:
`front`: an accepted append left the front half of `_parse` undisturbed (FrontStable) and the text
         so far ended its last line (RestNl);
`content`: the document read after an accepted append = the document before + the accepted pairs and rows;
`render`: after an accepted write the document read from the rendered text is the document read
          before (RenderLoop), and the re-parse returns the view that was written. -/
def hypJ (s : State Str) (op : Op Str) (r : State Str × Out) : Json :=
  match op with
  | .append d _ =>
    match acceptedAppend ioHist s d with
    | some (ps, gs) =>
      let before := loopOf ioHist s.obj.raw s.obj.contents
      let want : Except String (LoopSt Str) := match before with
        | .ok doc => .ok (applyAppend doc ps gs)
        | .error e => .error e
      Json.mkObj [
        ("front", Json.bool (frontStable s.obj.contents (r.1.obj.contents.drop s.obj.contents.length) &&
                             restNl s.obj.contents)),
        -- raw mode reads every float as binary64: a float32 datum is outside `GroupOK` there
        ("content", if s.obj.raw && gs.any (fun g => g.2.any (fun r => r.any cellF4)) then Json.null
                    else Json.bool (loopEq (loopOf ioHist s.obj.raw r.1.obj.contents) want))]
    | none => Json.null
  | .write _ _ =>
    if r.2 == Out.ok then
      Json.mkObj [("render", Json.bool (viewEq r.1.obj.view s.obj.view &&
        loopEq (loopOf ioHist s.obj.raw r.1.obj.contents) (loopOf ioHist s.obj.raw s.obj.contents)))]
    else Json.null
  | _ => Json.null

def traceJ (paths : List Str) (s : State Str) : List (Op Str) → List Json
  | [] => []
  | op :: ops =>
    let r := step ioHist s op
    Json.mkObj [("out", outJ r.2), ("state", stateJ paths r.1), ("hyp", hypJ s op r)] :: traceJ paths r.1 ops

/-- hypotheses and conclusion of `history_content` on one generated history -/
def domJ (raw : Bool) (fs : Str → Option Str) (start : Str) (d : Doc Str) (ops : List (Op Str))
    (sN : State Str) : Json :=
  let ex : Str → Bool := fun q => (fs q).isSome
  let tok := match renderFile ioHist d, fs start with
    | .ok t, some t0 => t == t0
    | _, _ => false
  let hd := histDoc ioHist raw ex start d ops
  -- the first op that leaves the domain (searched only when the history is outside)
  let bad := if hd.isSome then none else
    (List.range (ops.length + 1)).find? (fun k => (histDoc ioHist raw ex start d (ops.take k)).isNone)
  Json.mkObj [
    ("docok", Json.bool (docOK ioHist d)), ("rawok", Json.bool (rawOK raw d)), ("text", Json.bool tok),
    ("hist", Json.bool hd.isSome),
    ("bad", match bad with
      | some k => J.ofNat (k - 1)
      | none => Json.null),
    ("final", match hd with
      | some D => Json.bool (viewEq sN.obj.view (.ok (viewOfDoc raw D)))
      | none => Json.null)]

def handle (j : Json) : Except String Json := do
  let op ← J.fStr j "op"
  match op with
  | "run" =>
    let raw ← J.fBool j "raw"
    let files ← J.list (fun e => do
      match ← J.arr e with
      | #[p, t] => pure (← js p, ← js t)
      | _ => throw "file: [path, text]") (← J.fld j "files")
    let start ← js (← J.fld j "start")
    let paths ← J.list js (← J.fld j "paths")
    let ops ← J.list jop (← J.fld j "ops")
    let fs : Str → Option Str := fun p => lookupKey p files
    let s0 : State Str := ⟨fs, load ioHist fs start raw⟩
    let base := [("init", stateJ paths s0), ("steps", Json.arr (traceJ paths s0 ops).toArray)]
    match j.getObjVal? "doc" with
    | .ok dj =>
      let d ← jdoc dj
      pure (Json.mkObj (base ++ [("dom", domJ raw fs start d ops (run ioHist s0 ops))]))
    | .error _ => pure (Json.mkObj base)
  | "parse" =>
    let raw ← J.fBool j "raw"
    let t ← js (← J.fld j "text")
    pure (exJ viewJ (parseView ioHist raw t))
  | _ => throw s!"C03: unknown op {op}"

end PydlVerif.Driver.C03

import PydlVerif.Model.JsonUtil
open Lean
namespace PydlVerif.Driver.C03

def handle (_j : Json) : Except String Json := throw "C03: no model operations yet"

end PydlVerif.Driver.C03

import PydlVerif.Model.JsonUtil
open Lean
namespace PydlVerif.Driver.C04

def handle (_j : Json) : Except String Json := throw "C04: no model operations yet"

end PydlVerif.Driver.C04

import PydlVerif.Model.JsonUtil
import PydlVerif.Model.Sphere
open Lean
namespace PydlVerif.Driver.C04
open PydlVerif PydlVerif.Sphere

def pairsJ (l : List (Pair Float)) : Json :=
  Json.mkObj [("m1", J.ofList J.ofNat (l.map (·.1))), ("m2", J.ofList J.ofNat (l.map (·.2.1))),
              ("d", J.ofList J.ofFloat (l.map (·.2.2)))]

def gridJ (g : Grid Float) : List (String × Json) :=
  [("nDec", J.ofNat g.nDec), ("decBounds", J.ofArray J.ofFloat g.decBounds),
   ("raOffset", J.ofFloat g.raOffset), ("nRa", J.ofArray J.ofNat g.nRa),
   ("raBounds", J.ofArray (J.ofArray J.ofFloat) g.raBounds)]

def handle (j : Json) : Except String Json := do
  let op ← J.fStr j "op"
  match op with
  | "match" =>
    let ra1 ← J.fFloats j "ra1"
    let dec1 ← J.fFloats j "dec1"
    let ra2 ← J.fFloats j "ra2"
    let dec2 ← J.fFloats j "dec2"
    let ml ← J.fFloat j "ml"
    let cs ← J.fOpt J.float j "cs"
    let mm ← J.fInt j "maxmatch"
    match spherematch argsortFloat ra1 dec1 ra2 dec2 ml cs mm with
    | .error e => pure (Json.mkObj [("err", Json.str e)])
    | .ok r =>
      pure (Json.mkObj (gridJ r.grid ++
        [("chunkList", J.ofArray (J.ofArray (fun (x : CellSt) => J.ofList J.ofNat x.1)) r.chunkList),
         ("nraw", J.ofNat r.raw.length), ("out", pairsJ r.out)]))
  | "greedy" =>
    -- the maxmatch bookkeeping alone on an abstract, already sorted pair list
    let m1 ← J.fNats j "m1"
    let m2 ← J.fNats j "m2"
    let k ← J.fNat j "k"
    let l : List (Pair Float) := (m1.zip m2).map fun (a, b) => (a, b, 0.0)
    pure (pairsJ (greedy k l))
  | "gcirc" =>
    let v ← J.fFloats j "v"
    pure (J.ofFloat (gcircDeg (v.getD 0 0) (v.getD 1 0) (v.getD 2 0) (v.getD 3 0)))
  | _ => throw s!"C04: unknown op {op}"

end PydlVerif.Driver.C04

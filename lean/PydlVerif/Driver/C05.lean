import PydlVerif.Model.JsonUtil
import PydlVerif.Model.Fof
import PydlVerif.Model.FofGrid
open Lean
namespace PydlVerif.Driver.C05
open PydlVerif PydlVerif.Fof PydlVerif.Sphere PydlVerif.FofGrid

def optJ (o : Option Nat) : Json := match o with
  | none => J.ofInt (-1)
  | some k => J.ofNat k

def outJ (n : Nat) (o : Out) : Json :=
  if !o.ok then Json.mkObj [("err", Json.str "model: loop does not terminate / index out of range")] else
  Json.mkObj [("in", J.ofList J.ofNat ((List.range n).map o.inG.get)),
              ("mult", J.ofList J.ofNat ((List.range n).map o.mult.get)),
              ("first", J.ofList optJ ((List.range n).map o.L.first.get)),
              ("next", J.ofList optJ ((List.range n).map o.L.next.get)),
              ("ng", J.ofNat o.nG)]

def closeOf (rows : Array Nat) (i j : Nat) : Bool := (rows.getD i 0).testBit j

/-- a graph is `[n, row_0, …, row_{n-1}]`, row_i = bit mask of `close i ·` -/
def graph (j : Json) : Except String (Nat × Array Nat) := do
  match ← J.list J.nat j with
  | n :: rows => if rows.length = n then pure (n, rows.toArray) else throw "graph: need n rows"
  | [] => throw "graph: empty"

def handle (j : Json) : Except String Json := do
  let op ← J.fStr j "op"
  match op with
  | "groups" =>
    let gs ← J.list graph (← J.fld j "gs")
    pure (J.ofList (fun (g : Nat × Array Nat) => outJ g.1 (groupsRun g.1 (closeOf g.2))) gs)
  | "sphere" =>
    let (n, rows) ← graph (← J.fld j "g")
    let chunks ← J.list (J.array J.nat) (← J.fld j "chunks")
    match sphereRun n (closeOf rows) chunks with
    | .ok o => pure (outJ n o)
    | .error e => pure (Json.mkObj [("err", Json.str e)])
  | "friends" =>
    let (n, rows) ← graph (← J.fld j "g")
    let chunks ← J.list (J.array J.nat) (← J.fld j "chunks")
    pure (outJ n (friendsRun n (closeOf rows) chunks))
  | "grid" =>
    -- the whole of spheregroup: grid built by the model itself (chunks + assign of the same list), at binary64
    let ra ← J.fFloats j "ra"
    let dec ← J.fFloats j "dec"
    let ll ← J.fFloat j "ll"
    let cs ← J.fOpt J.float j "cs"
    let cells : List (String × Json) :=
      match chunksInit ra dec (groupChunkSize ll cs) with
      | .error e => [("griderr", Json.str e)]
      | .ok g =>
        match assign g ra dec ll with
        | .error e => [("griderr", Json.str e)]
        | .ok cl => [("nDec", J.ofNat g.nDec), ("nRa", J.ofArray J.ofNat g.nRa),
                     ("cells", J.ofList (J.ofArray J.ofNat) (cellLists g.nDec g.nRa cl))]
    match spheregroup ra dec ll cs with
    | .ok o =>
      if !o.ok then pure (Json.mkObj (("err", Json.str "model: loop does not terminate / index out of range") :: cells))
      else pure (Json.mkObj ([("in", J.ofList J.ofNat ((List.range ra.size).map o.inG.get)),
              ("mult", J.ofList J.ofNat ((List.range ra.size).map o.mult.get)),
              ("first", J.ofList optJ ((List.range ra.size).map o.L.first.get)),
              ("next", J.ofList optJ ((List.range ra.size).map o.L.next.get))] ++ cells))
    | .error e => pure (Json.mkObj (("err", Json.str e) :: cells))
  | _ => throw s!"C05: unknown op {op}"

end PydlVerif.Driver.C05

import PydlVerif.Model.JsonUtil
open Lean
namespace PydlVerif.Driver.C05

def handle (_j : Json) : Except String Json := throw "C05: no model operations yet"

end PydlVerif.Driver.C05

import PydlVerif.Model.JsonUtil
import PydlVerif.Model.Ids
open Lean
namespace PydlVerif.Driver.C06
open PydlVerif PydlVerif.Ids

def resJ {α} (f : α → Json) : Ids.R α → Json
  | .ok v => Json.mkObj [("ok", f v)]
  | .error e => Json.mkObj [("err", Json.str e)]

def objF (j : Json) : Except String ObjF := do
  match ← J.list J.int j with
  | [a, b, c, d, e, f, g] => pure ⟨a, b, c, d, e, f, g⟩
  | _ => throw "objF: need 7 ints"

def specF (j : Json) : Except String SpecF := do
  match ← J.list J.int j with
  | [a, b, c, d, e] => pure ⟨a, b, c, d, e⟩
  | _ => throw "specF: need 5 ints"

def objFJ (f : ObjF) : Json := J.ofList J.ofInt [f.sv, f.rerun, f.run, f.camcol, f.ff, f.field, f.obj]

def specFJ (f : SpecF) : Json :=
  let (n, m, p) := nmpOfRun2d f.run2d.toNat
  Json.mkObj [("f", J.ofList J.ofInt [f.plate, f.fiber, f.mjd, f.run2d, f.line]),
              ("s", Json.str (fmtRun2d f.run2d.toNat)), ("nmp", J.ofList J.ofNat [n, m, p])]

def handle (j : Json) : Except String Json := do
  let op ← J.fStr j "op"
  match op with
  | "objid" =>
    let fs ← J.list objF (← J.fld j "f")
    pure (resJ (J.ofList J.ofNat) (packObjids fs))
  | "unobjid" =>
    let vs ← J.fNats j "v"
    pure (J.ofList objFJ (vs.map unpackObjid))
  | "spec" =>
    let fs ← J.list specF (← J.fld j "f")
    pure (resJ (J.ofList J.ofNat) (fs.mapM packSpec))
  | "specli" =>
    let plate ← J.fInt j "plate"
    let fiber ← J.fInt j "fiber"
    let mjd ← J.fInt j "mjd"
    let line ← J.fOpt J.int j "line"
    let index ← J.fOpt J.int j "index"
    let r2 ← J.fld j "run2d"
    let run2d : Ids.R Int ← (match r2 with
      | Json.str s => pure ((fun (n : Nat) => (n : Int)) <$> parseRun2d s)
      | _ => do let i ← J.int r2; pure (pure i))
    -- line/index conflict is detected before run2d is decoded
    match line, index with
    | some _, some _ => pure (resJ J.ofNat (valueError))
    | _, _ =>
      match run2d with
      | .error e => pure (resJ J.ofNat (.error e))
      | .ok r => pure (resJ J.ofNat (packSpecLI plate fiber mjd r line index))
  | "unspec" =>
    let vs ← J.fNats j "v"
    pure (J.ofList specFJ (vs.map unpackSpec))
  | "run2d" =>
    let s ← J.fStr j "s"
    pure (resJ J.ofNat (parseRun2d s))
  | "run2dfull" =>
    -- the string as a list of code points (no dependence on JSON string escapes)
    let cs := (← J.fNats j "cs").map Char.ofNat
    let den : Json := match denoteRun2d cs with
      | some (.int _) => Json.str "int"
      | some (.nmp ..) => Json.str "nmp"
      | none => Json.str "none"
    pure (Json.mkObj [("r", resJ (fun r => if r.natAbs < 2^70 then J.ofInt r else Json.str "huge") (parseRun2dFull cs)), ("den", den),
      ("canon", match parseRun2dFull cs with
        | .ok r => Json.str (String.ofList (canonRun2d r))
        | .error _ => Json.null)])
  | "specstr" =>
    let plate ← J.fInt j "plate"
    let fiber ← J.fInt j "fiber"
    let mjd ← J.fInt j "mjd"
    let line ← J.fOpt J.int j "line"
    let index ← J.fOpt J.int j "index"
    let cs := (← J.fNats j "cs").map Char.ofNat
    pure (resJ J.ofNat (packSpecStr plate fiber mjd cs line index))
  | "cols" =>
    -- rows of fixed-width columns: "types" = [[signed, width], ...] per column, "rows" = [[v, ...], ...]; "kind" objid | spec
    let kind ← J.fStr j "kind"
    let types ← J.list (J.list J.nat) (← J.fld j "types")
    let rows ← J.list (J.list J.int) (← J.fld j "rows")
    let mk (t : List Nat) (v : Int) : IntCol := ⟨t.headD 1 == 1, (t.drop 1).headD 64, BitVec.ofInt _ v⟩
    let one (row : List Int) : Except String (Ids.R (BitVec 64)) :=
      match kind, List.zipWith mk types row with
      | "objid", [a, b, c, d, e, f, g] => pure (packObjidCols a b c d e f g)
      | "spec", [a, b, c, d, e] => pure (packSpecCols a b c d e)
      | _, _ => throw "cols: kind / column count"
    let rs ← rows.mapM one
    -- the array call refuses when any row does
    pure (resJ (J.ofList (fun (b : BitVec 64) => J.ofNat b.toNat)) (rs.mapM id))
  | "specs" =>
    let fs ← J.list specF (← J.fld j "f")
    pure (resJ (J.ofList J.ofNat) (packSpecs fs))
  | "astrombad" =>
    let rows ← J.list (J.list J.int) (← J.fld j "rows")
    pure (J.ofList (fun (r : List Int) => Json.bool (okAstrombad (r.headD 0) ((r.drop 1).headD 0) ((r.drop 2).headD 0))) rows)
  | _ => throw s!"C06: unknown op {op}"

end PydlVerif.Driver.C06

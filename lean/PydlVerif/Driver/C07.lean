import PydlVerif.Model.JsonUtil
open Lean
namespace PydlVerif.Driver.C07

def handle (_j : Json) : Except String Json := throw "C07: no model operations yet"

end PydlVerif.Driver.C07

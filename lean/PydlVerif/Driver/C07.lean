import PydlVerif.Model.JsonUtil
import PydlVerif.Model.Flags
open Lean
namespace PydlVerif.Driver.C07
open PydlVerif PydlVerif.Flags

def errJ : Err → Json
  | .KeyError => Json.str "KeyError"
  | .OverflowError => Json.str "OverflowError"

def resJ {α} (f : α → Json) : R α → Json
  | .ok v => Json.mkObj [("ok", f v)]
  | .error e => Json.mkObj [("err", errJ e)]

def rowOf (j : Json) : Except String Row := do
  match ← J.arr j with
  | #[f, b, l] => pure ⟨← J.str f, ← J.nat b, ← J.str l⟩
  | _ => throw "row: need [flag, bit, label]"

def aliasOf (j : Json) : Except String Alias := do
  match ← J.arr j with
  | #[a, f] => pure ⟨← J.str a, ← J.str f⟩
  | _ => throw "alias: need [alias, flag]"

def namesOf (j : Json) : Except String Names :=
  match j with
  | Json.str s => pure (.one s)
  | _ => do pure (.many (← J.list J.str j))

def valOf (j : Json) : Except String Val := do
  let k ← J.fStr j "k"
  let v ← J.fInt j "v"
  match k with
  | "int" => pure (.pyint v)
  | "i64" => pure (.i64 v)
  | "u64" => if v < 0 then throw "u64 negative" else pure (.u64 v.toNat)
  | _ => throw s!"val kind {k}"

def groupJ (g : Group) : Json :=
  J.ofList (fun (x : String × Nat) => Json.arr #[Json.str x.1, J.ofNat x.2]) g

def dbJ (db : Db) : Json :=
  J.ofList (fun (x : String × Group) => Json.arr #[Json.str x.1, groupJ x.2]) db

def existJ : ExistRet → Json
  | .l l => Json.bool l
  | .lf l f => Json.arr #[Json.bool l, Json.bool f]
  | .lw l w => Json.arr #[Json.bool l, J.ofList Json.bool w]
  | .lfw l f w => Json.arr #[Json.bool l, Json.bool f, J.ofList Json.bool w]

def query (db : Db) (q : Json) : Except String Json := do
  let t ← J.fStr q "t"
  let g ← J.fStr q "g"
  match t with
  | "val" =>
    let ns ← namesOf (← J.fld q "names")
    pure (resJ (fun (v : BitVec 64) => J.ofNat v.toNat) (flagval db g ns.toList))
  | "name" =>
    let v ← valOf (← J.fld q "v")
    if (← J.fBool q "concat") then pure (resJ Json.str (flagnameConcat db g v))
    else pure (resJ (J.ofList Json.str) (flagname db g v))
  | "exist" =>
    let ns ← namesOf (← J.fld q "names")
    let e := flagexist db g ns.toList
    pure (Json.mkObj [("ok", existJ (e.shape (← J.fBool q "fe") (← J.fBool q "we")))])
  | _ => throw s!"C07: unknown query {t}"

def handle (j : Json) : Except String Json := do
  let op ← J.fStr j "op"
  let rows ← J.list rowOf (← J.fld j "rows")
  let aliases ← J.list aliasOf (← J.fld j "aliases")
  match op with
  | "db" => pure (resJ dbJ (setMaskbits rows aliases))
  | "q" =>
    match setMaskbits rows aliases with
    | .error e => pure (Json.mkObj [("err", errJ e)])
    | .ok db =>
      let qs ← J.arr (← J.fld j "qs")
      let out ← qs.mapM (query db)
      pure (Json.mkObj [("db", dbJ db), ("out", Json.arr out)])
  | _ => throw s!"C07: unknown op {op}"

end PydlVerif.Driver.C07

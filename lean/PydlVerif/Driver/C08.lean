import PydlVerif.Model.JsonUtil
open Lean
namespace PydlVerif.Driver.C08

def handle (_j : Json) : Except String Json := throw "C08: no model operations yet"

end PydlVerif.Driver.C08

import PydlVerif.Model.JsonUtil
import PydlVerif.Model.Scalar
import PydlVerif.Model.BSpline
open Lean
namespace PydlVerif.Driver.C08
open PydlVerif PydlVerif.BSpline

/-- numbers arrive as binary64 bit patterns; they are run either as `Float` or as
their exact `Rat` value (answers: bit pattern, resp. `[num, den]`) -/
structure Codec (α : Type) where
  dec : Json → Except String α
  enc : α → Json
  r32 : α → α

def floatCodec : Codec Float := ⟨J.float, J.ofFloat, fun x => x.toFloat32.toFloat⟩
def ratCodec : Codec Rat := ⟨fun j => do pure (ratOfBits (← J.bits j)), J.ofRat, id⟩

def resJ {β} (f : β → Json) : BSpline.R β → Json
  | .ok v => Json.mkObj [("ok", f v)]
  | .error e => Json.mkObj [("err", Json.str e)]

section
variable {α : Type} [Scalar α] (c : Codec α)

def nums (j : Json) (k : String) : Except String (List α) := do J.list c.dec (← J.fld j k)

def optsOf (j : Json) : Except String (BkOpts α) := do
  let o ← J.fld j "opts"
  pure { bkpt := ← J.fOpt (J.list c.dec) o "bkpt"
         bkptF32 := (← J.fOpt J.bool o "bkptF32").getD false
         placed := ← J.fOpt (J.list c.dec) o "placed"
         bkspace := ← J.fOpt c.dec o "bkspace"
         nbkpts := ← J.fOpt J.int o "nbkpts"
         everyn := ← J.fOpt J.int o "everyn"
         bkspread := ← c.dec (← J.fld o "bkspread") }

def bsOf (j : Json) : Except String (BS α) := do
  pure { nord := ← J.fNat j "nord"
         breakpoints := (← nums c j "bk").toArray
         mask := (← J.list J.bool (← J.fld j "mask")).toArray
         coeff := (← nums c j "coeff").toArray }

def encL (l : List α) : Json := J.ofList c.enc l

def handleNum (op : String) (j : Json) : Except String Json := do
  match op with
  | "knots" =>
    let xs ← nums c j "x"
    let nord ← J.fNat j "nord"
    let o ← optsOf c j
    pure (resJ (encL c) (mkKnots c.r32 xs nord o))
  | "eval" =>
    -- everything `value` goes through, on the points in sorted order (perm = argsort)
    let b ← bsOf c j
    let xs ← nums c j "x"
    let perm ← J.fNats j "perm"
    let xwork := perm.map (fun p => xs.getD p 0)
    let r : BSpline.R Json := do
      let indx ← b.intrv xwork
      let bf := b.bsplvn xwork indx
      let act ← b.action xwork
      let (y, m) ← b.value xs perm
      let (lo, up) : List Int × List Int := match act with
        | none => ([], [])
        | some (_, l, u) => (l.toList, u.toList)
      pure (Json.mkObj [("indx", J.ofList J.ofNat indx), ("bf", match bf with | .ok v => J.ofList (encL c) v | .error e => Json.str e),
        ("action", Json.bool act.isSome), ("lower", J.ofList J.ofInt lo), ("upper", J.ofList J.ofInt up),
        ("y", encL c y), ("mask", J.ofList Json.bool m),
        ("spline", encL c (xs.map (splineAt (knotAt b.gb) (fun i => b.goodcoeff[i]!) b.nord (b.gb.size - b.nord))))])
    pure (resJ id r)
  | "intrv" =>
    -- the public method on points in the order given (sorted or not)
    let b ← bsOf c j
    let xs ← nums c j "x"
    let r : BSpline.R Json := do
      let indx ← b.intrv xs
      let bf ← b.bsplvn xs indx
      pure (Json.mkObj [("indx", J.ofList J.ofNat indx), ("bf", J.ofList (encL c) bf)])
    pure (resJ id r)
  | "cdb" =>
    -- reference recursion: for each x the nord textbook values B_{i-nord+1+m, nord}(x), i = interval of x
    let t ← nums c j "bk"
    let nord ← J.fNat j "nord"
    let xs ← nums c j "x"
    let ta := t.toArray
    let n := ta.size - nord
    pure (J.ofList (fun x =>
      let i := intrvOf (knotAt ta) nord n x
      Json.mkObj [("i", J.ofNat i),
        ("cdb", encL c ((List.range nord).map (fun m => coxDeBoor (knotAt ta) nord (i + 1 - nord + m) x))),
        ("at", encL c ((List.range nord).map (fun m => coxDeBoorAt (knotAt ta) i nord (i + 1 - nord + m) x))),
        ("bf", encL c (bsplvn1 (knotAt ta) nord x i))]) xs)
  | _ => throw s!"C08: unknown op {op}"
end

def handle (j : Json) : Except String Json := do
  let op ← J.fStr j "op"
  let num := (← J.fOpt J.str j "num").getD "float"
  if num == "rat" then handleNum ratCodec op j else handleNum floatCodec op j

end PydlVerif.Driver.C08

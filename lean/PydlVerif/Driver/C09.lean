import PydlVerif.Model.JsonUtil
import PydlVerif.Model.Scalar
import PydlVerif.Model.BSpline
import PydlVerif.Model.BSplineFit
open Lean
namespace PydlVerif.Driver.C09
open PydlVerif PydlVerif.BSpline PydlVerif.BSplineFit

/-! Float stand-ins for the LAPACK kernels that the model takes as parameters (textbook banded
Cholesky `dpbtf2`-style and the two triangular solves).  They are NOT part of the model; the
comparison with the real code is within tolerance. -/

def g2 (m : Array (Array Float)) (r c : Nat) : Float := (m[r]!)[c]!

/-- lower band form `A[r][c] = A_full[c+r][c]`; returns `none` when a pivot is not positive -/
def cholFactorF (bw n : Nat) (A : Array (Array Float)) : Option (Array (Array Float)) := Id.run do
  let mut L := A
  for j in [0:n] do
    let d := g2 L 0 j
    if !(d > 0) then return none
    let s := Float.sqrt d
    L := L.modify 0 (fun row => row.set! j s)
    for r in [1:bw] do
      if j + r < n then
        L := L.modify r (fun row => row.modify j (fun v => v / s))
    for i in [1:bw] do
      if j + i < n then
        let xi := g2 L i j
        for r in [0:bw - i] do
          if j + i + r < n then
            let xr := g2 L (i + r) j
            L := L.modify r (fun row => row.modify (j + i) (fun v => v - xi * xr))
  -- entries below the matrix are not referenced by LAPACK; scipy returns them unchanged
  return some L

def cholSolveF (bw n : Nat) (L : Array (Array Float)) (b : Array Float) : Array Float := Id.run do
  let mut y := b
  for i in [0:n] do
    let mut s := y[i]!
    for r in [1:bw] do
      if r ≤ i then s := s - g2 L r (i - r) * y[i - r]!
    y := y.set! i (s / g2 L 0 i)
  for ii in [0:n] do
    let i := n - 1 - ii
    let mut s := y[i]!
    for r in [1:bw] do
      if i + r < n then s := s - g2 L r i * y[i + r]!
    y := y.set! i (s / g2 L 0 i)
  return y

def kernelsF : Kernels Float :=
  { sqrt := Float.sqrt, isFinite := Float.isFinite, cholFactor := cholFactorF, cholSolve := cholSolveF }

/-! Exact run (`α = Rat`): square-root-free stand-ins for the two kernels, a banded LDLᵀ factorisation and the
matching solve.  The model treats the factor as opaque (it only pads it and hands it back to `cholSolve`), so the
packing - D on band row 0, the unit lower factor's sub-diagonals on rows 1..bw-1 - is private to this pair.
`K.sqrt` is only called by the fallback loop after `cholFactor` answered `none`; that path is NOT exact and the
handler refuses to answer for it.  `sqrt := fun _ => 0` makes the model's fallback loop stop at its first column
(`0 < d` fails) instead of grinding through rationals whose size explodes; its answer is discarded anyway. -/

def q2 (m : Array (Array Rat)) (r c : Nat) : Rat := (m[r]!)[c]!

/-- lower band form `A[r][c] = A_full[c+r][c]`; `none` as soon as a pivot `d_j ≤ 0`; else `F[0][j] = d_j`,
`F[r][j] = L[j+r][j]` (unit lower `L`, `A = L D Lᵀ`); entries beyond the matrix are left unchanged -/
def cholFactorQ (bw n : Nat) (A : Array (Array Rat)) : Option (Array (Array Rat)) := Id.run do
  let mut F := A
  for j in [0:n] do
    let d := q2 F 0 j
    if !(d > 0) then return none
    -- v_r = A'[j+r][j] (column j of the current Schur complement, unscaled); l_r = v_r / d
    let v : Array Rat := ((List.range bw).map fun r => if j + r < n then q2 F r j else 0).toArray
    for r in [1:bw] do
      if j + r < n then
        F := F.modify r (fun row => row.modify j (fun a => a / d))
    -- A'[j+i+r][j+i] -= l_i * d * l_{i+r} = l_i * v_{i+r}
    for i in [1:bw] do
      if j + i < n then
        let li := q2 F i j
        for r in [0:bw - i] do
          if j + i + r < n then
            F := F.modify r (fun row => row.modify (j + i) (fun a => a - li * v[i + r]!))
  return some F

/-- solves `L D Lᵀ x = b` with the packing of `cholFactorQ` -/
def cholSolveQ (bw n : Nat) (F : Array (Array Rat)) (b : Array Rat) : Array Rat := Id.run do
  let mut y := b
  for i in [0:n] do                       -- L z = b
    let mut s := y[i]!
    for r in [1:bw] do
      if r ≤ i then s := s - q2 F r (i - r) * y[i - r]!
    y := y.set! i s
  for i in [0:n] do                       -- D w = z
    y := y.set! i (y[i]! / q2 F 0 i)
  for ii in [0:n] do                      -- Lᵀ x = w
    let i := n - 1 - ii
    let mut s := y[i]!
    for r in [1:bw] do
      if i + r < n then s := s - q2 F r i * y[i + r]!
    y := y.set! i s
  return y

def kernelsQ : Kernels Rat :=
  { sqrt := fun _ => 0, isFinite := fun _ => true, cholFactor := cholFactorQ, cholSolve := cholSolveQ }

/-- probe: a factorisation kernel that always answers; `fit` with it has status 0 exactly when the model reaches
`K.cholFactor` (enough breakpoints, no diagonal entry ≤ mininf) -/
def kernelsProbe : Kernels Rat :=
  { sqrt := fun _ => 0, isFinite := fun _ => true, cholFactor := fun _ _ A => some A, cholSolve := fun _ _ _ b => b }

def rats (j : Json) (k : String) : Except String (List Rat) := do
  J.list (fun v => do pure (ratOfBits (← J.bits v))) (← J.fld j k)
def encLQ (l : List Rat) : Json := J.ofList J.ofRat l
def encMQ (m : Array (Array Rat)) : Json := J.ofList (fun r => encLQ r.toList) m.toList

def bsOfQ (j : Json) : Except String (BS Rat) := do
  pure { nord := ← J.fNat j "nord"
         breakpoints := (← rats j "bk").toArray
         mask := (← J.list J.bool (← J.fld j "mask")).toArray
         coeff := (← rats j "coeff").toArray }

def floats (j : Json) (k : String) : Except String (List Float) := do J.list J.float (← J.fld j k)
def encL (l : List Float) : Json := J.ofList J.ofFloat l
def encM (m : Array (Array Float)) : Json := J.ofList (fun r => encL r.toList) m.toList

def bsOf (j : Json) : Except String (BS Float) := do
  pure { nord := ← J.fNat j "nord"
         breakpoints := (← floats j "bk").toArray
         mask := (← J.list J.bool (← J.fld j "mask")).toArray
         coeff := (← floats j "coeff").toArray }

def resJ {β} (f : β → Json) : BSpline.R β → Json
  | .ok v => Json.mkObj [("ok", f v)]
  | .error e => Json.mkObj [("err", Json.str e)]

def cholResJ : CholRes Float → Json
  | .factor L => Json.mkObj [("status", J.ofInt (-1)), ("L", encM L)]
  | .bad idx sc => Json.mkObj [("idx", J.ofList J.ofNat idx), ("scalar", Json.bool sc)]

def handle (j : Json) : Except String Json := do
  let op ← J.fStr j "op"
  match op with
  | "fit" =>
    let b ← bsOf j
    let xs ← floats j "x"
    let ys ← floats j "y"
    let ws ← floats j "w"
    let perm ← J.fNats j "perm"
    if ys.length ≠ xs.length ∨ ws.length ≠ xs.length then throw "C09 fit: lengths differ" else
    let r := fit kernelsF b xs ys ws perm
    pure (resJ (fun (o : FitOut Float) => Json.mkObj [
      ("status", J.ofInt o.status), ("yfit", encL o.yfit), ("coeff", encL o.obj.coeff.toList),
      ("mask", J.ofList Json.bool o.obj.mask.toList), ("alpha", encM o.alpha), ("beta", encL o.beta.toList)]) r)
  | "fitq" =>
    -- the same model `fit`, run in exact rational arithmetic on the exact values of the bit patterns
    let b ← bsOfQ j
    let xs ← rats j "x"
    let ys ← rats j "y"
    let ws ← rats j "w"
    let perm ← J.fNats j "perm"
    if ys.length ≠ xs.length ∨ ws.length ≠ xs.length then throw "C09 fitq: lengths differ" else
    match fit kernelsQ b xs ys ws perm with
    | .error e => pure (Json.mkObj [("err", Json.str e)])
    | .ok o =>
      -- status ≠ 0 although the kernel was reached: `cholFactorQ` answered `none` and the model went into the
      -- fallback loop (needs a real sqrt) - not an exact run, no answer
      let viaFallback : Bool := o.status != 0 &&
        (match fit kernelsProbe b xs ys ws perm with | .ok o2 => o2.status == 0 | .error _ => false)
      if viaFallback then pure (Json.mkObj [("inexact", Json.str "fallback")]) else
      pure (Json.mkObj [("exact", Json.bool true), ("ok", Json.mkObj [
        ("status", J.ofInt o.status), ("yfit", encLQ o.yfit), ("coeff", encLQ o.obj.coeff.toList),
        ("mask", J.ofList Json.bool o.obj.mask.toList), ("alpha", encMQ o.alpha), ("beta", encLQ o.beta.toList)])])
  | "chol" =>
    let l ← J.list (J.list J.float) (← J.fld j "l")
    let mininf ← J.fFloat j "mininf"
    let la := (l.map List.toArray).toArray
    if la.any (fun r => r.size ≠ (la[0]!).size) then throw "C09 chol: ragged" else
    pure (resJ cholResJ (choleskyBand kernelsF la mininf))
  | "solve" =>
    let a ← J.list (J.list J.float) (← J.fld j "a")
    let bb ← floats j "b"
    pure (encL (choleskySolve kernelsF (a.map List.toArray).toArray bb.toArray).toList)
  | "maskpoints" =>
    let mask ← J.list J.bool (← J.fld j "mask")
    let nord ← J.fNat j "nord"
    let err ← J.fNats j "err"
    let (st, m) := maskpoints mask.toArray nord err
    pure (Json.mkObj [("status", J.ofInt st), ("mask", J.ofList Json.bool m.toList)])
  | _ => throw s!"C09: unknown op {op}"

end PydlVerif.Driver.C09

import PydlVerif.Model.JsonUtil
import PydlVerif.Model.Scalar
import PydlVerif.Model.BSpline
import PydlVerif.Model.BSplineFit
import PydlVerif.Model.BandChol
import PydlVerif.Model.BSplineFit2
open Lean
namespace PydlVerif.Driver.C09
open PydlVerif PydlVerif.BSpline PydlVerif.BSplineFit PydlVerif.BSplineFit2

/-! The kernels that the driver runs as the LAPACK parameters of the model are the definitions of
Model/BandChol.lean - the ones Props/C09.lean proves the factor + solve contract about (`ldlt_factor_spec`,
`ldlt_solve_spec`, `ldlt_contract_kernel`, `chol_contract_kernel`, `cholesky_solves_ldlt`, `fit_is_optimum_ldlt`):
  Float run: banded Cholesky `bandFactor (cholV Float.sqrt)` / `bandSolve (cholV Float.sqrt)` (operation order of
             LAPACK's unblocked `dpbtf2` / `dtbsv`; compared with the real code within tolerance);
  exact run (`α = Rat`): the square-root-free banded `L D Lᵀ` pair `bandFactor ldltV` / `bandSolve ldltV`.
The model treats the factor as opaque (it only pads it and hands it back to `cholSolve`), so the packing of `ldltV` -
D on band row 0, the unit lower factor's sub-diagonals on rows 1..bw-1 - is private to the pair.
`K.sqrt` is only called by the model's fallback loop after `cholFactor` answered `none`; that path is NOT exact and the
handler refuses to answer for it.  `kernelsLdlt.sqrt = fun _ => 0` makes the fallback loop stop at its first column
(`0 < d` fails) instead of grinding through rationals whose size explodes; its answer is discarded anyway. -/

def kernelsF : Kernels Float := BandChol.kernelsChol Float.sqrt Float.isFinite

def kernelsQ : Kernels Rat := BandChol.kernelsLdlt

/-- probe: a factorisation kernel that always answers; `fit` with it has status 0 exactly when the model reaches
`K.cholFactor` (enough breakpoints, no diagonal entry ≤ mininf) -/
def kernelsProbe : Kernels Rat :=
  { sqrt := fun _ => 0, isFinite := fun _ => true, cholFactor := fun _ _ A => some A, cholSolve := fun _ _ _ b => b }

def rats (j : Json) (k : String) : Except String (List Rat) := do
  J.list (fun v => do pure (ratOfBits (← J.bits v))) (← J.fld j k)
def encLQ (l : List Rat) : Json := J.ofList J.ofRat l
def encMQ (m : Array (Array Rat)) : Json := J.ofList (fun r => encLQ r.toList) m.toList

def bsOfQ (j : Json) : Except String (BS Rat) := do
  pure { nord := ← J.fNat j "nord"
         breakpoints := (← rats j "bk").toArray
         mask := (← J.list J.bool (← J.fld j "mask")).toArray
         coeff := (← rats j "coeff").toArray }

def floats (j : Json) (k : String) : Except String (List Float) := do J.list J.float (← J.fld j k)
def encL (l : List Float) : Json := J.ofList J.ofFloat l
def encM (m : Array (Array Float)) : Json := J.ofList (fun r => encL r.toList) m.toList

def bsOf (j : Json) : Except String (BS Float) := do
  pure { nord := ← J.fNat j "nord"
         breakpoints := (← floats j "bk").toArray
         mask := (← J.list J.bool (← J.fld j "mask")).toArray
         coeff := (← floats j "coeff").toArray }

def resJ {β} (f : β → Json) : BSpline.R β → Json
  | .ok v => Json.mkObj [("ok", f v)]
  | .error e => Json.mkObj [("err", Json.str e)]

def cholResJ : CholRes Float → Json
  | .factor L => Json.mkObj [("status", J.ofInt (-1)), ("L", encM L)]
  | .bad idx sc => Json.mkObj [("idx", J.ofList J.ofNat idx), ("scalar", Json.bool sc)]

/-- the 2-D object of ops `fit2` / `fit2q` -/
def bs2Of {β : Type} (rd : Json → String → Except String (List β)) (rd1 : Json → String → Except String β)
    (rows : Json → Except String (List (List β))) (j : Json) : Except String (BS2 β) := do
  let f ← match Func.ofString (← J.fStr j "func") with
    | some f => pure f
    | none => throw "C09 fit2: unknown funcname"
  pure { base := { nord := ← J.fNat j "nord", breakpoints := (← rd j "bk").toArray,
                   mask := (← J.list J.bool (← J.fld j "mask")).toArray, coeff := #[] }
         npoly := ← J.fNat j "npoly"
         coeff2 := ((← rows (← J.fld j "coeff")).map List.toArray).toArray
         xmin := ← rd1 j "xmin", xmax := ← rd1 j "xmax", func := f }

def rat1 (j : Json) (k : String) : Except String Rat := do pure (ratOfBits (← J.bits (← J.fld j k)))

def handle (j : Json) : Except String Json := do
  let op ← J.fStr j "op"
  match op with
  | "fit" =>
    let b ← bsOf j
    let xs ← floats j "x"
    let ys ← floats j "y"
    let ws ← floats j "w"
    let perm ← J.fNats j "perm"
    if ys.length ≠ xs.length ∨ ws.length ≠ xs.length then throw "C09 fit: lengths differ" else
    let r := fit kernelsF b xs ys ws perm
    pure (resJ (fun (o : FitOut Float) => Json.mkObj [
      ("status", J.ofInt o.status), ("yfit", encL o.yfit), ("coeff", encL o.obj.coeff.toList),
      ("mask", J.ofList Json.bool o.obj.mask.toList), ("alpha", encM o.alpha), ("beta", encL o.beta.toList)]) r)
  | "fitq" =>
    -- the same model `fit`, run in exact rational arithmetic on the exact values of the bit patterns
    let b ← bsOfQ j
    let xs ← rats j "x"
    let ys ← rats j "y"
    let ws ← rats j "w"
    let perm ← J.fNats j "perm"
    if ys.length ≠ xs.length ∨ ws.length ≠ xs.length then throw "C09 fitq: lengths differ" else
    match fit kernelsQ b xs ys ws perm with
    | .error e => pure (Json.mkObj [("err", Json.str e)])
    | .ok o =>
      -- status ≠ 0 although the kernel was reached: `cholFactorQ` answered `none` and the model went into the
      -- fallback loop (needs a real sqrt) - not an exact run, no answer
      let viaFallback : Bool := o.status != 0 &&
        (match fit kernelsProbe b xs ys ws perm with | .ok o2 => o2.status == 0 | .error _ => false)
      if viaFallback then pure (Json.mkObj [("inexact", Json.str "fallback")]) else
      pure (Json.mkObj [("exact", Json.bool true), ("ok", Json.mkObj [
        ("status", J.ofInt o.status), ("yfit", encLQ o.yfit), ("coeff", encLQ o.obj.coeff.toList),
        ("mask", J.ofList Json.bool o.obj.mask.toList), ("alpha", encMQ o.alpha), ("beta", encLQ o.beta.toList)])])
  | "fit2" =>
    let b ← bs2Of floats J.fFloat (J.list (J.list J.float)) j
    let xs ← floats j "x"
    let x2s ← floats j "x2"
    let ys ← floats j "y"
    let ws ← floats j "w"
    let perm ← J.fNats j "perm"
    let xe ← floats j "xe"
    let x2e ← floats j "x2e"
    let perme ← J.fNats j "perme"
    if ys.length ≠ xs.length ∨ ws.length ≠ xs.length ∨ x2s.length ≠ xs.length ∨ x2e.length ≠ xe.length then throw "C09 fit2: lengths differ" else
    let r := fit2 kernelsF b xs x2s ys ws perm
    pure (resJ (fun (o : FitOut2 Float) =>
      let val : List (String × Json) :=
        if o.status == 0 && !xe.isEmpty then
          match o.obj.value xe x2e perme with
          | .ok (v, m) => [("val", encL v), ("valmask", J.ofList Json.bool m)]
          | .error e => [("val_err", Json.str e)]
        else []
      Json.mkObj ([
      ("status", J.ofInt o.status), ("yfit", encL o.yfit), ("coeff", encM o.obj.coeff2),
      ("mask", J.ofList Json.bool o.obj.base.mask.toList), ("alpha", encM o.alpha), ("beta", encL o.beta.toList)] ++ val)) r)
  | "fit2q" =>
    let b ← bs2Of rats rat1 (J.list (J.list (fun v => do pure (ratOfBits (← J.bits v))))) j
    let xs ← rats j "x"
    let x2s ← rats j "x2"
    let ys ← rats j "y"
    let ws ← rats j "w"
    let perm ← J.fNats j "perm"
    if ys.length ≠ xs.length ∨ ws.length ≠ xs.length ∨ x2s.length ≠ xs.length then throw "C09 fit2q: lengths differ" else
    match fit2 kernelsQ b xs x2s ys ws perm with
    | .error e => pure (Json.mkObj [("err", Json.str e)])
    | .ok o =>
      if o.status != 0 then pure (Json.mkObj [("inexact", Json.str "status"), ("status", J.ofInt o.status)]) else
      pure (Json.mkObj [("exact", Json.bool true), ("ok", Json.mkObj [
        ("status", J.ofInt o.status), ("yfit", encLQ o.yfit), ("coeff", encMQ o.obj.coeff2),
        ("mask", J.ofList Json.bool o.obj.base.mask.toList), ("alpha", encMQ o.alpha), ("beta", encLQ o.beta.toList)])])
  | "chol" =>
    let l ← J.list (J.list J.float) (← J.fld j "l")
    let mininf ← J.fFloat j "mininf"
    let la := (l.map List.toArray).toArray
    if la.any (fun r => r.size ≠ (la[0]!).size) then throw "C09 chol: ragged" else
    pure (resJ cholResJ (choleskyBand kernelsF la mininf))
  | "solve" =>
    let a ← J.list (J.list J.float) (← J.fld j "a")
    let bb ← floats j "b"
    pure (encL (choleskySolve kernelsF (a.map List.toArray).toArray bb.toArray).toList)
  | "maskpoints" =>
    let mask ← J.list J.bool (← J.fld j "mask")
    let nord ← J.fNat j "nord"
    let err ← J.fNats j "err"
    let (st, m) := maskpoints mask.toArray nord err
    pure (Json.mkObj [("status", J.ofInt st), ("mask", J.ofList Json.bool m.toList)])
  | _ => throw s!"C09: unknown op {op}"

end PydlVerif.Driver.C09

import PydlVerif.Model.JsonUtil
import PydlVerif.Model.Scalar
import PydlVerif.Model.BSpline
import PydlVerif.Model.BSplineFit
open Lean
namespace PydlVerif.Driver.C09
open PydlVerif PydlVerif.BSpline PydlVerif.BSplineFit

/-! Float stand-ins for the LAPACK kernels that the model takes as parameters (textbook banded
Cholesky `dpbtf2`-style and the two triangular solves).  They are NOT part of the model; the
comparison with the real code is within tolerance. -/

def g2 (m : Array (Array Float)) (r c : Nat) : Float := (m[r]!)[c]!

/-- lower band form `A[r][c] = A_full[c+r][c]`; returns `none` when a pivot is not positive -/
def cholFactorF (bw n : Nat) (A : Array (Array Float)) : Option (Array (Array Float)) := Id.run do
  let mut L := A
  for j in [0:n] do
    let d := g2 L 0 j
    if !(d > 0) then return none
    let s := Float.sqrt d
    L := L.modify 0 (fun row => row.set! j s)
    for r in [1:bw] do
      if j + r < n then
        L := L.modify r (fun row => row.modify j (fun v => v / s))
    for i in [1:bw] do
      if j + i < n then
        let xi := g2 L i j
        for r in [0:bw - i] do
          if j + i + r < n then
            let xr := g2 L (i + r) j
            L := L.modify r (fun row => row.modify (j + i) (fun v => v - xi * xr))
  -- entries below the matrix are not referenced by LAPACK; scipy returns them unchanged
  return some L

def cholSolveF (bw n : Nat) (L : Array (Array Float)) (b : Array Float) : Array Float := Id.run do
  let mut y := b
  for i in [0:n] do
    let mut s := y[i]!
    for r in [1:bw] do
      if r ≤ i then s := s - g2 L r (i - r) * y[i - r]!
    y := y.set! i (s / g2 L 0 i)
  for ii in [0:n] do
    let i := n - 1 - ii
    let mut s := y[i]!
    for r in [1:bw] do
      if i + r < n then s := s - g2 L r i * y[i + r]!
    y := y.set! i (s / g2 L 0 i)
  return y

def kernelsF : Kernels Float :=
  { sqrt := Float.sqrt, isFinite := Float.isFinite, cholFactor := cholFactorF, cholSolve := cholSolveF }

def floats (j : Json) (k : String) : Except String (List Float) := do J.list J.float (← J.fld j k)
def encL (l : List Float) : Json := J.ofList J.ofFloat l
def encM (m : Array (Array Float)) : Json := J.ofList (fun r => encL r.toList) m.toList

def bsOf (j : Json) : Except String (BS Float) := do
  pure { nord := ← J.fNat j "nord"
         breakpoints := (← floats j "bk").toArray
         mask := (← J.list J.bool (← J.fld j "mask")).toArray
         coeff := (← floats j "coeff").toArray }

def resJ {β} (f : β → Json) : BSpline.R β → Json
  | .ok v => Json.mkObj [("ok", f v)]
  | .error e => Json.mkObj [("err", Json.str e)]

def cholResJ : CholRes Float → Json
  | .factor L => Json.mkObj [("status", J.ofInt (-1)), ("L", encM L)]
  | .bad idx sc => Json.mkObj [("idx", J.ofList J.ofNat idx), ("scalar", Json.bool sc)]

def handle (j : Json) : Except String Json := do
  let op ← J.fStr j "op"
  match op with
  | "fit" =>
    let b ← bsOf j
    let xs ← floats j "x"
    let ys ← floats j "y"
    let ws ← floats j "w"
    let perm ← J.fNats j "perm"
    if ys.length ≠ xs.length ∨ ws.length ≠ xs.length then throw "C09 fit: lengths differ" else
    let r := fit kernelsF b xs ys ws perm
    pure (resJ (fun (o : FitOut Float) => Json.mkObj [
      ("status", J.ofInt o.status), ("yfit", encL o.yfit), ("coeff", encL o.obj.coeff.toList),
      ("mask", J.ofList Json.bool o.obj.mask.toList), ("alpha", encM o.alpha), ("beta", encL o.beta.toList)]) r)
  | "chol" =>
    let l ← J.list (J.list J.float) (← J.fld j "l")
    let mininf ← J.fFloat j "mininf"
    let la := (l.map List.toArray).toArray
    if la.any (fun r => r.size ≠ (la[0]!).size) then throw "C09 chol: ragged" else
    pure (resJ cholResJ (choleskyBand kernelsF la mininf))
  | "solve" =>
    let a ← J.list (J.list J.float) (← J.fld j "a")
    let bb ← floats j "b"
    pure (encL (choleskySolve kernelsF (a.map List.toArray).toArray bb.toArray).toList)
  | "maskpoints" =>
    let mask ← J.list J.bool (← J.fld j "mask")
    let nord ← J.fNat j "nord"
    let err ← J.fNats j "err"
    let (st, m) := maskpoints mask.toArray nord err
    pure (Json.mkObj [("status", J.ofInt st), ("mask", J.ofList Json.bool m.toList)])
  | _ => throw s!"C09: unknown op {op}"

end PydlVerif.Driver.C09

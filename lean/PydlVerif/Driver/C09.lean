import PydlVerif.Model.JsonUtil
open Lean
namespace PydlVerif.Driver.C09

def handle (_j : Json) : Except String Json := throw "C09: no model operations yet"

end PydlVerif.Driver.C09

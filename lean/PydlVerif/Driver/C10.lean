import PydlVerif.Model.JsonUtil
import PydlVerif.Model.IterFit
import PydlVerif.Model.IterFit2
import PydlVerif.Driver.C08
import PydlVerif.Driver.C09
open Lean
namespace PydlVerif.Driver.C10
open PydlVerif PydlVerif.BSpline PydlVerif.BSplineFit PydlVerif.IterFit

def optF (j : Json) (k : String) : Except String (Option Float) := J.fOpt J.float j k

def handle (j : Json) : Except String Json := do
  let op ← J.fStr j "op"
  match op with
  | "iterfit" =>
    let xs ← C09.floats j "x"
    let ys ← C09.floats j "y"
    let ivs ← C09.floats j "iv"
    let perm ← J.fNats j "perm"
    let o ← C08.optsOf C08.floatCodec j
    let p : Params Float := { upper := ← optF j "upper", lower := ← optF j "lower", maxiter := ← J.fNat j "maxiter",
                              nord := ← J.fNat j "nord", opts := o }
    let r := iterfit C09.kernelsF C08.floatCodec.r32 p xs ys ivs perm
    pure (C09.resJ (fun (bm : BS Float × List Bool) => Json.mkObj [
      ("bk", C09.encL bm.1.breakpoints.toList), ("bkmask", J.ofList Json.bool bm.1.mask.toList),
      ("coeff", C09.encL bm.1.coeff.toList), ("outmask", J.ofList Json.bool bm.2)]) r)
  | "iterfit_full" =>
    -- the full call: requiren / oldset (an object: nord, bk, mask, coeff) / groupbadpix; the "at most one good point" branch
    let xs ← C09.floats j "x"
    let ys ← C09.floats j "y"
    let ivs ← C09.floats j "iv"
    let perm ← J.fNats j "perm"
    let o ← C08.optsOf C08.floatCodec j
    let p : Params Float := { upper := ← optF j "upper", lower := ← optF j "lower", maxiter := ← J.fNat j "maxiter",
                              nord := ← J.fNat j "nord", opts := o }
    let fo : FullOpts Float := { requiren := ← J.fOpt J.nat j "requiren", oldset := ← J.fOpt C09.bsOf j "oldset",
                                 groupbadpix := (← J.fOpt J.bool j "groupbadpix").getD false }
    let r := iterfitFull C09.kernelsF C08.floatCodec.r32 p fo xs ys ivs perm
    pure (C09.resJ (fun (bm : FullOut Float) => Json.mkObj [
      ("bk", C09.encL bm.sset.breakpoints.toList), ("bkmask", J.ofList Json.bool bm.sset.mask.toList),
      ("coeff", C09.encL bm.sset.coeff.toList), ("cz", Json.bool bm.cz), ("outmask", J.ofList Json.bool bm.outmask)]) r)
  | "iterfit2" =>
    -- iterfit with the second variable x2 (2-D fit, npoly >= 1)
    let xs ← C09.floats j "x"
    let ys ← C09.floats j "y"
    let ivs ← C09.floats j "iv"
    let x2s ← C09.floats j "x2"
    let perm ← J.fNats j "perm"
    let o ← C08.optsOf C08.floatCodec j
    let p : Params Float := { upper := ← optF j "upper", lower := ← optF j "lower", maxiter := ← J.fNat j "maxiter",
                              nord := ← J.fNat j "nord", opts := o }
    let r := iterfit2 C09.kernelsF C08.floatCodec.r32 p (← J.fNat j "npoly") ((← J.fOpt J.bool j "groupbadpix").getD false)
      xs ys ivs x2s perm
    pure (C09.resJ (fun (bm : Out2 Float) => Json.mkObj [
      ("bk", C09.encL bm.sset.base.breakpoints.toList), ("bkmask", J.ofList Json.bool bm.sset.base.mask.toList),
      ("coeff", C09.encM bm.sset.coeff2), ("cz", Json.bool bm.cz), ("outmask", J.ofList Json.bool bm.outmask),
      ("xmin", J.ofFloat bm.sset.xmin), ("xmax", J.ofFloat bm.sset.xmax)]) r)
  | _ => throw s!"C10: unknown op {op}"

end PydlVerif.Driver.C10

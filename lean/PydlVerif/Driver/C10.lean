import PydlVerif.Model.JsonUtil
import PydlVerif.Model.IterFit
import PydlVerif.Driver.C08
import PydlVerif.Driver.C09
open Lean
namespace PydlVerif.Driver.C10
open PydlVerif PydlVerif.BSpline PydlVerif.BSplineFit PydlVerif.IterFit

def optF (j : Json) (k : String) : Except String (Option Float) := J.fOpt J.float j k

def handle (j : Json) : Except String Json := do
  let op ← J.fStr j "op"
  match op with
  | "iterfit" =>
    let xs ← C09.floats j "x"
    let ys ← C09.floats j "y"
    let ivs ← C09.floats j "iv"
    let perm ← J.fNats j "perm"
    let o ← C08.optsOf C08.floatCodec j
    let p : Params Float := { upper := ← optF j "upper", lower := ← optF j "lower", maxiter := ← J.fNat j "maxiter",
                              nord := ← J.fNat j "nord", opts := o }
    let r := iterfit C09.kernelsF C08.floatCodec.r32 p xs ys ivs perm
    pure (C09.resJ (fun (bm : BS Float × List Bool) => Json.mkObj [
      ("bk", C09.encL bm.1.breakpoints.toList), ("bkmask", J.ofList Json.bool bm.1.mask.toList),
      ("coeff", C09.encL bm.1.coeff.toList), ("outmask", J.ofList Json.bool bm.2)]) r)
  | _ => throw s!"C10: unknown op {op}"

end PydlVerif.Driver.C10

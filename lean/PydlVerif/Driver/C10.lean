import PydlVerif.Model.JsonUtil
open Lean
namespace PydlVerif.Driver.C10

def handle (_j : Json) : Except String Json := throw "C10: no model operations yet"

end PydlVerif.Driver.C10

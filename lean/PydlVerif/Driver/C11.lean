import PydlVerif.Model.JsonUtil
open Lean
namespace PydlVerif.Driver.C11

def handle (_j : Json) : Except String Json := throw "C11: no model operations yet"

end PydlVerif.Driver.C11

import PydlVerif.Model.JsonUtil
import PydlVerif.Model.Interp
import PydlVerif.Model.BSpline
import PydlVerif.Model.Combine
import PydlVerif.Model.CombineFit
import PydlVerif.Driver.C08
import PydlVerif.Driver.C09
open Lean
namespace PydlVerif.Driver.C11
open PydlVerif PydlVerif.Interp PydlVerif.BSpline PydlVerif.Combine

def resJ {β} (f : β → Json) : Except String β → Json
  | .ok v => Json.mkObj [("ok", f v)]
  | .error e => Json.mkObj [("err", Json.str e)]

def floats (j : Json) (k : String) : Except String (List Float) := do J.list J.float (← J.fld j k)
def ofFloats (l : List Float) : Json := J.ofList J.ofFloat l
def bools (j : Json) (k : String) : Except String (List Bool) := do
  pure ((← J.list J.nat (← J.fld j k)).map (· != 0))

def method (s : String) : Method :=
  match s with
  | "traditional" => .traditional
  | "noconst" => .noconst
  | "mean" => .mean
  | "nothing" => .nothing
  | "damp" => .damp
  | _ => .unknown

/-- `np.isfinite` -/
def classifyF (x : Float) : Val Float := if x.isFinite then .fin x else .nonfin

/-- plain mean (numpy sums pairwise: equal to rounding, compared with tolerance) -/
def meanF (l : List Float) : Float := l.foldl (· + ·) 0 / Float.ofNat l.length

/-- one recorded `iterfit` call: its arguments and what it returned -/
structure Rec where
  x : List Float
  y : List Float
  iv : Option (List Float)
  bkspace : Float
  nord : Nat
  err : Option String
  bs : BS Float
  coeffs : List Float
  bmask : List Bool

def recOf (j : Json) : Except String Rec := do
  let err ← J.fOpt J.str j "err"
  let nord ← J.fNat j "nord"
  let coeffs ← floats j "coeff"
  pure { x := ← floats j "x", y := ← floats j "y", iv := ← J.fOpt (J.list J.float) j "iv"
         bkspace := ← J.fFloat j "bkspace", nord := nord, err := err
         bs := { nord := nord, breakpoints := (← floats j "bk").toArray
                 mask := (← bools j "mask").toArray, coeff := coeffs.toArray }
         coeffs := coeffs, bmask := ← bools j "bmask" }

def sameBits (a b : List Float) : Bool := a.map (·.toBits) == b.map (·.toBits)

/-- the `fit` parameter realised from the recorded calls: a call is answered by the record
whose arguments are bit-identical to the ones the model passes (groups cover disjoint
wavelength ranges, so at most one matches); none matching means that the model did not
follow the code -/
def fitOf (recs : Array Rec) (_k : Nat) (bkspace : Float) (x y : List Float)
    (iv : Option (List Float)) : Combine.R (Fit Float) :=
  let sameIv (r : Rec) : Bool := match iv, r.iv with
    | none, none => true
    | some a, some b => sameBits a b
    | _, _ => false
  match recs.find? (fun r => sameBits x r.x && sameBits y r.y && sameIv r &&
      bkspace.toBits == r.bkspace.toBits && r.nord == 3) with
  | none => .error "model:fit-args-differ"
  | some r =>
    match r.err with
    | some e => .error e
    | none =>
      .ok { coeffs := r.coeffs
            value := fun xs => r.bs.value xs (argsortIns xs)
            bmask := r.bmask }

/-- `ndarray.var()`: mean, then the mean of the squared deviations (numpy adds pairwise: equal to rounding) -/
def varF (l : List Float) : Float :=
  let n := Float.ofNat l.length
  let m := l.foldl (· + ·) 0 / n
  l.foldl (fun s v => s + (v - m) * (v - m)) 0 / n

/-- the self-contained fit: Model/CombineFit.lean `fitFull` with the Float kernels of Driver/C09 (textbook banded
Cholesky for LAPACK), float32 rounding of Driver/C08 and a stable insertion argsort for `ndarray.argsort()` -/
def fitSelf : Nat → Float → List Float → List Float → Option (List Float) → Combine.R (Fit Float) :=
  fitFull C09.kernelsF C08.floatCodec.r32 varF argsortIns

def isSortingPerm (keys : List Float) (perm : List Nat) : Bool :=
  let n := keys.length
  perm.length == n && (List.range n).all (fun i => perm.contains i) &&
  (List.range (n - 1)).all (fun i => keys.getD (perm.getD i 0) 0 ≤ keys.getD (perm.getD (i+1) 0) 0)

def handle (j : Json) : Except String Json := do
  let op ← J.fStr j "op"
  match op with
  | "c1f" =>
    let inp : Input Float := {
      xshape := ← J.fNats j "xshape", fshape := ← J.fNats j "fshape"
      ishape := ← J.fOpt (J.list J.nat) j "ishape"
      x := ← floats j "x", flux := ← floats j "flux", ivar := ← J.fOpt (J.list J.float) j "ivar"
      newx := ← floats j "newx"
      binsz := ← J.fOpt J.float j "binsz", maxsep := ← J.fOpt J.float j "maxsep"
      method := method (← J.fStr j "method") }
    let perm ← J.fNats j "perm"
    let recs ← J.array recOf (← J.fld j "fits")
    let tab ← J.list (fun e => do
      let a ← J.arr e
      pure ((← J.bits a[0]!), (← J.float a[1]!))) (← J.fld j "erf")
    let erf : Float → Float := fun x =>
      match tab.find? (fun e => e.1 == x.toBits) with
      | some e => e.2
      | none => 0.0 / 0.0
    let argsort : List Float → List Nat := fun keys => if isSortingPerm keys perm then perm else []
    let self := (← J.fOpt J.str j "mode") == some "self"
    pure (resJ (fun (r : List Float × List Float) => Json.arr #[ofFloats r.1, ofFloats r.2])
      (combine1fiber (if self then fitSelf else fitOf recs) argsort medOdd meanF erf classifyF inp))
  | "iterfit" =>
    -- one call of iterfit as combine1fiber makes it (nord=3, requiren=1, bkspace given), self-contained
    let x ← floats j "x"
    let y ← floats j "y"
    let iv ← J.fOpt (J.list J.float) j "iv"
    let bkspace ← J.fFloat j "bkspace"
    pure (resJ (fun (o : RqOut Float) => Json.mkObj [
        ("bk", ofFloats o.sset.breakpoints.toList), ("mask", J.ofList Json.bool o.sset.mask.toList),
        ("coeff", ofFloats (if o.cz then [0.0] else o.sset.coeff.toList)), ("cz", Json.bool o.cz),
        ("bmask", J.ofList Json.bool o.outmask)])
      (iterfitRq C09.kernelsF C08.floatCodec.r32 varF (c1fParams bkspace) (some 1) x y iv (argsortIns x)))
  | "groups" =>
    -- the grouping alone: sizes of the groups for given sorted wavelengths
    let x ← floats j "x"
    let isort ← J.fNats j "isort"
    let maxsep ← J.fFloat j "maxsep"
    pure (resJ (J.ofList (J.ofList J.ofNat)) (groupsOf x isort maxsep))
  | "shift" =>
    let l ← floats j "loglam"
    let row ← floats j "row"
    let s ← J.fFloat j "s"
    pure (Json.arr #[ofFloats (shiftRow l s), ofFloats (pickRow l row)])
  | "preprocess" =>
    -- the arguments of every combine1fiber call of preprocess_spectra (Model/CombineFit.lean `preprocessInput`)
    let l ← floats j "loglam"
    let ls ← floats j "logshift"
    let fl ← J.list (J.list J.float) (← J.fld j "flux")
    let iv ← J.list (J.list J.float) (← J.fld j "ivar")
    let newx ← floats j "newx"
    pure (J.ofList (fun (k : Nat) =>
      let inp := preprocessInput l ls fl iv newx (method (j.getObjValAs? String "method" |>.toOption.getD "traditional")) k
      Json.arr #[ofFloats inp.x, ofFloats inp.flux, ofFloats (inp.ivar.getD []), ofFloats (inp.binsz.toList),
                 J.ofList J.ofNat inp.xshape, ofFloats inp.newx]) (List.range fl.length))
  | "grow" =>
    let a ← floats j "a"
    pure (ofFloats (growBad a))
  | _ => throw s!"C11: unknown op {op}"

end PydlVerif.Driver.C11

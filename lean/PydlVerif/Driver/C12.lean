import PydlVerif.Model.JsonUtil
import PydlVerif.Model.Mangle
import PydlVerif.Model.ManglePly
import PydlVerif.Model.MangleExt
open Lean
namespace PydlVerif.Driver.C12
open PydlVerif PydlVerif.Mangle

def cap (j : Json) : Except String (Cap Float) := do
  match ← J.list J.float j with
  | [x, y, z, cm] => pure ⟨x, y, z, cm⟩
  | _ => throw "cap: need 4 floats"

def point (j : Json) : Except String (Point Float) := do
  match ← J.list J.float j with
  | [a, b, c] => pure (.xyz a b c)
  | [ra, dec] => pure (.radec ra dec)
  | _ => throw "point: need 2 or 3 floats"

def poly (j : Json) : Except String (Polygon Float) := do
  pure { ncaps := ← J.fNat j "n", useCaps := ← J.fNat j "u", rows := ← J.list cap (← J.fld j "rows") }

def capJ (c : Cap Float) : Json := J.ofList J.ofFloat [c.x, c.y, c.z, c.cm]

def polyJ (P : Polygon Float) : Json :=
  Json.mkObj [("n", J.ofNat P.ncaps), ("u", J.ofNat P.useCaps), ("rows", J.ofList capJ P.rows)]

def resJ {β} (f : β → Json) : Except String β → Json
  | .ok v => Json.mkObj [("ok", f v)]
  | .error e => Json.mkObj [("err", Json.str e)]

def brow (j : Json) : Except String BRow := do
  match ← J.list J.nat j with
  | [i, n] => pure ⟨i, n⟩
  | _ => throw "brow: need [icap, ncaps]"

/-! ### .ply reader -/
open PydlVerif.ManglePly in
def chars (s : List Char) : Json := Json.str (String.ofList s)

/-- `float(text)` as a table computed by Python for every token of the file (absent / null = ValueError) -/
def ftabEntry (j : Json) : Except String (List Char × Option Float) := do
  match ← J.arr j with
  | #[t, v] => pure ((← J.str t).toList, ← J.optional J.float v)
  | _ => throw "ftab: need [token, bits|null]"

def lookupF (tab : List (List Char × Option Float)) (t : List Char) : Option Float :=
  match tab.find? (fun e => e.1 == t) with
  | some e => e.2
  | none => none

open PydlVerif.ManglePly in
def plyPolyJ (P : PlyPoly Float) : Json :=
  Json.mkObj [("id", J.ofNat P.id), ("n", J.ofNat P.ncaps), ("u", J.ofNat P.useCaps), ("w", J.ofFloat P.weight),
              ("pixel", J.ofInt P.pixel), ("str", match P.str with | some s => J.ofFloat s | none => Json.null),
              ("rows", J.ofList (fun c => J.ofList J.ofFloat [c.x, c.y, c.z, c.cm]) P.rows)]

open PydlVerif.ManglePly in
def lexLineJ (l : LexLine) : Json :=
  Json.mkObj [("starts", Json.bool l.starts),
              ("hdr", match l.hdr with
                      | some (ds, ps) => Json.arr #[chars ds, J.ofList (J.ofList chars) ps]
                      | none => Json.null),
              ("toks", J.ofList chars l.toks), ("raw", chars l.raw)]

def handle (j : Json) : Except String Json := do
  let op ← J.fStr j "op"
  match op with
  | "capdist" =>
    let c ← cap (← J.fld j "cap")
    let pts ← J.list point (← J.fld j "pts")
    pure (Json.mkObj [("d", J.ofList J.ofFloat (pts.map (capDistance c))),
                      ("in", J.ofList Json.bool (pts.map (isInCap c)))])
  | "inpoly" =>
    let P ← poly (← J.fld j "poly")
    let pts ← J.list point (← J.fld j "pts")
    let n ← J.fInt j "ncaps"
    pure (resJ (J.ofList Json.bool) (isInPolygon P pts n))
  | "window" =>
    let n ← J.fInt j "ncaps"
    let pts ← J.list point (← J.fld j "pts")
    let conv := (J.fBool j "convert").toOption.getD false
    let src : Except String (List (Polygon Float)) ←
      (match j.getObjVal? "blist" with
       | .ok bl => do
         let bl ← J.list brow bl
         let bc ← J.list cap (← J.fld j "bcaps")
         pure (balkansAssemble bl bc)
       | .error _ => do
         let ps ← J.list poly (← J.fld j "polys")
         pure (pure ps))
    let r : Except String (List (Bool × Int)) := do
      let ps ← src
      isInWindow (if conv then ps.map ofRecord else ps) pts n
    pure (resJ (J.ofList fun (b, i) => Json.arr #[Json.bool b, J.ofInt i]) r)
  | "usecaps" =>
    let rows ← J.list cap (← J.fld j "rows")
    let u ← J.fNat j "u"
    let idx ← J.fNats j "idx"
    let add ← J.fBool j "add"
    let tol ← J.fFloat j "tol"
    let ad ← J.fBool j "ad"
    let an ← J.fBool j "an"
    pure (J.ofNat (setUseCaps rows u idx add tol ad an))
  | "record" =>
    let P ← poly (← J.fld j "poly")
    pure (polyJ (ofRecord P))
  | "balkans" =>
    let bl ← J.list brow (← J.fld j "blist")
    let bc ← J.list cap (← J.fld j "bcaps")
    pure (resJ (J.ofList polyJ) (balkansAssemble bl bc))
  | "record1" =>
    let P ← poly (← J.fld j "poly")
    pure (resJ polyJ (ofRecordScalar P))
  | "circlecap" =>
    let rs ← J.list J.float (← J.fld j "r")
    let pts ← J.list point (← J.fld j "pts")
    pure (J.ofList capJ (List.zipWith circleCap rs pts))
  | "addcaps" =>
    let P ← poly (← J.fld j "poly")
    let new ← J.list cap (← J.fld j "new")
    pure (resJ polyJ (addCaps P new))
  | "polyn" =>
    let P ← poly (← J.fld j "poly")
    let O ← poly (← J.fld j "other")
    let n ← J.fNat j "n"
    let c ← J.fBool j "compl"
    pure (resJ polyJ (polyn P O n c))
  | "plyparse" =>
    let text ← J.fStr j "text"
    let tab ← J.list ftabEntry (← J.fld j "ftab")
    let r := ManglePly.parsePly (lookupF tab) (1.0 : Float) text.toList
    pure (resJ (fun (h, ps) => Json.mkObj [("header", J.ofList chars h), ("polys", J.ofList plyPolyJ ps)]) r)
  | "plylex" =>
    let text ← J.fStr j "text"
    pure (J.ofList lexLineJ (ManglePly.lexFile text.toList))
  | _ => throw s!"C12: unknown op {op}"

end PydlVerif.Driver.C12

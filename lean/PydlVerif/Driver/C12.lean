import PydlVerif.Model.JsonUtil
open Lean
namespace PydlVerif.Driver.C12

def handle (_j : Json) : Except String Json := throw "C12: no model operations yet"

end PydlVerif.Driver.C12

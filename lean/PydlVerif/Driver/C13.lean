import PydlVerif.Model.JsonUtil
open Lean
namespace PydlVerif.Driver.C13

def handle (_j : Json) : Except String Json := throw "C13: no model operations yet"

end PydlVerif.Driver.C13

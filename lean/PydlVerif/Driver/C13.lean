import PydlVerif.Model.JsonUtil
import PydlVerif.Model.Trace
open Lean
namespace PydlVerif.Driver.C13
open PydlVerif PydlVerif.Trace

/-- how scalars cross the protocol: Float as bit pattern both ways; Rat in as the exact
value of a bit pattern, out as [num, den] -/
structure Codec (α : Type) where
  dec : Json → Except String α
  enc : α → Json

def floatC : Codec Float := ⟨J.float, J.ofFloat⟩
def ratC : Codec Rat := ⟨fun j => do pure (ratOfBits (← J.bits j)), J.ofRat⟩

variable {α : Type} [Scalar α]

def resJ {β : Type} (f : β → Json) : Trace.R β → Json
  | .ok v => Json.mkObj [("ok", f v)]
  | .error e => Json.mkObj [("err", Json.str e)]

def arr1 (c : Codec α) (j : Json) : Except String (Array α) := J.array c.dec j
def arr2 (c : Codec α) (j : Json) : Except String (Array (Array α)) := J.array (arr1 c) j
def bools1 (j : Json) : Except String (Array Bool) := J.array J.bool j
def bools2 (j : Json) : Except String (Array (Array Bool)) := J.array bools1 j
def enc1 (c : Codec α) (a : Array α) : Json := J.ofArray c.enc a
def enc2 (c : Codec α) (a : Array (Array α)) : Json := J.ofArray (enc1 c) a
def encB2 (a : Array (Array Bool)) : Json := J.ofArray (J.ofArray Json.bool) a

def xin (c : Codec α) (j : Json) : Except String (XIn α) := do
  match j.getObjVal? "xs" with
  | .ok v => pure (.arr (← arr1 c v))
  | .error _ => pure (.scalar (← c.dec (← J.fld j "x")))

def tsetOf (c : Codec α) (j : Json) : Except String (TSet α) := do
  pure { func := ← J.fStr j "func", xmin := ← c.dec (← J.fld j "xmin"), xmax := ← c.dec (← J.fld j "xmax"),
         coeff := ← arr2 c (← J.fld j "coeff"), ncoeff := ← J.fNat j "ncoeff",
         xjumplo := ← J.fOpt c.dec j "xjumplo", xjumphi := ← J.fOpt c.dec j "xjumphi",
         xjumpval := ← J.fOpt c.dec j "xjumpval" }

def handleWith (c : Codec α) (op : String) (j : Json) : Except String Json := do
  match op with
  | "basis" =>
    let f ← J.fStr j "func"
    let m ← J.fNat j "m"
    let x ← xin c j
    let r : Trace.R (Array (Array α)) ← (match f with
      | "legendre" => pure (flegendre x m)
      | "chebyshev" => pure (fchebyshev x m)
      | "chebyshev_split" => pure (fchebyshevSplit x m)
      | "poly" => pure (fpoly x m)
      | _ => throw s!"basis: unknown function {f}")
    pure (resJ (enc2 c) r)
  | "fit" =>
    let inp : FitIn α := {
      x := ← arr1 c (← J.fld j "x"), y := ← arr1 c (← J.fld j "y"), ncoeff := ← J.fNat j "ncoeff",
      invvar := ← J.fOpt (arr1 c) j "invvar", func := ← J.fStr j "func",
      ia := ← J.fOpt bools1 j "ia", inputans := ← J.fOpt (arr1 c) j "inputans",
      inputfunc := ← J.fOpt (arr1 c) j "inputfunc" }
    pure (resJ (fun (o : FitOut α) => Json.mkObj [("res", enc1 c o.res), ("yfit", enc1 c o.yfit)])
      (funcFit gaussSolve inp))
  | "tsfit" =>
    let inp : TsIn α := {
      xpos := ← arr2 c (← J.fld j "xpos"), ypos := ← arr2 c (← J.fld j "ypos"),
      invvar := ← J.fOpt (arr2 c) j "invvar", inmask := ← J.fOpt bools2 j "inmask",
      func := ← J.fStr j "func", ncoeff := ← J.fNat j "ncoeff",
      xmin := ← J.fOpt c.dec j "xmin", xmax := ← J.fOpt c.dec j "xmax", maxiter := ← J.fInt j "maxiter",
      xjumplo := ← J.fOpt c.dec j "xjumplo", xjumphi := ← J.fOpt c.dec j "xjumphi",
      xjumpval := ← J.fOpt c.dec j "xjumpval" }
    let r := tsetFit gaussSolve inp
    -- optionally evaluate the fitted set again (xy at the fitting positions / on the default grid)
    let again ← J.fOpt J.str j "then"
    pure (resJ (fun (o : TsOut α) =>
      let base := [("coeff", enc2 c o.tset.coeff), ("yfit", enc2 c o.yfit), ("outmask", encB2 o.outmask),
                   ("xmin", c.enc o.tset.xmin), ("xmax", c.enc o.tset.xmax)]
      let extra := match again with
        | some "xy" => [("xy", resJ (fun (p : Array (Array α) × Array (Array α)) => enc2 c p.2)
                                   (o.tset.xy (some inp.xpos) false))]
        | _ => []
      Json.mkObj (base ++ extra)) r)
  | "xy" =>
    let t ← tsetOf c j
    let xpos ← J.fOpt (arr2 c) j "xpos"
    let ign ← J.fBool j "ignore_jump"
    pure (resJ (fun (p : Array (Array α) × Array (Array α)) =>
      Json.mkObj [("x", enc2 c p.1), ("y", enc2 c p.2)]) (t.xy xpos ign))
  | "xnorm" =>
    let t ← tsetOf c j
    let xs ← arr1 c (← J.fld j "xs")
    let jump ← J.fBool j "jump"
    pure (resJ (enc1 c) (t.xnorm xs jump))
  | _ => throw s!"C13: unknown op {op}"

def handle (j : Json) : Except String Json := do
  let op ← J.fStr j "op"
  let mode ← J.fOpt J.str j "mode"
  match mode with
  | some "rat" => handleWith ratC op j
  | _ => handleWith floatC op j

end PydlVerif.Driver.C13

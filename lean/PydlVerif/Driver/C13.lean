import PydlVerif.Model.JsonUtil
import PydlVerif.Model.Trace
import PydlVerif.Model.TraceIter
open Lean
namespace PydlVerif.Driver.C13
open PydlVerif PydlVerif.Trace

/-- how scalars cross the protocol: Float as bit pattern both ways; Rat in as the exact
value of a bit pattern, out as [num, den] -/
structure Codec (α : Type) where
  dec : Json → Except String α
  enc : α → Json
  /-- `np.sqrt` for the rejection step of the loop (`djs_reject`); never evaluated in the form `TraceSet.__init__` calls it
  (no `lower`/`upper`), so the Rat instance is a placeholder -/
  sqrt : α → α

def floatC : Codec Float := ⟨J.float, J.ofFloat, Float.sqrt⟩
def ratC : Codec Rat := ⟨fun j => do pure (ratOfBits (← J.bits j)), J.ofRat, id⟩

variable {α : Type} [Scalar α]

def resJ {β : Type} (f : β → Json) : Trace.R β → Json
  | .ok v => Json.mkObj [("ok", f v)]
  | .error e => Json.mkObj [("err", Json.str e)]

def arr1 (c : Codec α) (j : Json) : Except String (Array α) := J.array c.dec j
def arr2 (c : Codec α) (j : Json) : Except String (Array (Array α)) := J.array (arr1 c) j
def bools1 (j : Json) : Except String (Array Bool) := J.array J.bool j
def bools2 (j : Json) : Except String (Array (Array Bool)) := J.array bools1 j
def enc1 (c : Codec α) (a : Array α) : Json := J.ofArray c.enc a
def enc2 (c : Codec α) (a : Array (Array α)) : Json := J.ofArray (enc1 c) a
def encB2 (a : Array (Array Bool)) : Json := J.ofArray (J.ofArray Json.bool) a

def xin (c : Codec α) (j : Json) : Except String (XIn α) := do
  match j.getObjVal? "xs" with
  | .ok v => pure (.arr (← arr1 c v))
  | .error _ => pure (.scalar (← c.dec (← J.fld j "x")))

def tsetOf (c : Codec α) (j : Json) : Except String (TSet α) := do
  pure { func := ← J.fStr j "func", xmin := ← c.dec (← J.fld j "xmin"), xmax := ← c.dec (← J.fld j "xmax"),
         coeff := ← arr2 c (← J.fld j "coeff"), ncoeff := ← J.fNat j "ncoeff",
         xjumplo := ← J.fOpt c.dec j "xjumplo", xjumphi := ← J.fOpt c.dec j "xjumphi",
         xjumpval := ← J.fOpt c.dec j "xjumpval" }

def tsInOf (c : Codec α) (j : Json) : Except String (TsIn α) := do
  pure {
      xpos := ← arr2 c (← J.fld j "xpos"), ypos := ← arr2 c (← J.fld j "ypos"),
      invvar := ← J.fOpt (arr2 c) j "invvar", inmask := ← J.fOpt bools2 j "inmask",
      func := ← J.fStr j "func", ncoeff := ← J.fNat j "ncoeff",
      xmin := ← J.fOpt c.dec j "xmin", xmax := ← J.fOpt c.dec j "xmax", maxiter := ← J.fInt j "maxiter",
      xjumplo := ← J.fOpt c.dec j "xjumplo", xjumphi := ← J.fOpt c.dec j "xjumphi",
      xjumpval := ← J.fOpt c.dec j "xjumpval" }

def tsOutJ (c : Codec α) (o : TsOut α) : Json :=
  Json.mkObj [("coeff", enc2 c o.tset.coeff), ("yfit", enc2 c o.yfit), ("outmask", encB2 o.outmask),
              ("xmin", c.enc o.tset.xmin), ("xmax", c.enc o.tset.xmax)]

/-- one column of a FITS record: `[name, "s", string]`, `[name, "n", number]`, `[name, "m", nrow, ncol, rows]` -/
def cellOf (c : Codec α) (j : Json) : Except String (String × Cell α) := do
  let a ← j.getArr?
  let name ← (a.getD 0 Json.null).getStr?
  let kind ← (a.getD 1 Json.null).getStr?
  match kind with
  | "s" => pure (name, .str (← (a.getD 2 Json.null).getStr?))
  | "n" => pure (name, .num (← c.dec (a.getD 2 Json.null)))
  | "m" => pure (name, .mat (← (a.getD 2 Json.null).getNat?) (← (a.getD 3 Json.null).getNat?) (← arr2 c (a.getD 4 Json.null)))
  | _ => throw s!"cell: unknown kind {kind}"

def handleWith (c : Codec α) (op : String) (j : Json) : Except String Json := do
  match op with
  | "basis" =>
    let f ← J.fStr j "func"
    let m ← J.fNat j "m"
    let x ← xin c j
    let r : Trace.R (Array (Array α)) ← (match f with
      | "legendre" => pure (flegendre x m)
      | "chebyshev" => pure (fchebyshev x m)
      | "chebyshev_split" => pure (fchebyshevSplit x m)
      | "poly" => pure (fpoly x m)
      | _ => throw s!"basis: unknown function {f}")
    pure (resJ (enc2 c) r)
  | "fit" =>
    let inp : FitIn α := {
      x := ← arr1 c (← J.fld j "x"), y := ← arr1 c (← J.fld j "y"), ncoeff := ← J.fNat j "ncoeff",
      invvar := ← J.fOpt (arr1 c) j "invvar", func := ← J.fStr j "func",
      ia := ← J.fOpt bools1 j "ia", inputans := ← J.fOpt (arr1 c) j "inputans",
      inputfunc := ← J.fOpt (arr1 c) j "inputfunc" }
    pure (resJ (fun (o : FitOut α) => Json.mkObj [("res", enc1 c o.res), ("yfit", enc1 c o.yfit)])
      (funcFit gaussSolve inp))
  | "tsfit" =>
    let inp : TsIn α := {
      xpos := ← arr2 c (← J.fld j "xpos"), ypos := ← arr2 c (← J.fld j "ypos"),
      invvar := ← J.fOpt (arr2 c) j "invvar", inmask := ← J.fOpt bools2 j "inmask",
      func := ← J.fStr j "func", ncoeff := ← J.fNat j "ncoeff",
      xmin := ← J.fOpt c.dec j "xmin", xmax := ← J.fOpt c.dec j "xmax", maxiter := ← J.fInt j "maxiter",
      xjumplo := ← J.fOpt c.dec j "xjumplo", xjumphi := ← J.fOpt c.dec j "xjumphi",
      xjumpval := ← J.fOpt c.dec j "xjumpval" }
    let r := tsetFit gaussSolve inp
    -- optionally evaluate the fitted set again (xy at the fitting positions / on the default grid)
    let again ← J.fOpt J.str j "then"
    pure (resJ (fun (o : TsOut α) =>
      let base := [("coeff", enc2 c o.tset.coeff), ("yfit", enc2 c o.yfit), ("outmask", encB2 o.outmask),
                   ("xmin", c.enc o.tset.xmin), ("xmax", c.enc o.tset.xmax)]
      let extra := match again with
        | some "xy" => [("xy", resJ (fun (p : Array (Array α) × Array (Array α)) => enc2 c p.2)
                                   (o.tset.xy (some inp.xpos) false))]
        | _ => []
      Json.mkObj (base ++ extra)) r)
  | "tsfitrej" =>
    -- the loop with C17's model of djs_reject inside, and its agreement with `tsetFit` (theorem `tsetFitRej_eq`) on this input;
    -- `reorder`: the traces re-ordered first (row i of the input := row reorder[i])
    let inp0 ← tsInOf c j
    let perm ← J.fOpt (J.array J.nat) j "reorder"
    let inp := match perm with
      | some p => inp0.reorder (fun i => p.getD i 0)
      | none => inp0
    let r := tsetFitRej c.sqrt gaussSolve inp
    let r0 := tsetFit gaussSolve inp
    let same := toString (resJ (tsOutJ c) r) == toString (resJ (tsOutJ c) r0)
    pure (Json.mkObj [("rej", resJ (tsOutJ c) r), ("same_as_tsfit", Json.bool same)])
  | "hduxy" =>
    let cols ← J.array (cellOf c) (← J.fld j "cols")
    let xpos ← J.fOpt (arr2 c) j "xpos"
    let ign ← J.fBool j "ignore_jump"
    let r : Trace.R (TSet α × (Array (Array α) × Array (Array α))) := do
      let t ← TSet.ofRec ⟨cols.toList⟩
      let p ← t.xy xpos ign
      pure (t, p)
    pure (resJ (fun (q : TSet α × (Array (Array α) × Array (Array α))) =>
      Json.mkObj [("x", enc2 c q.2.1), ("y", enc2 c q.2.2), ("ntrace", Json.num q.1.coeff.size), ("ncoeff", Json.num q.1.ncoeff),
                  ("func", Json.str q.1.func), ("has_jump", Json.bool q.1.xjumplo.isSome)]) r)
  | "recxy" =>
    -- store the trace set as a record (`toRec`), read it back (`ofRec`), evaluate (theorem `ofRec_toRec`)
    let t ← tsetOf c j
    let xpos ← J.fOpt (arr2 c) j "xpos"
    let ign ← J.fBool j "ignore_jump"
    let r : Trace.R (Array (Array α) × Array (Array α)) := do
      let t' ← TSet.ofRec t.toRec
      t'.xy xpos ign
    pure (resJ (fun (p : Array (Array α) × Array (Array α)) =>
      Json.mkObj [("x", enc2 c p.1), ("y", enc2 c p.2)]) r)
  | "xy" =>
    let t ← tsetOf c j
    let xpos ← J.fOpt (arr2 c) j "xpos"
    let ign ← J.fBool j "ignore_jump"
    pure (resJ (fun (p : Array (Array α) × Array (Array α)) =>
      Json.mkObj [("x", enc2 c p.1), ("y", enc2 c p.2)]) (t.xy xpos ign))
  | "xnorm" =>
    let t ← tsetOf c j
    let xs ← arr1 c (← J.fld j "xs")
    let jump ← J.fBool j "jump"
    pure (resJ (enc1 c) (t.xnorm xs jump))
  | _ => throw s!"C13: unknown op {op}"

def handle (j : Json) : Except String Json := do
  let op ← J.fStr j "op"
  let mode ← J.fOpt J.str j "mode"
  match mode with
  | some "rat" => handleWith ratC op j
  | _ => handleWith floatC op j

end PydlVerif.Driver.C13

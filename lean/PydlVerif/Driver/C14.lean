import PydlVerif.Model.JsonUtil
import PydlVerif.Model.Idl
open Lean
namespace PydlVerif.Driver.C14
open PydlVerif PydlVerif.Idl

def resJ {α} (f : α → Json) : Idl.R α → Json
  | .ok v => Json.mkObj [("ok", f v)]
  | .error e => Json.mkObj [("err", Json.str e)]

/-- scalar interpretation chosen per request: numbers arrive as float64 bit patterns -/
structure Codec (α : Type) where
  dec : Json → Except String α
  enc : α → Json

def floatCodec : Codec Float := ⟨J.float, J.ofFloat⟩
def ratCodec : Codec Rat := ⟨fun j => do pure (ratOfBits (← J.bits j)), J.ofRat⟩

def numeric {α : Type} [Scalar α] (c : Codec α) (op : String) (j : Json) : Except String Json := do
  match op with
  | "smooth" =>
    let x ← J.list c.dec (← J.fld j "x")
    let w ← J.fInt j "w"
    let t ← J.fBool j "trunc"
    pure (J.ofList c.enc (smooth x w t))
  | "median" =>
    -- several vectors per line: the plain median of each
    let xs ← J.list (J.list c.dec) (← J.fld j "xs")
    let even ← J.fBool j "even"
    pure (J.ofList (fun x => resJ c.enc (medianPlain x even)) xs)
  | "medrun1" =>
    let x ← J.list c.dec (← J.fld j "x")
    let w ← J.fNat j "w"
    pure (resJ (J.ofList c.enc) (medianRun1 medfilt1 x w))
  | "medrun2" =>
    let x ← J.list (J.list c.dec) (← J.fld j "x")
    let n1 ← J.fNat j "n1"
    let w ← J.fNat j "w"
    pure (resJ (J.ofList (J.ofList c.enc)) (medianRun2 medfilt2 x n1 w))
  | "rebin" =>
    let shape ← J.fNats j "shape"
    let x ← J.array c.dec (← J.fld j "x")
    let d ← J.fNats j "d"
    let s ← J.fBool j "sample"
    if x.size != prod shape then throw "rebin: data does not fit the shape"
    pure (resJ (fun (r : ND α) => Json.mkObj [("shape", J.ofList J.ofNat r.shape), ("x", J.ofArray c.enc r.data)])
      (rebin ⟨shape, x⟩ d s))
  | "sample_float" =>
    -- the pre-fix index rule of rebin(sample=True), for the record of D11
    let x ← J.list c.dec (← J.fld j "x")
    let d ← J.fNat j "d"
    pure (J.ofList c.enc (laneExpandSampleFloat x.length d x))
  | "sum" =>
    let x ← J.list c.dec (← J.fld j "x")
    pure (c.enc (npSum x))
  | _ => throw s!"C14: unknown numeric op {op}"

def handle (j : Json) : Except String Json := do
  let op ← J.fStr j "op"
  match op with
  | "uniq_i" =>
    let x ← J.fInts j "x"
    match ← J.fOpt (J.list J.int) j "index" with
    | none => pure (resJ (J.ofList J.ofInt) (pure (uniq x)))
    | some ix => pure (resJ (J.ofList J.ofInt) (uniqIndex x ix))
  | "uniq_f" =>
    let x ← J.list J.float (← J.fld j "x")
    match ← J.fOpt (J.list J.int) j "index" with
    | none => pure (resJ (J.ofList J.ofInt) (pure (uniq x)))
    | some ix => pure (resJ (J.ofList J.ofInt) (uniqIndex x ix))
  | _ =>
    let mode ← (J.fOpt J.str j "mode")
    match mode with
    | some "q" => numeric ratCodec op j
    | _ => numeric floatCodec op j

end PydlVerif.Driver.C14

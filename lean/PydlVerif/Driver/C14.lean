import PydlVerif.Model.JsonUtil
open Lean
namespace PydlVerif.Driver.C14

def handle (_j : Json) : Except String Json := throw "C14: no model operations yet"

end PydlVerif.Driver.C14

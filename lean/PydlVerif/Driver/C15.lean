import PydlVerif.Model.JsonUtil
import PydlVerif.Model.Solvers
open Lean
namespace PydlVerif.Driver.C15
open PydlVerif PydlVerif.Solvers

/-! Float instantiations of the kernel parameters of the model (independent of LAPACK):
Gaussian elimination with partial pivoting, cyclic Jacobi for symmetric matrices,
SVD of a symmetric positive semi-definite matrix through Jacobi, insertion argsort. -/

def solveGE (A : Mat Float) (b : Vec Float) : Vec Float := Id.run do
  let n := b.size
  let mut M := A
  let mut r := b
  for c in [0:n] do
    let mut p := c
    for i in [c+1:n] do
      if (M[i]![c]!).abs > (M[p]![c]!).abs then p := i
    if p != c then
      let t := M[c]!
      M := M.set! c M[p]!
      M := M.set! p t
      let tb := r[c]!
      r := r.set! c r[p]!
      r := r.set! p tb
    let piv := M[c]![c]!
    let rowc := M[c]!
    for i in [c+1:n] do
      let f := M[i]![c]! / piv
      let mut rowi := M[i]!
      for j in [c:n] do
        rowi := rowi.set! j (rowi[j]! - f * rowc[j]!)
      M := M.set! i rowi
      r := r.set! i (r[i]! - f * r[c]!)
  let mut x : Array Float := Array.replicate n 0.0
  for c' in [0:n] do
    let c := n - 1 - c'
    let mut s := r[c]!
    for j in [c+1:n] do
      s := s - M[c]![j]! * x[j]!
    x := x.set! c (s / M[c]![c]!)
  return x

def argsortF (v : Vec Float) : Array Nat := Id.run do
  let mut idx : Array Nat := Array.range v.size
  for i in [1:v.size] do
    let mut j := i
    while j > 0 && v[idx[j-1]!]! > v[idx[j]!]! do
      let t := idx[j]!
      idx := idx.set! j idx[j-1]!
      idx := idx.set! (j-1) t
      j := j - 1
  return idx

/-- cyclic Jacobi; eigenvalues ascending, eigenvectors as columns (the convention of `eigh`) -/
def jacobi (A0 : Mat Float) : Eig Float := Id.run do
  let n := A0.size
  let mut A := A0
  let mut V : Mat Float := Array.ofFn (n := n) fun i => Array.ofFn (n := n) fun j => if i.val = j.val then 1.0 else 0.0
  for _ in [0:100] do
    let mut off := 0.0
    let mut dia := 0.0
    for p in [0:n] do
      dia := dia + A[p]![p]! * A[p]![p]!
      for q in [p+1:n] do
        off := off + A[p]![q]! * A[p]![q]!
    if off <= 1e-40 * dia || off == 0.0 then break
    for p in [0:n] do
      for q in [p+1:n] do
        let apq := A[p]![q]!
        if apq != 0.0 then
          let theta := (A[q]![q]! - A[p]![p]!) / (2.0 * apq)
          let t := (if theta >= 0.0 then 1.0 else -1.0) / (theta.abs + Float.sqrt (theta * theta + 1.0))
          let c := 1.0 / Float.sqrt (t * t + 1.0)
          let s := t * c
          for k in [0:n] do
            let akp := A[k]![p]!
            let akq := A[k]![q]!
            A := A.modify k fun row => (row.set! p (c * akp - s * akq)).set! q (s * akp + c * akq)
          let rp := A[p]!
          let rq := A[q]!
          A := A.set! p (Array.ofFn (n := n) fun k => c * rp[k.val]! - s * rq[k.val]!)
          A := A.set! q (Array.ofFn (n := n) fun k => s * rp[k.val]! + c * rq[k.val]!)
          for k in [0:n] do
            let vkp := V[k]![p]!
            let vkq := V[k]![q]!
            V := V.modify k fun row => (row.set! p (c * vkp - s * vkq)).set! q (s * vkp + c * vkq)
  let ev : Vec Float := Array.ofFn (n := n) fun i => A[i.val]![i.val]!
  let idx := argsortF ev
  return { evals := Array.ofFn (n := n) fun j => ev[idx[j.val]!]!,
           evecs := Array.ofFn (n := n) fun i => Array.ofFn (n := n) fun j => V[i.val]![idx[j.val]!]! }

/-- SVD of a symmetric positive semi-definite matrix: singular values descending, `uu = vvᵀ` -/
def svdSym (A : Mat Float) : Svd Float :=
  let e := jacobi A
  let n := A.size
  { uu := Array.ofFn (n := n) fun i => Array.ofFn (n := n) fun j => e.evecs[i.val]![n - 1 - j.val]!,
    ww := Array.ofFn (n := n) fun j => e.evals[n - 1 - j.val]!,
    vv := Array.ofFn (n := n) fun i => Array.ofFn (n := n) fun j => e.evecs[j.val]![n - 1 - i.val]! }

/-! JSON helpers -/
def vecJ (v : Vec Float) : Json := J.ofArray J.ofFloat v
def matJ (m : Mat Float) : Json := J.ofArray vecJ m
def fVec (j : Json) (k : String) : Except String (Vec Float) := J.fFloats j k
def fMat (j : Json) (k : String) : Except String (Mat Float) := do J.array (J.array J.float) (← J.fld j k)
def fn1 (v : Vec Float) : Nat → Float := fun i => v[i]!
def fn2 (m : Mat Float) : Nat → Nat → Float := fun i j => (m[i]!)[j]!

def handle (j : Json) : Except String Json := do
  let op ← J.fStr j "op"
  match op with
  | "chi2" =>
    let n ← J.fNat j "n"
    let m ← J.fNat j "m"
    let b ← fVec j "b"
    let sq ← fVec j "sq"
    let A ← fMat j "A"
    let r := computechi2 svdSym n m (fn1 b) (fn1 sq) (fn2 A)
    pure (Json.mkObj [("acoeff", vecJ r.acoeff), ("chi2", J.ofFloat r.chi2), ("yfit", vecJ r.yfit),
      ("dof", J.ofInt r.dof), ("covar", matJ r.covar), ("var", vecJ r.var), ("mmi", matJ r.mmi)])
  | "pcomp" =>
    let no ← J.fNat j "no"
    let nv ← J.fNat j "nv"
    let x ← fMat j "x"
    let st ← J.fBool j "standardize"
    let cv ← J.fBool j "covariance"
    let r := pcomp Float.sqrt jacobi argsortF no nv (fn2 x) st cv
    pure (Json.mkObj [("coefficients", matJ r.coefficients), ("derived", matJ r.derived),
      ("variance", vecJ r.variance), ("eigenvalues", vecJ r.evals), ("c", matJ r.c)])
  | "hmf_step" =>
    let N ← J.fNat j "N"
    let M ← J.fNat j "M"
    let K ← J.fNat j "K"
    let s ← fMat j "s"
    let w ← fMat j "w"
    let a ← fMat j "a"
    let g ← fMat j "g"
    let eps ← J.fOpt J.float j "eps"
    let (ra, rg) := reorder jacobi N M K (fn2 a) (fn2 g)
    pure (Json.mkObj [
      ("astep", matJ (astep solveGE N M K (fn2 s) (fn2 w) (fn2 g))),
      ("gstep", matJ (gstep solveGE N M K (fn2 s) (fn2 w) (fn2 a) (fn2 g) eps)),
      ("astepnn", matJ (astepnn N M K (fn2 s) (fn2 w) (fn2 a) (fn2 g))),
      ("gstepnn", matJ (gstepnn N M K (fn2 s) (fn2 w) (fn2 a) (fn2 g) eps)),
      ("normbase", vecJ (normbase Float.sqrt K M (fn2 g))),
      ("reorder_a", matJ ra), ("reorder_g", matJ rg),
      ("badness", J.ofFloat (badness Float.sqrt N M K (fn2 s) (fn2 w) (fn2 a) (fn2 g) eps))])
  | "hmf_iter" =>
    let N ← J.fNat j "N"
    let M ← J.fNat j "M"
    let K ← J.fNat j "K"
    let nIter ← J.fNat j "n_iter"
    let s ← fMat j "s"
    let w ← fMat j "w"
    let g0 ← fMat j "g0"
    let nn ← J.fBool j "nonneg"
    let eps ← J.fOpt J.float j "eps"
    let (a, g) := iterate Float.sqrt solveGE jacobi N M K nIter 128 (fn2 s) (fn2 w) (fn2 g0) nn eps
    pure (Json.mkObj [("a", matJ a), ("g", matJ g)])
  | "pca" =>
    let nobj ← J.fNat j "nobj"
    let npix ← J.fNat j "npix"
    let niter ← J.fNat j "niter"
    let nkeep ← J.fNat j "nkeep"
    let flux ← fMat j "flux"
    let ivar ← fMat j "ivar"
    match pcaSolve Float.sqrt svdSym jacobi argsortF nobj npix niter nkeep (fn2 flux) (fn2 ivar) with
    | .error e => pure (Json.mkObj [("err", Json.str e)])
    | .ok r => pure (Json.mkObj [("usemask", J.ofArray J.ofNat r.usemask), ("pres", matJ r.pres),
        ("eigenval", vecJ r.eigenval), ("acoeff", matJ r.acoeff), ("filtflux", matJ r.filtflux)])
  | "chi2v" =>
    let n ← J.fNat j "n"
    let b ← fVec j "b"
    let sq ← fVec j "sq"
    let a ← fVec j "a"
    let r := computechi2Vec svdSym n (fn1 b) (fn1 sq) (fn1 a)
    pure (Json.mkObj [("acoeff", vecJ r.acoeff), ("chi2", J.ofFloat r.chi2), ("yfit", vecJ r.yfit),
      ("dof", J.ofInt r.dof), ("covar", matJ r.covar), ("var", vecJ r.var)])
  | "hmf_zerocols" =>
    -- only the column selection of `iterate` (the k-means start is not known before the columns are)
    let N ← J.fNat j "N"
    let M ← J.fNat j "M"
    let s ← fMat j "s"
    let w ← fMat j "w"
    let nn ← J.fBool j "nonneg"
    let sc : Nat → Nat → Float := fun i k => if nn then (if fn2 s i k < 0 then 0 else fn2 s i k) else fn2 s i k
    match findContiguous M (fun k => !(zeroCol N sc (fn2 w) k)) with
    | none => pure (Json.mkObj [("err", Json.str "ValueError")])
    | some (c0, m') => pure (Json.mkObj [("col0", J.ofNat c0), ("ncol", J.ofNat m'),
        ("nzero", J.ofNat (countN M (zeroCol N sc (fn2 w))))])
  | "contig" =>
    -- `find_contiguous(x)` alone: `good[k]` is the truth value of `x[k]`
    let good ← J.array J.bool (← J.fld j "good")
    match findContiguous good.size (fun k => good[k]!) with
    | none => pure (Json.mkObj [("err", Json.str "ValueError")])
    | some (c0, m') => pure (Json.mkObj [("col0", J.ofNat c0), ("ncol", J.ofNat m'),
        ("runs", J.ofArray (fun (r : Nat × Nat) => Json.arr #[J.ofNat r.1, J.ofNat r.2]) (runsOf good.size (fun k => good[k]!)).toArray)])
  | "hmf_cols" =>
    let N ← J.fNat j "N"
    let M ← J.fNat j "M"
    let K ← J.fNat j "K"
    let nIter ← J.fNat j "n_iter"
    let s ← fMat j "s"
    let w ← fMat j "w"
    let g0 ← fMat j "g0"
    let nn ← J.fBool j "nonneg"
    let eps ← J.fOpt J.float j "eps"
    match iterateCols Float.sqrt solveGE jacobi N M K nIter 128 (fn2 s) (fn2 w) (fn2 g0) nn eps with
    | .error e => pure (Json.mkObj [("err", Json.str e)])
    | .ok r => pure (Json.mkObj [("a", matJ r.a), ("g", matJ r.g), ("col0", J.ofNat r.col0), ("ncol", J.ofNat r.ncol),
        ("nzero", J.ofNat r.nzero)])
  | "pca_vec" =>
    let npix ← J.fNat j "npix"
    let ivarDim ← J.fNat j "ivar_dim"
    let flux ← fVec j "flux"
    let ivar ← fMat j "ivar"
    match pcaSolveVec npix ivarDim (fn1 flux) (fn2 ivar) with
    | .error e => pure (Json.mkObj [("err", Json.str e)])
    | .ok (.single f) => pure (Json.mkObj [("single", vecJ f)])
    | .ok (.full _) => pure (Json.mkObj [("err", Json.str "unreachable")])
  | "hmf_cols_kg" =>
    let N ← J.fNat j "N"
    let M ← J.fNat j "M"
    let K ← J.fNat j "K"
    let Kg ← J.fNat j "Kg"
    let nIter ← J.fNat j "n_iter"
    let s ← fMat j "s"
    let w ← fMat j "w"
    let g0 ← fMat j "g0"
    let nn ← J.fBool j "nonneg"
    let eps ← J.fOpt J.float j "eps"
    match iterateColsKg Float.sqrt solveGE jacobi N M K Kg nIter 128 (fn2 s) (fn2 w) (fn2 g0) nn eps with
    | .error e => pure (Json.mkObj [("err", Json.str e)])
    | .ok r => pure (Json.mkObj [("a", matJ r.a), ("g", matJ r.g), ("col0", J.ofNat r.col0), ("ncol", J.ofNat r.ncol),
        ("nzero", J.ofNat r.nzero)])
  | "pca_max" =>
    let nobj ← J.fNat j "nobj"
    let npix ← J.fNat j "npix"
    let niter ← J.fNat j "niter"
    let nkeep ← J.fNat j "nkeep"
    let maxiter ← J.fNat j "maxiter"
    let flux ← fMat j "flux"
    let ivar ← fMat j "ivar"
    match pcaSolveMax Float.sqrt svdSym jacobi argsortF nobj npix niter nkeep maxiter (fn2 flux) (fn2 ivar) with
    | .error e => pure (Json.mkObj [("err", Json.str e)])
    | .ok (.single f) => pure (Json.mkObj [("single", vecJ f)])
    | .ok (.full r) => pure (Json.mkObj [("usemask", J.ofArray J.ofNat r.usemask), ("pres", matJ r.pres),
        ("outmask", J.ofArray (J.ofArray (fun (b : Bool) => Json.bool b)) r.outmask),
        ("eigenval", vecJ r.eigenval), ("acoeff", matJ r.acoeff), ("filtflux", matJ r.filtflux),
        ("passes", J.ofNat r.passes), ("ngood", J.ofNat r.ngood)])
  | _ => throw s!"C15: unknown op {op}"

end PydlVerif.Driver.C15

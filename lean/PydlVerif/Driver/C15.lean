import PydlVerif.Model.JsonUtil
open Lean
namespace PydlVerif.Driver.C15

def handle (_j : Json) : Except String Json := throw "C15: no model operations yet"

end PydlVerif.Driver.C15

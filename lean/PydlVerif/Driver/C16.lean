import PydlVerif.Model.JsonUtil
open Lean
namespace PydlVerif.Driver.C16

def handle (_j : Json) : Except String Json := throw "C16: no model operations yet"

end PydlVerif.Driver.C16

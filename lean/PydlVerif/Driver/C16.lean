import PydlVerif.Model.JsonUtil
import PydlVerif.Model.SpecOrder
import PydlVerif.Model.SpecFiles
open Lean
namespace PydlVerif.Driver.C16
open PydlVerif PydlVerif.SpecOrder

/-- image cells cross as small integers (exactly representable), wavelengths as bit patterns -/
def imgJ (s : Img Float) : Json :=
  Json.mkObj [("npix", J.ofNat s.npix), ("rows", J.ofList (J.ofList J.ofFloat) s.rows)]

def intImg (j : Json) : Except String (Img Int) := do
  let npix ← J.fNat j "npix"
  let rows ← J.list (J.list J.int) (← J.fld j "rows")
  pure ⟨npix, rows⟩

def intImgJ (s : Img Int) : Json :=
  Json.mkObj [("npix", J.ofNat s.npix), ("rows", J.ofList (J.ofList J.ofInt) s.rows)]

abbrev Row := List Int

def tableOf (rows : List Row) : Nat → Row := fun r => rows.getD r []

structure FileJ where
  plate : Nat
  mjd : Nat
  file : PlateFile Float Row

def fileOfJson (j : Json) : Except String FileJ := do
  let plate ← J.fNat j "plate"
  let mjd ← J.fNat j "mjd"
  let npix ← J.fNat j "npix"
  let nfib ← J.fNat j "nfib"
  let c0 ← J.fFloat j "c0"
  let c1 ← J.fFloat j "c1"
  -- img: list indexed by HDU number 0..6 (entry 5 is an empty list), each a list of rows of ints
  let imgs ← J.list (J.list (J.list J.int)) (← J.fld j "img")
  let plug ← J.list (J.list J.int) (← J.fld j "plug")
  let zans ← J.fOpt (J.list (J.list J.int)) j "zans"
  let tsobj ← J.fOpt (J.list (J.list J.int)) j "tsobj"
  let img : Nat → Nat → List Float := fun h r => (((imgs.getD h []).getD r []).map Float.ofInt)
  pure ⟨plate, mjd, ⟨npix, nfib, c0, c1, img, tableOf plug, zans.map tableOf, tsobj.map tableOf⟩⟩

/-- spZall of a file: `{"nper": DIMS0, "rows": [...]}` or null -/
def zallOfJson (j : Json) : Except String (Nat × Nat × Option (ZAll Row)) := do
  let plate ← J.fNat j "plate"
  let mjd ← J.fNat j "mjd"
  let z ← J.fOpt (fun z => do
    let nper ← J.fNat z "nper"
    let rows ← J.list (J.list J.int) (← J.fld z "rows")
    pure (⟨nper, rows.length, tableOf rows⟩ : ZAll Row)) j "zall"
  pure (plate, mjd, z)

def zsurveyOf (zs : List (Nat × Nat × Option (ZAll Row))) : ZSurvey Row := fun p m =>
  ((zs.find? (fun f => f.1 == p && f.2.1 == m)).map (·.2.2)).join

def plateListRow (j : Json) : Except String PlateListRow := do
  pure ⟨← J.fNat j "plate", ← J.fNat j "mjd", ← J.fStr j "run2d", ← J.fStr j "run1d", ← J.fNat j "ntotal"⟩

def surveyOf (fs : List FileJ) : Survey Float Row := fun p m =>
  (fs.find? (fun f => f.plate == p && f.mjd == m)).map (·.file)

def argOf {β} (f : Json → Except String β) (j : Json) : Except String (Arg β) :=
  match j with
  | Json.arr a => do pure (Arg.vec (← a.toList.mapM f))
  | _ => do pure (Arg.scalar (← f j))

def resultJ (r : Except String (Result Float Row)) : Json :=
  match r with
  | .error e => Json.mkObj [("err", Json.str e)]
  | .ok r =>
    let tab (t : Option (List Row)) : Json := match t with
      | none => Json.null
      | some rows => J.ofList (J.ofList J.ofInt) rows
    Json.mkObj [("ok", Json.mkObj [("imgs", J.ofList imgJ r.imgs), ("plug", J.ofList (J.ofList J.ofInt) r.plug),
      ("zans", tab r.zans), ("tsobj", tab r.tsobj)])]

def handle (j : Json) : Except String Json := do
  let op ← J.fStr j "op"
  match op with
  | "append" =>
    let s1 ← intImg (← J.fld j "s1")
    let s2 ← intImg (← J.fld j "s2")
    let ps ← J.fInt j "pixshift"
    pure (intImgJ (specAppend (0 : Int) s1 s2 ps))
  | "readspec" =>
    let fs ← J.list fileOfJson (← J.fld j "tree")
    let S := surveyOf fs
    let files := fs.map (fun f => (f.plate, f.mjd))
    let reqs ← J.arr (← J.fld j "reqs")
    let out ← reqs.toList.mapM (fun q => do
      let platein ← argOf J.nat (← J.fld q "plate")
      let mjd ← J.fOpt (argOf J.nat) q "mjd"
      let fiber ← argOf J.int (← J.fld q "fiber")
      pure (resultJ (readspec argsortImpl S files platein mjd fiber)))
    pure (Json.arr out.toArray)
  | "readspecx" =>
    -- readspec with znum= / fiber=None: tree files may carry "zall", the tree a "platelist"
    let tj ← J.fld j "tree"
    let fs ← J.list fileOfJson tj
    let zs ← J.list zallOfJson tj
    let S := surveyOf fs
    let Z := zsurveyOf zs
    let files := fs.map (fun f => (f.plate, f.mjd))
    let platelist ← J.fOpt (J.list plateListRow) j "platelist"
    let run2d ← J.fStr j "run2d"
    let run1d ← J.fStr j "run1d"
    let reqs ← J.arr (← J.fld j "reqs")
    let out ← reqs.toList.mapM (fun q => do
      let platein ← argOf J.nat (← J.fld q "plate")
      let mjd ← J.fOpt (argOf J.nat) q "mjd"
      let fiber ← J.fOpt (argOf J.int) q "fiber"
      let znum ← J.fOpt J.int q "znum"
      pure (resultJ (readspecX argsortImpl S Z files platelist run2d run1d platein mjd fiber znum)))
    pure (Json.arr out.toArray)
  | "latest" =>
    let files ← J.list (fun p => do
      match ← J.list J.nat p with
      | [a, b] => pure (a, b)
      | _ => throw "pair expected") (← J.fld j "files")
    let plates ← J.fNats j "plates"
    pure (J.ofList J.ofNat (plates.map (latestMjd files)))
  | "fsnames" =>
    -- spec_path / file names: {"path": str|null, "topdir": str, "run2d": str, "pairs": [[plate, mjd], ...]}
    let path ← J.fOpt J.str j "path"
    let topdir ← J.fStr j "topdir"
    let run2d ← J.fStr j "run2d"
    let pairs ← J.list (J.list J.nat) (← J.fld j "pairs")
    let plates := pairs.map (fun pr => pr.getD 0 0)
    let dirs := specPath (path.map String.toList) topdir.toList run2d.toList plates
    let files := (pairs.zip dirs).map (fun (pr, d) => specFile d (pr.getD 0 0) (pr.getD 1 0))
    let names := pairs.map (fun pr => specFileName (pr.getD 0 0) (pr.getD 1 0))
    pure (Json.mkObj [("dirs", J.ofList (fun d => Json.str (String.ofList d)) dirs),
      ("files", J.ofList (fun d => Json.str (String.ofList d)) files),
      ("names", J.ofList (fun d => Json.str (String.ofList d)) names)])
  | "latestfs" =>
    -- latest_mjd over directory listings: {"path","topdir","run2d","dirs": [[dir, [names]], ...], "plates": [...]}
    let path ← J.fOpt J.str j "path"
    let topdir ← J.fStr j "topdir"
    let run2d ← J.fStr j "run2d"
    let dirs ← J.list (fun d => do
      match ← J.arr d with
      | #[a, b] => pure ((← J.str a).toList, (← J.list J.str b).map String.toList)
      | _ => throw "pair expected") (← J.fld j "dirs")
    let ls : List Char → List (List Char) := fun d => ((dirs.find? (fun x => x.1 == d)).map (·.2)).getD []
    let plates ← J.fNats j "plates"
    match latestMjdVec ls (path.map String.toList) topdir.toList run2d.toList plates with
    | .ok l => pure (J.ofList J.ofNat l)
    | .error e => pure (Json.mkObj [("err", Json.str e)])
  | "globmatch" =>
    -- which names of a listing does the glob of `plate` pick: {"plate", "names"}
    let plate ← J.fNat j "plate"
    let names ← J.list J.str (← J.fld j "names")
    pure (J.ofList (fun n => Json.str n) (names.filter (fun n => globMatch plate n.toList)))
  | "readspecfs" =>
    -- readspec(path=dir) on a directory listing: tree files carry "name" (the file name on disk), "listing" = os.listdir
    let fs ← J.list fileOfJson (← J.fld j "tree")
    let names ← J.list (fun f => J.fStr f "name") (← J.fld j "tree")
    let dir ← J.fStr j "dir"
    let listing := (← J.list J.str (← J.fld j "listing")).map String.toList
    let table := (names.map String.toList).zip fs
    let dflt : PlateFile Float Row := ⟨0, 0, 0, 0, fun _ _ => [], fun _ => [], none, none⟩
    let content : List Char → PlateFile Float Row := fun n => ((table.find? (fun x => x.1 == n)).map (·.2.file)).getD dflt
    let reqs ← J.arr (← J.fld j "reqs")
    let out ← reqs.toList.mapM (fun q => do
      let platein ← argOf J.nat (← J.fld q "plate")
      let mjd ← J.fOpt (argOf J.nat) q "mjd"
      let fiber ← argOf J.int (← J.fld q "fiber")
      pure (resultJ (readspecFS argsortImpl dir.toList listing content platein mjd fiber)))
    pure (Json.arr out.toArray)
  | _ => throw s!"C16: unknown op {op}"

end PydlVerif.Driver.C16

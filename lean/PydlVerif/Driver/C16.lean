import PydlVerif.Model.JsonUtil
import PydlVerif.Model.SpecOrder
open Lean
namespace PydlVerif.Driver.C16
open PydlVerif PydlVerif.SpecOrder

/-- image cells cross as small integers (exactly representable), wavelengths as bit patterns -/
def imgJ (s : Img Float) : Json :=
  Json.mkObj [("npix", J.ofNat s.npix), ("rows", J.ofList (J.ofList J.ofFloat) s.rows)]

def intImg (j : Json) : Except String (Img Int) := do
  let npix ← J.fNat j "npix"
  let rows ← J.list (J.list J.int) (← J.fld j "rows")
  pure ⟨npix, rows⟩

def intImgJ (s : Img Int) : Json :=
  Json.mkObj [("npix", J.ofNat s.npix), ("rows", J.ofList (J.ofList J.ofInt) s.rows)]

abbrev Row := List Int

def tableOf (rows : List Row) : Nat → Row := fun r => rows.getD r []

structure FileJ where
  plate : Nat
  mjd : Nat
  file : PlateFile Float Row

def fileOfJson (j : Json) : Except String FileJ := do
  let plate ← J.fNat j "plate"
  let mjd ← J.fNat j "mjd"
  let npix ← J.fNat j "npix"
  let nfib ← J.fNat j "nfib"
  let c0 ← J.fFloat j "c0"
  let c1 ← J.fFloat j "c1"
  -- img: list indexed by HDU number 0..6 (entry 5 is an empty list), each a list of rows of ints
  let imgs ← J.list (J.list (J.list J.int)) (← J.fld j "img")
  let plug ← J.list (J.list J.int) (← J.fld j "plug")
  let zans ← J.fOpt (J.list (J.list J.int)) j "zans"
  let tsobj ← J.fOpt (J.list (J.list J.int)) j "tsobj"
  let img : Nat → Nat → List Float := fun h r => (((imgs.getD h []).getD r []).map Float.ofInt)
  pure ⟨plate, mjd, ⟨npix, nfib, c0, c1, img, tableOf plug, zans.map tableOf, tsobj.map tableOf⟩⟩

/-- spZall of a file: `{"nper": DIMS0, "rows": [...]}` or null -/
def zallOfJson (j : Json) : Except String (Nat × Nat × Option (ZAll Row)) := do
  let plate ← J.fNat j "plate"
  let mjd ← J.fNat j "mjd"
  let z ← J.fOpt (fun z => do
    let nper ← J.fNat z "nper"
    let rows ← J.list (J.list J.int) (← J.fld z "rows")
    pure (⟨nper, rows.length, tableOf rows⟩ : ZAll Row)) j "zall"
  pure (plate, mjd, z)

def zsurveyOf (zs : List (Nat × Nat × Option (ZAll Row))) : ZSurvey Row := fun p m =>
  ((zs.find? (fun f => f.1 == p && f.2.1 == m)).map (·.2.2)).join

def plateListRow (j : Json) : Except String PlateListRow := do
  pure ⟨← J.fNat j "plate", ← J.fNat j "mjd", ← J.fStr j "run2d", ← J.fStr j "run1d", ← J.fNat j "ntotal"⟩

def surveyOf (fs : List FileJ) : Survey Float Row := fun p m =>
  (fs.find? (fun f => f.plate == p && f.mjd == m)).map (·.file)

def argOf {β} (f : Json → Except String β) (j : Json) : Except String (Arg β) :=
  match j with
  | Json.arr a => do pure (Arg.vec (← a.toList.mapM f))
  | _ => do pure (Arg.scalar (← f j))

def resultJ (r : Except String (Result Float Row)) : Json :=
  match r with
  | .error e => Json.mkObj [("err", Json.str e)]
  | .ok r =>
    let tab (t : Option (List Row)) : Json := match t with
      | none => Json.null
      | some rows => J.ofList (J.ofList J.ofInt) rows
    Json.mkObj [("ok", Json.mkObj [("imgs", J.ofList imgJ r.imgs), ("plug", J.ofList (J.ofList J.ofInt) r.plug),
      ("zans", tab r.zans), ("tsobj", tab r.tsobj)])]

def handle (j : Json) : Except String Json := do
  let op ← J.fStr j "op"
  match op with
  | "append" =>
    let s1 ← intImg (← J.fld j "s1")
    let s2 ← intImg (← J.fld j "s2")
    let ps ← J.fInt j "pixshift"
    pure (intImgJ (specAppend (0 : Int) s1 s2 ps))
  | "readspec" =>
    let fs ← J.list fileOfJson (← J.fld j "tree")
    let S := surveyOf fs
    let files := fs.map (fun f => (f.plate, f.mjd))
    let reqs ← J.arr (← J.fld j "reqs")
    let out ← reqs.toList.mapM (fun q => do
      let platein ← argOf J.nat (← J.fld q "plate")
      let mjd ← J.fOpt (argOf J.nat) q "mjd"
      let fiber ← argOf J.int (← J.fld q "fiber")
      pure (resultJ (readspec argsortImpl S files platein mjd fiber)))
    pure (Json.arr out.toArray)
  | "readspecx" =>
    -- readspec with znum= / fiber=None: tree files may carry "zall", the tree a "platelist"
    let tj ← J.fld j "tree"
    let fs ← J.list fileOfJson tj
    let zs ← J.list zallOfJson tj
    let S := surveyOf fs
    let Z := zsurveyOf zs
    let files := fs.map (fun f => (f.plate, f.mjd))
    let platelist ← J.fOpt (J.list plateListRow) j "platelist"
    let run2d ← J.fStr j "run2d"
    let run1d ← J.fStr j "run1d"
    let reqs ← J.arr (← J.fld j "reqs")
    let out ← reqs.toList.mapM (fun q => do
      let platein ← argOf J.nat (← J.fld q "plate")
      let mjd ← J.fOpt (argOf J.nat) q "mjd"
      let fiber ← J.fOpt (argOf J.int) q "fiber"
      let znum ← J.fOpt J.int q "znum"
      pure (resultJ (readspecX argsortImpl S Z files platelist run2d run1d platein mjd fiber znum)))
    pure (Json.arr out.toArray)
  | "latest" =>
    let files ← J.list (fun p => do
      match ← J.list J.nat p with
      | [a, b] => pure (a, b)
      | _ => throw "pair expected") (← J.fld j "files")
    let plates ← J.fNats j "plates"
    pure (J.ofList J.ofNat (plates.map (latestMjd files)))
  | _ => throw s!"C16: unknown op {op}"

end PydlVerif.Driver.C16

import PydlVerif.Model.JsonUtil
open Lean
namespace PydlVerif.Driver.C17

def handle (_j : Json) : Except String Json := throw "C17: no model operations yet"

end PydlVerif.Driver.C17

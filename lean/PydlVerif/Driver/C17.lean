import PydlVerif.Model.JsonUtil
import PydlVerif.Model.Interp
import PydlVerif.Model.Reject
open Lean
namespace PydlVerif.Driver.C17
open PydlVerif PydlVerif.Interp PydlVerif.Reject

def resJ {α} (f : α → Json) : Except String α → Json
  | .ok v => Json.mkObj [("ok", f v)]
  | .error e => Json.mkObj [("err", Json.str e)]

def floats (j : Json) (k : String) : Except String (List Float) := do J.list J.float (← J.fld j k)
def bools (j : Json) : Except String (List Bool) := do
  let l ← J.list J.nat j
  pure (l.map (· != 0))
def ofBools (l : List Bool) : Json := J.ofList (fun b => J.ofNat (if b then 1 else 0)) l
def ofFloats (l : List Float) : Json := J.ofList J.ofFloat l

def method (s : String) : Method :=
  match s with
  | "traditional" => .traditional
  | "noconst" => .noconst
  | "mean" => .mean
  | "nothing" => .nothing
  | "damp" => .damp
  | _ => .unknown

def boundary (s : String) : Boundary :=
  match s with
  | "none" => .none
  | "reflect" => .reflect
  | "nearest" => .nearest
  | "wrap" => .wrap
  | _ => .other

def pyArg (j : Json) : Except String PyArg :=
  match j with
  | Json.arr _ => do pure (.seq (← J.list J.int j))
  | _ => do pure (.scalar (← J.int j))

def handle (j : Json) : Except String Json := do
  let op ← J.fStr j "op"
  match op with
  | "interp" =>
    let xp ← floats j "xp"
    let fp ← floats j "fp"
    let xs ← floats j "x"
    pure (resJ ofFloats (xs.mapM (npInterpE (xp.zip fp))))
  | "mi1" =>
    let y ← floats j "y"
    let bad ← bools (← J.fld j "bad")
    let x ← J.fOpt (J.list J.float) j "x"
    let const ← J.fBool j "const"
    match x with
    | none => pure (ofFloats (maskinterp1 y bad const))
    | some xv => pure (ofFloats (maskinterp1X y bad xv (argsortIns xv) const))
  | "mi" =>
    let yshape ← J.fNats j "yshape"
    let mshape ← J.fNats j "mshape"
    let xshape ← J.fOpt (J.list J.nat) j "xshape"
    let y ← floats j "y"
    let bad ← bools (← J.fld j "bad")
    let x ← floats j "x"
    let axis ← J.fOpt J.int j "axis"
    let const ← J.fBool j "const"
    pure (resJ ofFloats (maskinterp argsortIns yshape mshape xshape y bad x axis const))
  | "aes" =>
    let flux ← floats j "flux"
    let invvar ← floats j "invvar"
    let m ← J.fStr j "method"
    let mean ← J.fFloat j "mean"
    pure (resJ ofFloats (aesthetics flux invvar (method m) mean))
  | "med" =>
    let a ← floats j "a"
    let w ← J.fNat j "w"
    pure (resJ ofFloats (djsMedianReflect medOdd a w))
  | "rej" =>
    let data ← floats j "data"
    let model ← J.fOpt (J.list J.float) j "model"
    let outmask ← J.fOpt bools j "outmask"
    let inmask ← J.fOpt bools j "inmask"
    let s ← floats j "s"
    let o : Opts Float := {
      useSigma := ← J.fBool j "useSigma"
      lower := ← J.fOpt J.float j "lower"
      upper := ← J.fOpt J.float j "upper"
      maxdev := ← J.fOpt J.float j "maxdev"
      hasIn := inmask.isSome
      sticky := ← J.fBool j "sticky"
      grow := ← J.fNat j "grow" }
    pure (resJ (fun (r : List Bool × Bool) => Json.arr #[ofBools r.1, Json.bool r.2])
      (djsReject Float.sqrt o data model outmask inmask s))
  | "sky" =>
    let inv ← J.list (J.list J.float) (← J.fld j "invvar")
    let om ← J.fOpt (J.list (J.list J.int)) j "ormask"
    let ngrow ← J.fNat j "ngrow"
    let rows := match om with
      | none => inv.map (fun r => skymaskRow r none ngrow)
      | some oms => List.zipWith (fun r o => skymaskRow r (some o) ngrow) inv oms
    pure (J.ofList ofFloats rows)
  | "rejf" =>
    let data ← floats j "data"
    let shape ← J.fNats j "shape"
    let model ← J.fOpt (J.list J.float) j "model"
    let outmask ← J.fOpt bools j "outmask"
    let inmask ← J.fOpt bools j "inmask"
    let s ← floats j "s"
    let o : Opts Float := {
      useSigma := ← J.fBool j "useSigma"
      lower := ← J.fOpt J.float j "lower"
      upper := ← J.fOpt J.float j "upper"
      maxdev := ← J.fOpt J.float j "maxdev"
      hasIn := inmask.isSome
      sticky := ← J.fBool j "sticky"
      grow := ← J.fNat j "grow" }
    let g : GroupOpts := { groupdim := ← J.fOpt (J.list J.nat) j "groupdim",
                           groupsize := ← J.fOpt (J.list J.nat) j "groupsize",
                           groupbadpix := ← J.fBool j "groupbadpix" }
    pure (resJ (fun (r : List Bool × Bool) => Json.arr #[ofBools r.1, Json.bool r.2])
      (djsRejectFull Float.sqrt o g shape data model outmask inmask s))
  | "skyi" =>
    let shape ← J.fNats j "shape"
    let inv ← floats j "invvar"
    let om ← J.fOpt (J.list J.int) j "ormask"
    let ngrow ← J.fInt j "ngrow"
    let nrows := shape.getD 0 0
    let npix := shape.getD 1 0
    let rows {β : Type} (l : List β) : List (List β) := (List.range nrows).map fun r => (l.drop (r * npix)).take npix
    pure (resJ (fun (r : List (List Float)) => ofFloats r.flatten) (skymaskImage shape (rows inv) (om.map rows) ngrow))
  | "rejm" =>
    let data ← floats j "data"
    let shape ← J.fNats j "shape"
    let model ← J.fOpt (J.list J.float) j "model"
    let outmask ← J.fOpt bools j "outmask"
    let inmask ← J.fOpt bools j "inmask"
    let s ← floats j "s"
    let o : Opts Float := {
      useSigma := ← J.fBool j "useSigma"
      lower := ← J.fOpt J.float j "lower"
      upper := ← J.fOpt J.float j "upper"
      maxdev := ← J.fOpt J.float j "maxdev"
      hasIn := inmask.isSome
      sticky := ← J.fBool j "sticky"
      grow := ← J.fNat j "grow" }
    let g : MaxrejOpts := { maxrej := ← pyArg (← J.fld j "maxrej"),
                            groupdim := ← J.fOpt pyArg j "groupdim",
                            groupsize := ← J.fOpt pyArg j "groupsize",
                            groupbadpix := ← J.fBool j "groupbadpix" }
    pure (resJ (fun (r : List Bool × Bool) => Json.arr #[ofBools r.1, Json.bool r.2])
      (djsRejectMaxrej Float.sqrt (maxrejBody g) o g shape data model outmask inmask s))
  | "med2" =>
    let a ← floats j "a"
    let n0 ← J.fNat j "n0"
    let n1 ← J.fNat j "n1"
    let w ← J.fNat j "w"
    pure (resJ ofFloats (djsMedianReflect2 medOdd n0 n1 a w))
  | "damp" =>
    let flux ← floats j "flux"
    let invvar ← floats j "invvar"
    let ea ← floats j "erfarg"
    let ev ← floats j "erfval"
    let tab := ea.zip ev
    let erf (x : Float) : Float := match tab.find? (fun p => p.1.toBits == x.toBits) with
      | some p => p.2
      | none => 0.0 / 0.0
    pure (resJ ofFloats (aestheticsDamp erf flux invvar))
  | "medb" =>
    let a ← floats j "a"
    let w ← J.fNat j "w"
    let b ← J.fStr j "boundary"
    pure (resJ ofFloats (djsMedian1 medOdd a w (boundary b)))
  | "med2b" =>
    let a ← floats j "a"
    let n0 ← J.fNat j "n0"
    let n1 ← J.fNat j "n1"
    let w ← J.fNat j "w"
    let b ← J.fStr j "boundary"
    pure (resJ ofFloats (djsMedian2 medOdd n0 n1 a w (boundary b)))
  | "aesf" =>
    let flux ← floats j "flux"
    let invvar ← floats j "invvar"
    let m ← J.fStr j "method"
    let mean ← J.fFloat j "mean"
    let ea ← floats j "erfarg"
    let ev ← floats j "erfval"
    let tab := ea.zip ev
    let erf (x : Float) : Float := match tab.find? (fun p => p.1.toBits == x.toBits) with
      | some p => p.2
      | none => 0.0 / 0.0
    pure (resJ ofFloats (aestheticsFull erf flux invvar (method m) mean))
  | _ => throw s!"C17: unknown op {op}"

end PydlVerif.Driver.C17

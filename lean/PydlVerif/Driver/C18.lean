import PydlVerif.Model.JsonUtil
open Lean
namespace PydlVerif.Driver.C18

def handle (_j : Json) : Except String Json := throw "C18: no model operations yet"

end PydlVerif.Driver.C18

import PydlVerif.Model.JsonUtil
import PydlVerif.Model.Geom
open Lean
namespace PydlVerif.Driver.C18
open PydlVerif PydlVerif.Geom

def fl (l : List Float) : Json := J.ofList J.ofFloat l

/-- every op takes `"pts"`: a list of rows of floats (bit patterns) and answers one row per row -/
def handle (j : Json) : Except String Json := do
  let op ← J.fStr j "op"
  let pts ← J.list (J.list J.float) (← J.fld j "pts")
  match op with
  | "gcirc" =>
    let units ← J.fInt j "units"
    let rows ← pts.mapM fun r => match r with
      | [a, b, c, d] => pure (match gcirc units a b c d with
          | .ok v => Json.mkObj [("ok", J.ofFloat v)]
          | .error e => Json.mkObj [("err", Json.str e)])
      | _ => throw "gcirc: rows of 4"
    pure (Json.arr rows.toArray)
  | "r2m" =>
    let rows ← pts.mapM fun r => match r with
      | [s, a, b] => let (m, n) := radecToMunu s a b; pure (fl [m, n])
      | _ => throw "r2m: rows of 3"
    pure (Json.arr rows.toArray)
  | "m2r" =>
    let rows ← pts.mapM fun r => match r with
      | [s, a, b] => let (m, n) := munuToRadec s a b; pure (fl [m, n])
      | _ => throw "m2r: rows of 3"
    pure (Json.arr rows.toArray)
  | "stripe" =>
    let rows ← pts.mapM fun r => match r with
      | [s] => pure (fl [stripeToEta s, stripeToIncl s])
      | _ => throw "stripe: rows of 1"
    pure (Json.arr rows.toArray)
  | "a2x" =>
    let lat ← J.fBool j "lat"
    let rows ← pts.mapM fun r => match r with
      | [p, t] => let (x, y, z) := anglesToX lat p t; pure (fl [x, y, z])
      | _ => throw "a2x: rows of 2"
    pure (Json.arr rows.toArray)
  | "x2a" =>
    let lat ← J.fBool j "lat"
    let rows ← pts.mapM fun r => match r with
      | [x, y, z] => let (p, t) := xToAngles lat (x, y, z); pure (fl [p, t])
      | _ => throw "x2a: rows of 3"
    pure (Json.arr rows.toArray)
  | _ => throw s!"C18: unknown op {op}"

end PydlVerif.Driver.C18

import PydlVerif.Model.JsonUtil
open Lean
namespace PydlVerif.Driver.C19

def handle (_j : Json) : Except String Json := throw "C19: no model operations yet"

end PydlVerif.Driver.C19

import PydlVerif.Model.JsonUtil
import PydlVerif.Model.Wave
import PydlVerif.Model.WaveFit
open Lean
namespace PydlVerif.Driver.C19
open PydlVerif PydlVerif.Wave PydlVerif.WaveFit

/-- the Float instance of the `pow10` parameter: libm `pow(10, x)` -/
def pow10F (x : Float) : Float := Float.pow 10.0 x

def unitOf (j : Json) : Except String (Option (Float × Float)) :=
  J.fOpt (fun u => do
    match ← J.list J.float u with
    | [k, kinv] => pure (k, kinv)
    | _ => throw "unit: need [k, kinv]") j "unit"

def maskOf (j : Json) : Except String (List Bool) := do
  let ns ← J.list J.int j
  pure (ns.map (· != 0))

/-- filter curves: per band `[lam[], respt[]]` -/
def curvesOf (j : Json) : Except String (List (List (Float × Float))) :=
  J.list (fun c => do
    match ← J.list (J.list J.float) c with
    | [xp, fp] => if xp.length = fp.length then pure (List.zip xp fp) else throw "curve: lam and respt differ in length"
    | _ => throw "curve: need [lam, respt]") j

def decJ (d : Dec) : Json :=
  Json.arr #[Json.bool d.neg, J.ofNat d.m, Json.bool d.s, J.ofNat d.e]

def handle (j : Json) : Except String Json := do
  let op ← J.fStr j "op"
  match op with
  | "a2v" => pure (J.ofFloat (airtovac1 (← J.fFloat j "x")))
  | "v2a" => pure (J.ofFloat (vactoair1 (← J.fFloat j "x")))
  | "a2v_arr" =>
    let xs ← J.list J.float (← J.fld j "xs")
    pure (J.ofList J.ofFloat (airtovacArr (← unitOf j) xs))
  | "v2a_arr" =>
    let xs ← J.list J.float (← J.fld j "xs")
    pure (J.ofList J.ofFloat (vactoairArr (← unitOf j) xs))
  | "ab" =>
    let rows ← J.list (J.list J.float) (← J.fld j "rows")
    let mag ← J.fBool j "magnitude"
    let ivar ← J.fBool j "ivar"
    match sdssflux2ab pow10F mag ivar rows with
    | .ok r => pure (Json.mkObj [("ok", J.ofList (J.ofList J.ofFloat) r)])
    | .error e => pure (Json.mkObj [("err", Json.str e)])
  | "interp" =>
    let f ← J.list J.float (← J.fld j "f")
    let m ← maskOf (← J.fld j "m")
    pure (J.ofList J.ofFloat (maskInterp m f))
  | "filter" =>
    -- one trace: flux row, optional mask row, one weight row per band
    let f ← J.list J.float (← J.fld j "f")
    let m ← J.fOpt maskOf j "m"
    let rs ← J.list (J.list J.float) (← J.fld j "rs")
    let f' := match m with
      | none => f
      | some m => maskInterp m f
    pure (J.ofList J.ofFloat (rs.map (fun r => filterMean r f')))
  | "resp" =>
    -- np.interp of a curve (xp, fp) at xs, as filter_thru calls it (no left / right)
    let xp ← J.list J.float (← J.fld j "xp")
    let fp ← J.list J.float (← J.fld j "fp")
    let xs ← J.list J.float (← J.fld j "xs")
    match List.zip xp fp with
    | [] => pure (Json.mkObj [("err", Json.str "ValueError")])
    | (x0, f0) :: rest => pure (Json.mkObj [("ok", J.ofList J.ofFloat (xs.map (npInterp x0 f0 rest)))])
  | "fweights" =>
    -- the weight image: wavelength image, toair, fitted d log10(lambda) image (from the real TraceSet), curves
    -- → per trace: newwave, diffy (libm log10), one weight row per band
    let wave ← J.list (J.list J.float) (← J.fld j "wave")
    let lds ← J.list (J.list J.float) (← J.fld j "lds")
    let toair ← J.fBool j "toair"
    let curves ← curvesOf (← J.fld j "curves")
    let nw := toairImg toair wave
    let rows := (List.zip lds nw).map (fun (ld, w) =>
      let ws := curves.map (fun c => match weightRow ld c w with
        | .ok r => J.ofList J.ofFloat r
        | .error e => Json.str e)
      Json.mkObj [("w", J.ofList J.ofFloat w), ("dy", J.ofList J.ofFloat (logDiffY Float.log10 w)),
                  ("rs", Json.arr ws.toArray)])
    pure (Json.arr rows.toArray)
  | "fthru" =>
    -- filter_thru(flux, waveimg, mask, toair) given the fitted image
    let wave ← J.list (J.list J.float) (← J.fld j "wave")
    let lds ← J.list (J.list J.float) (← J.fld j "lds")
    let flux ← J.list (J.list J.float) (← J.fld j "flux")
    let masks ← J.fOpt (J.list maskOf) j "mask"
    let toair ← J.fBool j "toair"
    let curves ← curvesOf (← J.fld j "curves")
    -- "okpw": the same with numpy's pairwise sums (`filterThruG filterMeanPw`)
    match filterThru toair lds curves wave masks flux, filterThruG filterMeanPw toair lds curves wave masks flux with
    | .ok r, .ok rp => pure (Json.mkObj [("ok", J.ofList (J.ofList J.ofFloat) r), ("okpw", J.ofList (J.ofList J.ofFloat) rp)])
    | .error e, _ => pure (Json.mkObj [("err", Json.str e)])
    | _, .error e => pure (Json.mkObj [("err", Json.str e)])
  | "fthru_e2e" =>
    -- filter_thru(flux, waveimg, mask, toair) end to end: the trace-set fit of d log10(lambda) is computed by the model
    -- (C13 model, Gaussian elimination for the 4x4 normal equations); also returns the fitted image (before np.absolute)
    let wave ← J.list (J.list J.float) (← J.fld j "wave")
    let flux ← J.list (J.list J.float) (← J.fld j "flux")
    let masks ← J.fOpt (J.list maskOf) j "mask"
    let toair ← J.fBool j "toair"
    let curves ← curvesOf (← J.fld j "curves")
    let lds := fittedImg Float.log10 Trace.gaussSolve (flux.headD []).length (toairImg toair wave)
    match lds, filterThruE2E Float.log10 Trace.gaussSolve toair curves wave masks flux with
    | .ok l, .ok r => pure (Json.mkObj [("ok", J.ofList (J.ofList J.ofFloat) r), ("lds", J.ofList (J.ofList J.ofFloat) l)])
    | .error e, _ => pure (Json.mkObj [("err", Json.str e)])
    | _, .error e => pure (Json.mkObj [("err", Json.str e)])
  | "e2e_rat" =>
    -- exact run of the end-to-end model at core `Rat` with `log10 := id` on an exactly affine "log-wavelength" image
    -- (row t = c0 + c1[t]·i): the fitted image must be exactly c1[t] in every pixel (theorem fit_loglinear) and the band
    -- flux exactly Σ resp·f / Σ resp (theorem e2e_loglinear_closed); Gaussian elimination is exact here
    let rl := J.list (fun v => do pure (ratOfBits (← J.bits v)))
    let wave : List (List Rat) ← J.list rl (← J.fld j "wave")
    let flux : List (List Rat) ← J.list rl (← J.fld j "flux")
    let xp : List Rat ← rl (← J.fld j "xp")
    let fp : List Rat ← rl (← J.fld j "fp")
    let c1 : List Rat ← rl (← J.fld j "c1")
    let nx := (flux.headD []).length
    let idR : Rat → Rat := fun x => x
    match List.zip xp fp with
    | [] => pure (Json.mkObj [("err", Json.str "ValueError")])
    | (x0, f0) :: rest =>
      let fitOk : Bool := match fittedImg idR Trace.gaussSolve nx wave with
        | .ok l => decide (l = c1.map (fun c => List.replicate nx c))
        | .error _ => false
      let sums : List (Rat × Rat) := (List.zip wave flux).map (fun (w, f) =>
        let r := w.map (npInterp x0 f0 rest)
        (sumFrom (0 : Rat) (List.zipWith (· * ·) f r), sumFrom (0 : Rat) r))
      let overlap : Bool := sums.all (fun p => decide (0 < p.2))
      let resOk : Bool := match filterThruE2E idR Trace.gaussSolve false [(x0, f0) :: rest] wave none flux with
        | .ok r => decide (r = sums.map (fun p => [p.1 / p.2]))
        | .error _ => false
      pure (Json.mkObj [("fit_ok", Json.bool fitOk), ("res_ok", Json.bool resOk), ("overlap", Json.bool overlap)])
  | "fthru_top" =>
    -- the whole call: filter_prefix ok?, waveimg or wset (func, xmin, xmax, coeff rows) or neither
    let flux ← J.list (J.list J.float) (← J.fld j "flux")
    let masks ← J.fOpt (J.list maskOf) j "mask"
    let toair ← J.fBool j "toair"
    let prefixOk ← J.fBool j "prefix_ok"
    let curves ← curvesOf (← J.fld j "curves")
    let wave ← J.fOpt (J.list (J.list J.float)) j "wave"
    let wset ← J.fOpt (fun w => do
      let coeff ← J.list (J.list J.float) (← J.fld w "coeff")
      let t : Trace.TSet Float := { func := ← J.fStr w "func", xmin := ← J.fFloat w "xmin", xmax := ← J.fFloat w "xmax",
                                    coeff := (coeff.map List.toArray).toArray, ncoeff := (coeff.headD []).length }
      pure t) j "wset"
    match filterThruTop Float.log10 pow10F Trace.gaussSolve prefixOk toair curves wave wset masks flux with
    | .ok r => pure (Json.mkObj [("ok", J.ofList (J.ofList J.ofFloat) r)])
    | .error e => pure (Json.mkObj [("err", Json.str e)])
  | "rt_rat" =>
    -- exact run of the same model text at core `Rat` on the rational value of the float input:
    -- both round trips against the proved bound 109/a³, and the exact values for comparison with Float
    let x : Rat := ratOfBits (← J.bits (← J.fld j "x"))
    let v : Rat := airtovac1 x
    let a : Rat := vactoair1 x
    let dAir : Rat := vactoair1 v - x
    let dVac : Rat := airtovac1 a - x
    let absR (q : Rat) : Rat := if q < 0 then -q else q
    let okAir : Bool := x < 2000 || decide (absR dAir ≤ 109 / (x * x * x))
    let okVac : Bool := a < 2000 || decide (absR dVac ≤ 109 / (a * a * a))
    pure (Json.mkObj [("air_ok", Json.bool okAir), ("vac_ok", Json.bool okVac),
                      -- exact values as scaled integers: floor(value·10¹⁵), floor(difference·10²⁴)
                      ("a2v_e15", J.ofInt (v * 1000000000000000).floor), ("v2a_e15", J.ofInt (a * 1000000000000000).floor),
                      ("d_air_e24", J.ofInt (dAir * 1000000000000000000000000).floor),
                      ("d_vac_e24", J.ofInt (dVac * 1000000000000000000000000).floor),
                      ("gt", Json.bool (x < 2000 || (decide (x < v) && decide (a < x))))])
  | "consts" =>
    pure (Json.mkObj [("ciddor", J.ofList decJ ciddorTable), ("niter", J.ofNat nIter),
                      ("ab", J.ofList decJ abTable), ("abscalars", J.ofList decJ abScalars)])
  | _ => throw s!"C19: unknown op {op}"

end PydlVerif.Driver.C19

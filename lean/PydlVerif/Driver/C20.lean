import PydlVerif.Model.JsonUtil
open Lean
namespace PydlVerif.Driver.C20

def handle (_j : Json) : Except String Json := throw "C20: no model operations yet"

end PydlVerif.Driver.C20

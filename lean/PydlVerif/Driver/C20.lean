import PydlVerif.Model.JsonUtil
import PydlVerif.Model.EnvIR
open Lean
namespace PydlVerif.Driver.C20
open PydlVerif PydlVerif.EnvIR

/-- JSON form of the IR (written by harness/xlate/c20_envir.py): `["seq", a, b]`, `["fault", 3]`, ... -/
partial def stmt (j : Json) : Except String Stmt := do
  let a ← J.arr j
  if a.size = 0 then throw "stmt: empty array"
  let tag ← J.str a[0]!
  let arg (i : Nat) : Except String Json :=
    if i < a.size then pure a[i]! else throw s!"stmt {tag}: missing argument {i}"
  match tag with
  | "skip" => pure .skip
  | "raise" => pure .raise
  | "ret" => pure .ret
  | "fault" => do pure (.fault (← J.nat (← arg 1)))
  | "need" => do pure (.need (← J.str (← arg 1)))
  | "save" => do pure (.save (← J.str (← arg 1)) (← J.str (← arg 2)))
  | "load" => do pure (.load (← J.str (← arg 1)) (← J.str (← arg 2)))
  | "setNone" => do pure (.setNone (← J.str (← arg 1)))
  | "kill" => do pure (.kill (← J.str (← arg 1)) (← J.nat (← arg 2)))
  | "del" => do pure (.del (← J.str (← arg 1)))
  | "pop" => do pure (.pop (← J.str (← arg 1)))
  | "setExpr" => do pure (.setExpr (← J.str (← arg 1)) (← J.nat (← arg 2)))
  | "setFrom" => do pure (.setFrom (← J.str (← arg 1)) (← J.str (← arg 2)))
  | "seq" => do pure (.seq (← stmt (← arg 1)) (← stmt (← arg 2)))
  | "choice" => do pure (.choice (← J.nat (← arg 1)) (← stmt (← arg 2)) (← stmt (← arg 3)))
  | "ifNone" => do pure (.ifNone (← J.str (← arg 1)) (← stmt (← arg 2)) (← stmt (← arg 3)))
  | "ifSet" => do pure (.ifSet (← J.str (← arg 1)) (← stmt (← arg 2)) (← stmt (← arg 3)))
  | "loop" => do pure (.loop (← J.nat (← arg 1)) (← stmt (← arg 2)))
  | "tryFinally" => do pure (.tryFinally (← stmt (← arg 1)) (← stmt (← arg 2)))
  | "tryExcept" => do pure (.tryExcept (← J.nat (← arg 1)) (← stmt (← arg 2)) (← stmt (← arg 3)))
  | "scope" => do pure (.scope (← stmt (← arg 1)))
  | t => throw s!"stmt: unknown tag {t}"

def optStr (j : Json) : Except String (Option String) := J.optional J.str j

def binding (j : Json) : Except String (String × Option String) := do
  match ← J.arr j with
  | #[k, v] => pure (← J.str k, ← optStr v)
  | _ => throw "binding: need [name, value]"

def natPair (j : Json) : Except String (Nat × Nat) := do
  match ← J.arr j with
  | #[a, b] => pure (← J.nat a, ← J.nat b)
  | _ => throw "need [nat, nat]"

def lookup (l : List (String × Option String)) (k : String) : Option String :=
  match l.find? (·.1 = k) with
  | some (_, v) => v
  | none => none

/-- oracle from its JSON description:
`T` point ids whose flag is true at every visit, `Tt` (tick, id) pairs that are true in addition,
`iters` (loop id, count), `none` / `other` ids of opaque expressions whose value is None / not a
string (every other opaque expression has the string value `<id>`). -/
def oracle (j : Json) : Except String Oracle := do
  let T ← (J.fOpt (J.list J.nat) j "T")
  let Tt ← (J.fOpt (J.list natPair) j "Tt")
  let its ← (J.fOpt (J.list natPair) j "iters")
  let nn ← (J.fOpt (J.list J.nat) j "none")
  let oo ← (J.fOpt (J.list J.nat) j "other")
  let T := T.getD []; let Tt := Tt.getD []; let its := its.getD []; let nn := nn.getD []; let oo := oo.getD []
  pure { flag := fun t i => T.contains i || Tt.contains (t, i),
         iters := fun _ i => match its.find? (·.1 = i) with | some (_, n) => n | none => 0,
         val := fun _ i => if nn.contains i then .none else if oo.contains i then .other else .str s!"<{i}>" }

def outcomeJ : Outcome → Json
  | .ok => "ok" | .raised => "raised" | .ret => "ret"

def optJ : Option String → Json
  | none => Json.null
  | some s => Json.str s

def absJ : Option Abs → Json
  | none => Json.null
  | some a => Json.mkObj [("dirty", J.ofList Json.str a.dirty),
      ("holds", J.ofList (fun p => Json.arr #[Json.str p.1, Json.str p.2]) a.holds),
      ("isNone", J.ofList Json.str a.isNone), ("isStr", J.ofList Json.str a.isStr)]

def handle (j : Json) : Except String Json := do
  let op ← J.fStr j "op"
  match op with
  | "run" =>
    -- run the IR term under an oracle from an initial environment; report the listed variables
    let p ← stmt (← J.fld j "prog")
    let env ← J.list binding (← J.fld j "env")
    let vars ← J.list J.str (← J.fld j "vars")
    let o ← oracle (← J.fld j "oracle")
    let r := run o p ⟨lookup env, fun _ => .other, 0⟩
    pure (Json.mkObj [("outcome", outcomeJ r.2),
                      ("env", J.ofList (fun v => Json.arr #[Json.str v, optJ (r.1.env v)]) vars),
                      ("ticks", J.ofNat r.1.tick)])
  | "runs" =>
    -- many runs of one program: cases = [{"env": [...], "oracle": {...}}, ...]
    let p ← stmt (← J.fld j "prog")
    let vars ← J.list J.str (← J.fld j "vars")
    let cases ← J.list pure (← J.fld j "cases")
    let outs ← cases.mapM (fun c => do
      let env ← J.list binding (← J.fld c "env")
      let o ← oracle (← J.fld c "oracle")
      let r := run o p ⟨lookup env, fun _ => .other, 0⟩
      pure (Json.mkObj [("outcome", outcomeJ r.2),
                        ("env", J.ofList (fun v => Json.arr #[Json.str v, optJ (r.1.env v)]) vars)]))
    pure (Json.arr outs.toArray)
  | "check" =>
    -- the checker on the JSON form, the canonical rendering, and the analysis result
    let p ← stmt (← J.fld j "prog")
    let vs ← J.list J.str (← J.fld j "vars")
    let r := ana p Abs.init
    pure (Json.mkObj [("restores", Json.bool (restores p vs)), ("render", Json.str (render p)),
                      ("writes", J.ofList Json.str (writes p)), ("assigns", J.ofList Json.str (assigns p)),
                      ("normal", absJ r.n), ("raised", absJ r.e), ("returned", absJ r.r)])
  | _ => throw s!"C20: unknown op {op}"

end PydlVerif.Driver.C20

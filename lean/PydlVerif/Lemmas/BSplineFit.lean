/-
Helper lemmas for C09: the flat-index scatter of `bspline.fit` builds the band of the normal
matrix; a solution of the banded system satisfies the normal equations.
-/
import PydlVerif.Model.BSplineFit
import PydlVerif.Lemmas.ScalarField
import PydlVerif.Lemmas.Lsq
import Mathlib.Tactic.Ring
import Mathlib.Tactic.Linarith
import Mathlib.Algebra.BigOperators.Group.List.Basic
import Mathlib.Algebra.BigOperators.Intervals
namespace PydlVerif.BSplineFitLemmas
open PydlVerif PydlVerif.BSpline PydlVerif.BSplineFit Finset

set_option linter.unusedSectionVars false
variable {K : Type} [Field K] [LinearOrder K] [IsStrictOrderedRing K] [FloorRing K]

local notation "addAtK" => @addAt _ (fieldScalar _)
local notation "sumLK" => @sumL _ (fieldScalar _)
local notation "workAtK" => @workAt _ (fieldScalar _)
local notation "wbAtK" => @wbAt _ (fieldScalar _)
local notation "scatterStepK" => @scatterStep _ (fieldScalar _)
local notation "betaStepK" => @betaStep _ (fieldScalar _)
local notation "assembleK" => @assemble _ (fieldScalar _)

theorem sc_add (a b : K) : @HAdd.hAdd K K K (@instHAdd K (fieldScalar K).toAdd) a b = a + b := rfl
theorem sc_mul (a b : K) : @HMul.hMul K K K (@instHMul K (fieldScalar K).toMul) a b = a * b := rfl
theorem sc_zero : (@OfNat.ofNat K 0 (@Scalar.instOfNat K (fieldScalar K) 0) : K) = 0 := by simp [scalar_lit]

theorem sumL_eq (l : List K) : sumLK l = l.sum := by
  induction l with
  | nil => simp only [sumL, List.foldr_nil, List.sum_nil]; exact sc_zero
  | cons a l ih =>
    have : sumLK (a :: l) = a + sumLK l := rfl
    rw [this, ih, List.sum_cons]

theorem list_range_sum (f : ℕ → K) (n : ℕ) : ((List.range n).map f).sum = ∑ i ∈ range n, f i := by
  induction n with
  | zero => simp
  | succ n ih => rw [List.range_succ, List.map_append, List.sum_append, ih, Finset.sum_range_succ]; simp

theorem addAt_apply (g : ℕ → K) (i : ℕ) (v : K) (f : ℕ) : addAtK g i v f = if f = i then g f + v else g f := rfl

/-- folding `flat[idx] += val` over a list: every flat position receives the values addressed to it -/
theorem foldl_addAt {β : Type} (l : List β) (idx : β → ℕ) (val : β → K) (g : ℕ → K) (f : ℕ) :
    (l.foldl (fun g b => addAtK g (idx b) (val b)) g) f = g f + (l.map (fun b => if idx b = f then val b else 0)).sum := by
  induction l generalizing g with
  | nil => simp
  | cons b l ih =>
    rw [List.foldl_cons, ih, addAt_apply, List.map_cons, List.sum_cons]
    by_cases h : f = idx b
    · rw [if_pos h, if_pos h.symm]; ring
    · rw [if_neg h, if_neg (Ne.symm h)]; ring

theorem flatMap_map_sum {β : Type} (l : List ℕ) (g : ℕ → List β) (F : β → K) :
    ((l.flatMap g).map F).sum = (l.map (fun k => ((g k).map F).sum)).sum := by
  induction l with
  | nil => simp
  | cons a l ih => rw [List.flatMap_cons, List.map_append, List.sum_append, ih, List.map_cons, List.sum_cons]

/-- `alpha.T.flat[bo + itop*bw] += work.flat[bi]` decoded: band `r` of column `c` receives
`work[c-itop][c-itop+r]` when `0 ≤ c-itop`, `c-itop+r < bw` -/
theorem scatterStep_apply (bw itop : ℕ) (work g : ℕ → K) (c r : ℕ) (hr : r < bw) :
    scatterStepK bw itop work g (c * bw + r) =
      g (c * bw + r) + (if itop ≤ c ∧ (c - itop) + r < bw then work (r + (bw + 1) * (c - itop)) else 0) := by
  unfold scatterStep
  rw [foldl_addAt (scatterPairs bw) (fun oi => oi.1 + itop * bw) (fun oi => work oi.2)]
  congr 1
  unfold scatterPairs
  rw [flatMap_map_sum]
  simp only [List.map_map, Function.comp_def]
  rw [list_range_sum]
  have hinner : ∀ k, ((List.range (bw - k)).map (fun r' => if r' + bw * k + itop * bw = c * bw + r then work (r' + (bw + 1) * k) else 0)).sum
      = if k + itop = c ∧ r < bw - k then work (r + (bw + 1) * k) else 0 := by
    intro k
    rw [list_range_sum]
    by_cases hk : k + itop = c ∧ r < bw - k
    · rw [if_pos hk, Finset.sum_eq_single r]
      · rw [if_pos]; rw [← hk.1]; ring
      · intro b hb hbr
        rw [if_neg]
        intro h
        have : b + bw * k + itop * bw = (k + itop) * bw + b := by ring
        rw [this, hk.1] at h
        exact hbr (by omega)
      · intro h; exact absurd (Finset.mem_range.2 hk.2) h
    · rw [if_neg hk]
      apply Finset.sum_eq_zero
      intro b hb
      rw [Finset.mem_range] at hb
      rw [if_neg]
      intro h
      apply hk
      have e : b + bw * k + itop * bw = (k + itop) * bw + b := by ring
      rw [e] at h
      have hb' : b < bw := by omega
      have h1 : ((k + itop) * bw + b) / bw = k + itop := by
        rw [Nat.add_comm, Nat.add_mul_div_right _ _ (by omega), Nat.div_eq_of_lt hb']; omega
      have h2 : (c * bw + r) / bw = c := by
        rw [Nat.add_comm, Nat.add_mul_div_right _ _ (by omega), Nat.div_eq_of_lt hr]; omega
      have h3 : ((k + itop) * bw + b) % bw = b := by
        rw [Nat.add_comm, Nat.add_mul_mod_self_right, Nat.mod_eq_of_lt hb']
      have h4 : (c * bw + r) % bw = r := by
        rw [Nat.add_comm, Nat.add_mul_mod_self_right, Nat.mod_eq_of_lt hr]
      have hc : k + itop = c := by rw [← h1, ← h2, h]
      have hbr : b = r := by rw [← h3, ← h4, h]
      exact ⟨hc, by omega⟩
  simp_rw [hinner]
  by_cases hc : itop ≤ c ∧ (c - itop) + r < bw
  · rw [if_pos hc, Finset.sum_eq_single (c - itop)]
    · rw [if_pos]; exact ⟨by omega, by omega⟩
    · intro k hk hne
      rw [if_neg]; intro h; exact hne (by omega)
    · intro h
      exact absurd (Finset.mem_range.2 (by omega)) h
  · rw [if_neg hc]
    apply Finset.sum_eq_zero
    intro k hk
    rw [Finset.mem_range] at hk
    rw [if_neg]
    intro h
    exact hc ⟨by omega, by omega⟩

/-- `beta[itop : itop+bw] += wb` -/
theorem betaStep_apply (bw itop : ℕ) (wb g : ℕ → K) (c : ℕ) :
    betaStepK bw itop wb g c = g c + (if itop ≤ c ∧ c - itop < bw then wb (c - itop) else 0) := by
  unfold betaStep
  rw [foldl_addAt (List.range bw) (fun a => itop + a) (fun a => wb a), list_range_sum]
  congr 1
  by_cases hc : itop ≤ c ∧ c - itop < bw
  · rw [if_pos hc, Finset.sum_eq_single (c - itop)]
    · rw [if_pos (by omega)]
    · intro a _ hne; rw [if_neg (by omega)]
    · intro h; exact absurd (Finset.mem_range.2 hc.2) h
  · rw [if_neg hc]
    apply Finset.sum_eq_zero
    intro a ha
    rw [Finset.mem_range] at ha
    rw [if_neg]; intro h; exact hc ⟨by omega, by omega⟩


theorem flat_div (bw a r : ℕ) (h : a + r < bw) : (r + (bw + 1) * a) / bw = a := by
  have e : r + (bw + 1) * a = (a + r) + a * bw := by ring
  rw [e, Nat.add_mul_div_right _ _ (by omega), Nat.div_eq_of_lt h]; omega

theorem flat_mod (bw a r : ℕ) (h : a + r < bw) : (r + (bw + 1) * a) % bw = a + r := by
  have e : r + (bw + 1) * a = (a + r) + a * bw := by ring
  rw [e, Nat.add_mul_mod_self_right, Nat.mod_eq_of_lt h]

theorem rowIn_empty (lower upper : Array ℤ) (k p : ℕ) (h : ¬ (upper[k]! - lower[k]! + 1 > 0)) :
    rowIn lower upper k p = false := by
  unfold rowIn
  rw [Bool.and_eq_false_iff, decide_eq_false_iff_not, decide_eq_false_iff_not]
  omega

/-- the two accumulators after `nseg` intervals, entry by entry -/
theorem assemble_apply (a1 : ℕ → ℕ → K) (y w : ℕ → K) (lower upper : Array ℤ) (nx bw : ℕ) (nseg : ℕ) :
    (∀ c r, r < bw → (assembleK a1 y w lower upper nx bw nseg).1 (c * bw + r) =
      ∑ k ∈ range nseg, (if k ≤ c ∧ (c - k) + r < bw then
        ∑ p ∈ range nx, (if rowIn lower upper k p then a1 p (c - k) * (a1 p (c - k + r) * w p) else 0) else 0)) ∧
    (∀ c, (assembleK a1 y w lower upper nx bw nseg).2 c =
      ∑ k ∈ range nseg, (if k ≤ c ∧ c - k < bw then
        ∑ p ∈ range nx, (if rowIn lower upper k p then y p * (a1 p (c - k) * w p) else 0) else 0)) := by
  induction nseg with
  | zero =>
    refine ⟨fun c r _ => ?_, fun c => ?_⟩ <;> simp only [assemble, List.range_zero, List.foldl_nil, Finset.range_zero, Finset.sum_empty] <;> exact sc_zero
  | succ n ih =>
    have hstep : assembleK a1 y w lower upper nx bw (n+1) =
        (if upper[n]! - lower[n]! + 1 > 0 then
          (scatterStepK bw n (workAtK a1 w (rowIn lower upper n) nx bw) (assembleK a1 y w lower upper nx bw n).1,
           betaStepK bw n (wbAtK a1 y w (rowIn lower upper n) nx) (assembleK a1 y w lower upper nx bw n).2)
        else assembleK a1 y w lower upper nx bw n) := by
      simp only [assemble, List.range_succ, List.foldl_append, List.foldl_cons, List.foldl_nil]
    rw [hstep]
    by_cases hict : upper[n]! - lower[n]! + 1 > 0
    · rw [if_pos hict]
      refine ⟨fun c r hr => ?_, fun c => ?_⟩
      · simp only []
        rw [scatterStep_apply bw n _ _ c r hr, ih.1 c r hr, Finset.sum_range_succ]
        congr 1
        by_cases hc : n ≤ c ∧ (c - n) + r < bw
        · rw [if_pos hc, if_pos hc]
          simp only [workAt]
          rw [sumL_eq, list_range_sum, flat_div bw (c - n) r hc.2, flat_mod bw (c - n) r hc.2]
          apply Finset.sum_congr rfl
          intro p _
          split
          · simp only [sc_mul]
          · exact sc_zero
        · rw [if_neg hc, if_neg hc]
      · simp only []
        rw [betaStep_apply, ih.2 c, Finset.sum_range_succ]
        congr 1
        by_cases hc : n ≤ c ∧ c - n < bw
        · rw [if_pos hc, if_pos hc]
          simp only [wbAt]
          rw [sumL_eq, list_range_sum]
          apply Finset.sum_congr rfl
          intro p _
          split
          · simp only [sc_mul]
          · exact sc_zero
        · rw [if_neg hc, if_neg hc]
    · rw [if_neg hict]
      refine ⟨fun c r hr => ?_, fun c => ?_⟩
      · rw [ih.1 c r hr, Finset.sum_range_succ]
        have : (if n ≤ c ∧ (c - n) + r < bw then
            ∑ p ∈ range nx, (if rowIn lower upper n p then a1 p (c - n) * (a1 p (c - n + r) * w p) else 0) else 0) = 0 := by
          split
          · apply Finset.sum_eq_zero; intro p _; rw [rowIn_empty lower upper n p hict]; simp
          · rfl
        rw [this, add_zero]
      · rw [ih.2 c, Finset.sum_range_succ]
        have : (if n ≤ c ∧ c - n < bw then
            ∑ p ∈ range nx, (if rowIn lower upper n p then y p * (a1 p (c - n) * w p) else 0) else 0) = 0 := by
          split
          · apply Finset.sum_eq_zero; intro p _; rw [rowIn_empty lower upper n p hict]; simp
          · rfl
        rw [this, add_zero]

/-- the design matrix of the fit: point `p` lies in segment `iv p` and its `bw` basis values
`a1 p 0 .. a1 p (bw-1)` belong to the coefficients `iv p .. iv p + bw - 1` -/
def design (a1 : ℕ → ℕ → K) (iv : ℕ → ℕ) (bw p c : ℕ) : K :=
  if iv p ≤ c ∧ c < iv p + bw then a1 p (c - iv p) else 0

/-- what `action` delivers in `lower`/`upper` (C08's `RowsOf`): the slice of segment `k` holds exactly the points of segment `k` -/
def Rows (lower upper : Array ℤ) (iv : ℕ → ℕ) (nx nseg : ℕ) : Prop :=
  ∀ p, p < nx → iv p < nseg ∧ ∀ k, k < nseg → (rowIn lower upper k p = true ↔ k = iv p)

theorem sum_rows (lower upper : Array ℤ) (iv : ℕ → ℕ) (nx nseg : ℕ) (hrows : Rows lower upper iv nx nseg)
    (cond : ℕ → Prop) [DecidablePred cond] (F : ℕ → ℕ → K) :
    ∑ k ∈ range nseg, (if cond k then ∑ p ∈ range nx, (if rowIn lower upper k p then F k p else 0) else 0)
      = ∑ p ∈ range nx, (if cond (iv p) then F (iv p) p else 0) := by
  have e : ∀ k, (if cond k then ∑ p ∈ range nx, (if rowIn lower upper k p then F k p else 0) else 0)
      = ∑ p ∈ range nx, (if cond k ∧ rowIn lower upper k p = true then F k p else 0) := by
    intro k
    by_cases hk : cond k
    · rw [if_pos hk]; apply Finset.sum_congr rfl; intro p _; simp [hk]
    · rw [if_neg hk]; symm; apply Finset.sum_eq_zero; intro p _; simp [hk]
  simp_rw [e]
  rw [Finset.sum_comm]
  apply Finset.sum_congr rfl
  intro p hp
  rw [Finset.mem_range] at hp
  obtain ⟨h1, h2⟩ := hrows p hp
  rw [Finset.sum_eq_single (iv p)]
  · by_cases hc : cond (iv p)
    · rw [if_pos ⟨hc, (h2 _ h1).2 rfl⟩, if_pos hc]
    · rw [if_neg (fun h => hc h.1), if_neg hc]
  · intro k hk hne
    rw [Finset.mem_range] at hk
    rw [if_neg]; intro h; exact hne ((h2 k hk).1 h.2)
  · intro h; exact absurd (Finset.mem_range.2 h1) h

/-- **assemble_is_normal**: the flat-index scatter of `fit` builds the lower band of `AᵀWA` and `AᵀWy` -/
theorem assemble_is_normal (a1 : ℕ → ℕ → K) (y w : ℕ → K) (lower upper : Array ℤ) (iv : ℕ → ℕ) (nx bw nseg : ℕ)
    (hrows : Rows lower upper iv nx nseg) :
    (∀ c r, r < bw → (assembleK a1 y w lower upper nx bw nseg).1 (c * bw + r) =
      ∑ p ∈ range nx, design a1 iv bw p c * (design a1 iv bw p (c + r) * w p)) ∧
    (∀ c, (assembleK a1 y w lower upper nx bw nseg).2 c = ∑ p ∈ range nx, y p * (design a1 iv bw p c * w p)) := by
  obtain ⟨h1, h2⟩ := assemble_apply a1 y w lower upper nx bw nseg
  refine ⟨fun c r hr => ?_, fun c => ?_⟩
  · rw [h1 c r hr, sum_rows lower upper iv nx nseg hrows (fun k => k ≤ c ∧ (c - k) + r < bw)
      (fun k p => a1 p (c - k) * (a1 p (c - k + r) * w p))]
    apply Finset.sum_congr rfl
    intro p _
    unfold design
    by_cases hc : iv p ≤ c ∧ (c - iv p) + r < bw
    · rw [if_pos hc, if_pos (by omega), if_pos (by omega), show c + r - iv p = c - iv p + r by omega]
    · rw [if_neg hc]
      by_cases h1 : iv p ≤ c ∧ c < iv p + bw
      · rw [if_pos h1, if_neg (by omega)]; ring
      · rw [if_neg h1]; ring
  · rw [h2 c, sum_rows lower upper iv nx nseg hrows (fun k => k ≤ c ∧ c - k < bw) (fun k p => y p * (a1 p (c - k) * w p))]
    apply Finset.sum_congr rfl
    intro p _
    unfold design
    by_cases hc : iv p ≤ c ∧ c - iv p < bw
    · rw [if_pos hc, if_pos (by omega)]
    · rw [if_neg hc, if_neg (by omega)]; ring

end PydlVerif.BSplineFitLemmas

/-
Helper lemmas for C09, extension 3 (x2 / npoly ≥ 1): the `npoly`-blocked flat-index scatter of `bspline.fit`
(`assembleP`, `itop = k*npoly`) builds the band of the normal matrix of the TENSOR design matrix.
-/
import PydlVerif.Model.BSplineFit2
import PydlVerif.Lemmas.BSplineFit
namespace PydlVerif.BSplineFit2Lemmas
open PydlVerif PydlVerif.BSpline PydlVerif.BSplineFit PydlVerif.BSplineFit2 PydlVerif.BSplineFitLemmas Finset

set_option linter.unusedSectionVars false
variable {K : Type} [Field K] [LinearOrder K] [IsStrictOrderedRing K] [FloorRing K]

local notation "sumLK" => @sumL _ (fieldScalar _)
local notation "workAtK" => @workAt _ (fieldScalar _)
local notation "wbAtK" => @wbAt _ (fieldScalar _)
local notation "scatterStepK" => @scatterStep _ (fieldScalar _)
local notation "betaStepK" => @betaStep _ (fieldScalar _)
local notation "assembleK" => @assemble _ (fieldScalar _)
local notation "assemblePK" => @assembleP _ (fieldScalar _)

/-- with `npoly = 1` the blocked assembly IS the 1-D assembly of Model/BSplineFit.lean -/
theorem assembleP_one (a1 : ℕ → ℕ → K) (y w : ℕ → K) (lower upper : Array ℤ) (nx bw nseg : ℕ) :
    assemblePK 1 a1 y w lower upper nx bw nseg = assembleK a1 y w lower upper nx bw nseg := by
  unfold assembleP assemble
  simp only [Nat.mul_one]

/-- the two accumulators after `nseg` intervals, entry by entry (`itop = k*np`) -/
theorem assembleP_apply (np : ℕ) (a1 : ℕ → ℕ → K) (y w : ℕ → K) (lower upper : Array ℤ) (nx bw : ℕ) (nseg : ℕ) :
    (∀ c r, r < bw → (assemblePK np a1 y w lower upper nx bw nseg).1 (c * bw + r) =
      ∑ k ∈ range nseg, (if k * np ≤ c ∧ (c - k * np) + r < bw then
        ∑ p ∈ range nx, (if rowIn lower upper k p then a1 p (c - k * np) * (a1 p (c - k * np + r) * w p) else 0) else 0)) ∧
    (∀ c, (assemblePK np a1 y w lower upper nx bw nseg).2 c =
      ∑ k ∈ range nseg, (if k * np ≤ c ∧ c - k * np < bw then
        ∑ p ∈ range nx, (if rowIn lower upper k p then y p * (a1 p (c - k * np) * w p) else 0) else 0)) := by
  induction nseg with
  | zero =>
    refine ⟨fun c r _ => ?_, fun c => ?_⟩ <;> simp only [assembleP, List.range_zero, List.foldl_nil, Finset.range_zero, Finset.sum_empty] <;> exact sc_zero
  | succ n ih =>
    have hstep : assemblePK np a1 y w lower upper nx bw (n+1) =
        (if upper[n]! - lower[n]! + 1 > 0 then
          (scatterStepK bw (n * np) (workAtK a1 w (rowIn lower upper n) nx bw) (assemblePK np a1 y w lower upper nx bw n).1,
           betaStepK bw (n * np) (wbAtK a1 y w (rowIn lower upper n) nx) (assemblePK np a1 y w lower upper nx bw n).2)
        else assemblePK np a1 y w lower upper nx bw n) := by
      simp only [assembleP, List.range_succ, List.foldl_append, List.foldl_cons, List.foldl_nil]
    rw [hstep]
    by_cases hict : upper[n]! - lower[n]! + 1 > 0
    · rw [if_pos hict]
      refine ⟨fun c r hr => ?_, fun c => ?_⟩
      · simp only []
        rw [scatterStep_apply bw (n * np) _ _ c r hr, ih.1 c r hr, Finset.sum_range_succ]
        congr 1
        by_cases hc : n * np ≤ c ∧ (c - n * np) + r < bw
        · rw [if_pos hc, if_pos hc]
          simp only [workAt]
          rw [sumL_eq, list_range_sum, flat_div bw (c - n * np) r hc.2, flat_mod bw (c - n * np) r hc.2]
          apply Finset.sum_congr rfl
          intro p _
          split
          · simp only [sc_mul]
          · exact sc_zero
        · rw [if_neg hc, if_neg hc]
      · simp only []
        rw [betaStep_apply, ih.2 c, Finset.sum_range_succ]
        congr 1
        by_cases hc : n * np ≤ c ∧ c - n * np < bw
        · rw [if_pos hc, if_pos hc]
          simp only [wbAt]
          rw [sumL_eq, list_range_sum]
          apply Finset.sum_congr rfl
          intro p _
          split
          · simp only [sc_mul]
          · exact sc_zero
        · rw [if_neg hc, if_neg hc]
    · rw [if_neg hict]
      refine ⟨fun c r hr => ?_, fun c => ?_⟩
      · rw [ih.1 c r hr, Finset.sum_range_succ]
        have : (if n * np ≤ c ∧ (c - n * np) + r < bw then
            ∑ p ∈ range nx, (if rowIn lower upper n p then a1 p (c - n * np) * (a1 p (c - n * np + r) * w p) else 0) else 0) = 0 := by
          split
          · apply Finset.sum_eq_zero; intro p _; rw [rowIn_empty lower upper n p hict]; simp
          · rfl
        rw [this, add_zero]
      · rw [ih.2 c, Finset.sum_range_succ]
        have : (if n * np ≤ c ∧ c - n * np < bw then
            ∑ p ∈ range nx, (if rowIn lower upper n p then y p * (a1 p (c - n * np) * w p) else 0) else 0) = 0 := by
          split
          · apply Finset.sum_eq_zero; intro p _; rw [rowIn_empty lower upper n p hict]; simp
          · rfl
        rw [this, add_zero]

/-- the design matrix of the blocked fit: point `p` of segment `iv p` has its `bw` values in the columns
`iv p * np .. iv p * np + bw - 1` -/
def designP (np : ℕ) (a1 : ℕ → ℕ → K) (iv : ℕ → ℕ) (bw p c : ℕ) : K := design a1 (fun q => iv q * np) bw p c

theorem designP_eq (np : ℕ) (a1 : ℕ → ℕ → K) (iv : ℕ → ℕ) (bw p c : ℕ) :
    designP np a1 iv bw p c = if iv p * np ≤ c ∧ c < iv p * np + bw then a1 p (c - iv p * np) else 0 := rfl

/-- **assembleP_is_normal**: the `npoly`-blocked scatter builds the lower band of `AᵀWA` and `AᵀWy`, `A = designP` -/
theorem assembleP_is_normal (np : ℕ) (a1 : ℕ → ℕ → K) (y w : ℕ → K) (lower upper : Array ℤ) (iv : ℕ → ℕ) (nx bw nseg : ℕ)
    (hrows : Rows lower upper iv nx nseg) :
    (∀ c r, r < bw → (assemblePK np a1 y w lower upper nx bw nseg).1 (c * bw + r) =
      ∑ p ∈ range nx, designP np a1 iv bw p c * (designP np a1 iv bw p (c + r) * w p)) ∧
    (∀ c, (assemblePK np a1 y w lower upper nx bw nseg).2 c = ∑ p ∈ range nx, y p * (designP np a1 iv bw p c * w p)) := by
  obtain ⟨h1, h2⟩ := assembleP_apply np a1 y w lower upper nx bw nseg
  refine ⟨fun c r hr => ?_, fun c => ?_⟩
  · rw [h1 c r hr, sum_rows lower upper iv nx nseg hrows (fun k => k * np ≤ c ∧ (c - k * np) + r < bw)
      (fun k p => a1 p (c - k * np) * (a1 p (c - k * np + r) * w p))]
    apply Finset.sum_congr rfl
    intro p _
    rw [designP_eq, designP_eq]
    generalize iv p * np = q
    by_cases hc : q ≤ c ∧ (c - q) + r < bw
    · rw [if_pos hc, if_pos (by omega), if_pos (by omega), show c + r - q = c - q + r by omega]
    · rw [if_neg hc]
      by_cases h1 : q ≤ c ∧ c < q + bw
      · rw [if_pos h1, if_neg (by omega)]; ring
      · rw [if_neg h1]; ring
  · rw [h2 c, sum_rows lower upper iv nx nseg hrows (fun k => k * np ≤ c ∧ c - k * np < bw) (fun k p => y p * (a1 p (c - k * np) * w p))]
    apply Finset.sum_congr rfl
    intro p _
    rw [designP_eq]
    generalize iv p * np = q
    by_cases hc : q ≤ c ∧ c - q < bw
    · rw [if_pos hc, if_pos (by omega)]
    · rw [if_neg hc, if_neg (by omega)]; ring

/-- column `ii*np + jj` of the matrix `action(x, x2=...)` returns: `bf1[p][ii] * temppoly[p][jj]` -/
def tensorAct (np : ℕ) (bf P : ℕ → ℕ → K) (p a : ℕ) : K := bf p (a / np) * P p (a % np)

/-- **tensor_design**: the blocked design matrix of the tensor action matrix is the tensor product of the 1-D design
matrix with the basis in the second variable: column `j*np + l` holds `B_j(x_p) · P_l(x2_p)` -/
theorem tensor_design (np nord : ℕ) (bf P : ℕ → ℕ → K) (iv : ℕ → ℕ) (p j l : ℕ) (hl : l < np) :
    designP np (tensorAct np bf P) iv (nord * np) p (j * np + l) = design bf iv nord p j * P p l := by
  have hnp : 0 < np := by omega
  rw [designP_eq]
  unfold design tensorAct
  by_cases h : iv p ≤ j ∧ j < iv p + nord
  · obtain ⟨d, rfl⟩ := Nat.exists_eq_add_of_le h.1
    have hd : d + 1 ≤ nord := by omega
    have h1 : (d + 1) * np ≤ nord * np := Nat.mul_le_mul_right np hd
    rw [Nat.add_mul, Nat.one_mul] at h1
    have e : (iv p + d) * np + l - iv p * np = d * np + l := by rw [Nat.add_mul]; omega
    have c1 : iv p * np ≤ (iv p + d) * np + l ∧ (iv p + d) * np + l < iv p * np + nord * np := by
      rw [Nat.add_mul]; omega
    rw [if_pos c1, if_pos h, e]
    have e1 : (d * np + l) / np = d := by
      rw [Nat.add_comm, Nat.add_mul_div_right _ _ hnp, Nat.div_eq_of_lt hl, Nat.zero_add]
    have e2 : (d * np + l) % np = l := by
      rw [Nat.add_comm, Nat.add_mul_mod_self_right, Nat.mod_eq_of_lt hl]
    rw [e1, e2, show iv p + d - iv p = d by omega]
  · have c1 : ¬ (iv p * np ≤ j * np + l ∧ j * np + l < iv p * np + nord * np) := by
      intro hc
      apply h
      by_cases hj : j < iv p
      · have : (j + 1) * np ≤ iv p * np := Nat.mul_le_mul_right np hj
        rw [Nat.add_mul, Nat.one_mul] at this
        omega
      · refine ⟨by omega, ?_⟩
        by_contra hge
        have : (iv p + nord) * np ≤ j * np := Nat.mul_le_mul_right np (by omega)
        rw [Nat.add_mul] at this
        omega
    rw [if_neg c1, if_neg h, zero_mul]

/-- a sum over `m*np` flat indices is the double sum over blocks -/
theorem sum_blocks (f : ℕ → K) (m np : ℕ) :
    ∑ c ∈ range (m * np), f c = ∑ j ∈ range m, ∑ l ∈ range np, f (j * np + l) := by
  induction m with
  | zero => simp
  | succ m ih => rw [Nat.succ_mul, Finset.sum_range_add, ih, Finset.sum_range_succ]

end PydlVerif.BSplineFit2Lemmas

/-
C08 helper lemmas for the constructor (`mkKnots` of Model/BSpline.lean) at the field interpretation:
`minOf/maxOf` are the minimum / maximum, `argminOf/argmaxOf` on a sorted vector are the first / last
position, the even placement `evenBkpt`, and what `padBkpt` (min/max patching + padding) computes on a
sorted breakpoint vector with at least two entries.
-/
import PydlVerif.Model.BSpline
import PydlVerif.Lemmas.ScalarField
import Mathlib.Tactic.Ring
import Mathlib.Tactic.Linarith
import Mathlib.Tactic.FieldSimp
namespace PydlVerif.C08
open PydlVerif PydlVerif.BSpline

variable {K : Type} [Field K] [LinearOrder K] [IsStrictOrderedRing K] [FloorRing K]

/-! ## the model's operations at `fieldScalar K` are the field operations -/
theorem sc_add (a b : K) : @HAdd.hAdd K K K (@instHAdd K (fieldScalar K).toAdd) a b = a + b := rfl
theorem sc_sub (a b : K) : @HSub.hSub K K K (@instHSub K (fieldScalar K).toSub) a b = a - b := rfl
theorem sc_mul (a b : K) : @HMul.hMul K K K (@instHMul K (fieldScalar K).toMul) a b = a * b := rfl
theorem sc_div (a b : K) : @HDiv.hDiv K K K (@instHDiv K (fieldScalar K).toDiv) a b = a / b := rfl
theorem sc_neg (a : K) : @Neg.neg K (fieldScalar K).toNeg a = -a := rfl
theorem sc_lt (a b : K) : @LT.lt K (fieldScalar K).toLT a b ↔ a < b := Iff.rfl
theorem sc_le (a b : K) : @LE.le K (fieldScalar K).toLE a b ↔ a ≤ b := Iff.rfl
theorem sc_zero : (@OfNat.ofNat K 0 (@Scalar.instOfNat K (fieldScalar K) 0) : K) = 0 := by simp [scalar_lit]
theorem sc_one : (@OfNat.ofNat K 1 (@Scalar.instOfNat K (fieldScalar K) 1) : K) = 1 := by simp [scalar_lit]

local notation "minOfK" => @minOf _ (fieldScalar _)
local notation "maxOfK" => @maxOf _ (fieldScalar _)
local notation "argminK" => @argminOf _ (fieldScalar _)
local notation "argmaxK" => @argmaxOf _ (fieldScalar _)
local notation "argBestK" => @argBest _
local notation "evenK" => @evenBkpt _ (fieldScalar _)
local notation "padK" => @padKnots _ (fieldScalar _)
local notation "padBkptK" => @padBkpt _ (fieldScalar _)

/-! ## x.min(), x.max() -/

theorem minOf_cons (m y : K) (ys : List K) : minOfK m (y :: ys) = minOfK (if y < m then y else m) ys := rfl
theorem maxOf_cons (m y : K) (ys : List K) : maxOfK m (y :: ys) = maxOfK (if m < y then y else m) ys := rfl

theorem minOf_aux (xs : List K) (m : K) :
    (minOfK m xs = m ∨ minOfK m xs ∈ xs) ∧ minOfK m xs ≤ m ∧ ∀ y ∈ xs, minOfK m xs ≤ y := by
  induction xs generalizing m with
  | nil => exact ⟨Or.inl rfl, le_refl _, fun y hy => by cases hy⟩
  | cons y ys ih =>
    rw [minOf_cons]
    obtain ⟨h1, h2, h3⟩ := ih (if y < m then y else m)
    by_cases hc : y < m
    · rw [if_pos hc] at h1 h2 h3 ⊢
      refine ⟨Or.inr ?_, le_trans h2 hc.le, ?_⟩
      · rcases h1 with h | h
        · rw [h]; exact List.mem_cons_self
        · exact List.mem_cons_of_mem _ h
      · intro z hz
        rcases List.mem_cons.1 hz with h | h
        · rw [h]; exact h2
        · exact h3 z h
    · rw [if_neg hc] at h1 h2 h3 ⊢
      refine ⟨h1.imp id (List.mem_cons_of_mem _), h2, ?_⟩
      intro z hz
      rcases List.mem_cons.1 hz with h | h
      · rw [h]; exact le_trans h2 (not_lt.1 hc)
      · exact h3 z h

theorem maxOf_aux (xs : List K) (m : K) :
    (maxOfK m xs = m ∨ maxOfK m xs ∈ xs) ∧ m ≤ maxOfK m xs ∧ ∀ y ∈ xs, y ≤ maxOfK m xs := by
  induction xs generalizing m with
  | nil => exact ⟨Or.inl rfl, le_refl _, fun y hy => by cases hy⟩
  | cons y ys ih =>
    rw [maxOf_cons]
    obtain ⟨h1, h2, h3⟩ := ih (if m < y then y else m)
    by_cases hc : m < y
    · rw [if_pos hc] at h1 h2 h3 ⊢
      refine ⟨Or.inr ?_, le_trans hc.le h2, ?_⟩
      · rcases h1 with h | h
        · rw [h]; exact List.mem_cons_self
        · exact List.mem_cons_of_mem _ h
      · intro z hz
        rcases List.mem_cons.1 hz with h | h
        · rw [h]; exact h2
        · exact h3 z h
    · rw [if_neg hc] at h1 h2 h3 ⊢
      refine ⟨h1.imp id (List.mem_cons_of_mem _), h2, ?_⟩
      intro z hz
      rcases List.mem_cons.1 hz with h | h
      · rw [h]; exact le_trans (not_lt.1 hc) h2
      · exact h3 z h

/-- `minOf x0 xs` is the least element of `x0 :: xs` -/
theorem minOf_spec (x0 : K) (xs : List K) : minOfK x0 xs ∈ x0 :: xs ∧ ∀ y ∈ x0 :: xs, minOfK x0 xs ≤ y := by
  obtain ⟨h1, h2, h3⟩ := minOf_aux xs x0
  refine ⟨?_, ?_⟩
  · rcases h1 with h | h
    · rw [h]; exact List.mem_cons_self
    · exact List.mem_cons_of_mem _ h
  · intro y hy
    rcases List.mem_cons.1 hy with h | h
    · rw [h]; exact h2
    · exact h3 y h

/-- `maxOf x0 xs` is the greatest element of `x0 :: xs` -/
theorem maxOf_spec (x0 : K) (xs : List K) : maxOfK x0 xs ∈ x0 :: xs ∧ ∀ y ∈ x0 :: xs, y ≤ maxOfK x0 xs := by
  obtain ⟨h1, h2, h3⟩ := maxOf_aux xs x0
  refine ⟨?_, ?_⟩
  · rcases h1 with h | h
    · rw [h]; exact List.mem_cons_self
    · exact List.mem_cons_of_mem _ h
  · intro y hy
    rcases List.mem_cons.1 hy with h | h
    · rw [h]; exact h2
    · exact h3 y h

theorem minOf_le_maxOf (x0 : K) (xs : List K) : minOfK x0 xs ≤ maxOfK x0 xs :=
  (minOf_spec x0 xs).2 _ (maxOf_spec x0 xs).1

/-! ## argmin / last argmax of a sorted vector -/

theorem argBest_min_sorted (ys : List K) (i best : ℕ) (bv : K) (h : ∀ y ∈ ys, bv ≤ y) :
    argBestK (fun y m => @decide (@LT.lt K (fieldScalar K).toLT y m) ((fieldScalar K).decLt y m)) ys i best bv = best := by
  induction ys generalizing i with
  | nil => rfl
  | cons y ys ih =>
    have hy : ¬ y < bv := not_lt.2 (h y List.mem_cons_self)
    simp only [argBest, sc_lt, hy, decide_false, Bool.false_eq_true, if_false]
    exact ih (i+1) (fun z hz => h z (List.mem_cons_of_mem _ hz))

theorem argmin_sorted (b0 : K) (bs : List K) (h : ∀ y ∈ bs, b0 ≤ y) : argminK b0 bs = 0 :=
  argBest_min_sorted bs 1 0 b0 h

theorem argBest_max_sorted (ys : List K) (i best : ℕ) (bv : K) (h : (bv :: ys).Pairwise (· ≤ ·)) :
    argBestK (fun y m => @decide (@LE.le K (fieldScalar K).toLE m y) ((fieldScalar K).decLe m y)) ys i best bv
      = if ys = [] then best else i + ys.length - 1 := by
  induction ys generalizing i best bv with
  | nil => rfl
  | cons y ys ih =>
    rw [List.pairwise_cons] at h
    have hy : bv ≤ y := h.1 y List.mem_cons_self
    simp only [argBest, sc_le, hy, decide_true, if_true]
    rw [ih (i+1) i y h.2]
    by_cases hys : ys = []
    · subst hys; simp
    · rw [if_neg hys, if_neg (by simp)]; simp only [List.length_cons]; omega

theorem argmax_sorted (b0 : K) (bs : List K) (h : (b0 :: bs).Pairwise (· ≤ ·)) : argmaxK b0 bs = bs.length := by
  unfold argmaxOf
  rw [argBest_max_sorted bs 1 0 b0 h]
  by_cases hbs : bs = []
  · subst hbs; rfl
  · rw [if_neg hbs]; omega

/-! ## even placement -/

theorem evenBkpt_eq (nb : ℕ) (temp s0 : K) : evenK nb temp s0 = (List.range nb).map (fun (i : ℕ) => (i : K) * temp + s0) := by
  simp only [evenBkpt, sc_mul, sc_add, scalar_ofNat]

/-- `arange(nb)*temp + s0` with `temp ≥ 0`, `(nb-1)·temp = r`: `nb` non-decreasing values in `[s0, s0+r]` -/
theorem evenBkpt_facts (nb : ℕ) (temp s0 r : K) (ht : 0 ≤ temp) (hr : ((nb - 1 : ℕ) : K) * temp = r) :
    (evenK nb temp s0).length = nb ∧ (evenK nb temp s0).Pairwise (· ≤ ·) ∧
    ∀ v ∈ evenK nb temp s0, s0 ≤ v ∧ v ≤ s0 + r := by
  rw [evenBkpt_eq]
  refine ⟨by simp, ?_, ?_⟩
  · rw [List.pairwise_map]
    refine List.Pairwise.imp_of_mem (fun {a b} _ _ hab => ?_) List.pairwise_lt_range
    have : (a : K) ≤ (b : K) := Nat.cast_le.2 (le_of_lt hab)
    have := mul_le_mul_of_nonneg_right this ht
    linarith
  · intro v hv
    simp only [List.mem_map, List.mem_range] at hv
    obtain ⟨i, hi, rfl⟩ := hv
    have h0 : (0 : K) ≤ (i : K) * temp := mul_nonneg (Nat.cast_nonneg _) ht
    have h1 : (i : K) ≤ ((nb - 1 : ℕ) : K) := Nat.cast_le.2 (by omega)
    have h2 := mul_le_mul_of_nonneg_right h1 ht
    rw [hr] at h2
    constructor <;> linarith

/-! ## min/max patching -/

/-- every list with at least two entries is `first :: (middle ++ [last])` -/
theorem exists_ends {β : Type} (b : List β) (h : 2 ≤ b.length) : ∃ b0 mid bl, b = b0 :: (mid ++ [bl]) := by
  match b, h with
  | b0 :: tl, h =>
    have htl : tl ≠ [] := by intro h'; subst h'; simp at h
    exact ⟨b0, tl.dropLast, tl.getLast htl, by rw [List.dropLast_append_getLast htl]⟩

/-- **padBkpt_eq**: on a sorted breakpoint vector `b0 :: mid ++ [bl]` (exact arithmetic) the constructor patches
the first entry to `min b0 xmin`, the last one to `max bl xmax` and pads with the spacing of the first two -/
theorem padBkpt_eq (nord : ℕ) (spread xmin xmax b0 bl : K) (mid : List K) (f32 : Bool)
    (hs : (b0 :: (mid ++ [bl])).Pairwise (· ≤ ·)) :
    padBkptK id nord spread xmin xmax (b0 :: (mid ++ [bl])) f32 =
      .ok (padK id id nord (((min b0 xmin :: (mid ++ [max bl xmax])).getD 1 b0 - min b0 xmin) * spread)
        (min b0 xmin) (max bl xmax) (min b0 xmin :: (mid ++ [max bl xmax]))) := by
  have hmin : argminK b0 (mid ++ [bl]) = 0 := argmin_sorted b0 _ (List.pairwise_cons.1 hs).1
  have hmax : argmaxK b0 (mid ++ [bl]) = mid.length + 1 := by rw [argmax_sorted b0 _ hs]; simp
  have hb1 : (if xmin < b0 then (b0 :: (mid ++ [bl])).set 0 xmin else b0 :: (mid ++ [bl]))
      = min b0 xmin :: (mid ++ [bl]) := by
    by_cases h : xmin < b0
    · rw [if_pos h, min_eq_right h.le]; rfl
    · rw [if_neg h, min_eq_left (not_lt.1 h)]
  have hget : (min b0 xmin :: (mid ++ [bl])).getD (mid.length + 1) b0 = bl := by simp
  have hb2 : (if bl < xmax then (min b0 xmin :: (mid ++ [bl])).set (mid.length + 1) xmax
      else min b0 xmin :: (mid ++ [bl])) = min b0 xmin :: (mid ++ [max bl xmax]) := by
    by_cases h : bl < xmax
    · rw [if_pos h, max_eq_right h.le]; simp
    · rw [if_neg h, max_eq_left (not_lt.1 h)]
  simp only [padBkpt, hmin, hmax, ite_self, id, List.getD_cons_zero, sc_lt, hb1, hget, hb2, sc_sub, sc_mul]
  simp
  rfl

end PydlVerif.C08

/-
C09 helper lemmas: Marsden's identity for the Cox-de Boor pieces of Model/BSpline.lean (`coxDeBoorAt`, which is
what `bsplvn` computes: C08 `bsplvn_eq_coxDeBoorAt`) and its consequence that the B-splines of order `k` on ANY
non-decreasing knot vector reproduce every polynomial of degree `< k`, with coefficients that do not depend on the
knot interval (the normalised elementary symmetric functions of `t[j+1..j+k-1]`; degree 1: the Greville abscissae).
-/
import PydlVerif.Props.C08
import Mathlib.Algebra.Polynomial.Roots
import Mathlib.Algebra.Polynomial.Coeff
import Mathlib.Algebra.Polynomial.Eval.Degree
import Mathlib.Algebra.BigOperators.Intervals
import Mathlib.Algebra.Order.Ring.Nat
import Mathlib.Data.Nat.Choose.Basic
namespace PydlVerif.C09
open PydlVerif PydlVerif.BSpline Finset

set_option linter.unusedSectionVars false
variable {K : Type} [Field K] [LinearOrder K] [IsStrictOrderedRing K] [FloorRing K]

local notation "cdbAtK" => @coxDeBoorAt _ (fieldScalar _)
local notation "WK" => @cdbW _ (fieldScalar _)
local notation "W'K" => @cdbW' _ (fieldScalar _)
local notation "splineAtK" => @splineAt _ (fieldScalar _)
local notation "intrvOfK" => @intrvOf _ (fieldScalar _)

/-- the dual polynomial of Marsden's identity: `ψ_{j,k}(τ) = Π_{r=1}^{k-1} (t_{j+r} - τ)` (here with `k-1 = m`) -/
def dualPsi (t : ℕ → K) (m j : ℕ) (τ : K) : K := ∏ r ∈ range m, (t (j + 1 + r) - τ)

theorem cdbAt_one (t : ℕ → K) (i j : ℕ) (x : K) : cdbAtK t i 1 j x = if j = i then 1 else 0 := by
  simp only [coxDeBoorAt]
  split
  · exact C08.sc_one
  · exact C08.sc_zero

/-- **Marsden's identity** (order `m+1`, on the knot interval `i`, sum over any index range `N > i`): for knots that are
non-decreasing on the `2m` knots around a non-empty interval `t_i < t_{i+1}`,
`Σ_j Π_{r=1}^{m} (t_{j+r} - τ) · B_{j,m+1}(x) = (x - τ)^m` for every `x` and `τ` -/
theorem marsden (t : ℕ → K) (i N : ℕ) (x τ : K) (hiN : i < N) (hstrict : t i < t (i+1)) :
    ∀ m, m ≤ i → (∀ a b, a ≤ b → b ≤ i + m → t a ≤ t b) →
      ∑ j ∈ range N, dualPsi t m j τ * cdbAtK t i (m+1) j x = (x - τ) ^ m := by
  intro m
  induction m with
  | zero =>
    intro _ _
    simp only [dualPsi, Finset.range_zero, Finset.prod_empty, one_mul, pow_zero, Nat.zero_add, cdbAt_one]
    rw [Finset.sum_ite_eq' (range N) i (fun _ => (1 : K)), if_pos (Finset.mem_range.2 hiN)]
  | succ k ih =>
    intro hk hmono
    have hIH := ih (by omega) (fun a b hab hb => hmono a b hab (by omega))
    -- the order-(k+1) pieces
    obtain ⟨A, hA⟩ : ∃ A : ℕ → K, A = fun j => cdbAtK t i (k+1) j x := ⟨_, rfl⟩
    have hA0 : A 0 = 0 := by rw [hA]; exact C08.cdbAt_zero_left t i x (k+1) 0 (by omega)
    have hAN : A N = 0 := by rw [hA]; exact C08.cdbAt_zero_right t i x (k+1) N hiN
    have hrec : ∀ j, cdbAtK t i (k+1+1) j x = WK t j (k+1) x * A j + W'K t (j+1) (k+1) x * A (j+1) := by
      intro j; rw [hA]; exact C08.cdbAt_succ2 t i k j x
    simp_rw [hrec, mul_add]
    rw [Finset.sum_add_distrib]
    -- shift the second sum
    have hshift : ∑ j ∈ range N, dualPsi t (k+1) j τ * (W'K t (j+1) (k+1) x * A (j+1))
        = ∑ j ∈ range N, dualPsi t (k+1) (j-1) τ * (W'K t j (k+1) x * A j) := by
      have h1 := Finset.sum_range_succ' (fun j => dualPsi t (k+1) (j-1) τ * (W'K t j (k+1) x * A j)) N
      have h2 := Finset.sum_range_succ (fun j => dualPsi t (k+1) (j-1) τ * (W'K t j (k+1) x * A j)) N
      rw [h2, hAN, hA0] at h1
      simp only [mul_zero, add_zero, Nat.add_sub_cancel] at h1
      exact h1.symm
    rw [hshift, ← Finset.sum_add_distrib, pow_succ, ← hIH, Finset.sum_mul]
    apply Finset.sum_congr rfl
    intro j _
    have hAj' : cdbAtK t i (k+1) j x = A j := by rw [hA]
    rw [hAj']
    by_cases hAj : A j = 0
    · rw [hAj]; ring
    · have hji : j ≤ i := by
        by_contra hc
        exact hAj (by rw [hA]; exact C08.cdbAt_zero_right t i x (k+1) j (by omega))
      have hij : i < j + (k+1) := by
        by_contra hc
        exact hAj (by rw [hA]; exact C08.cdbAt_zero_left t i x (k+1) j (by omega))
      have hj1 : 1 ≤ j := by omega
      have hlt : t j < t (j + (k+1)) :=
        lt_of_le_of_lt (hmono j i hji (by omega)) (lt_of_lt_of_le hstrict (hmono (i+1) (j+(k+1)) (by omega) (by omega)))
      rw [C08.W_pos t j (k+1) x hlt, C08.W'_pos t j (k+1) x hlt]
      have hD : t (j + (k+1)) - t j ≠ 0 := ne_of_gt (sub_pos.2 hlt)
      have e1 : dualPsi t (k+1) j τ = dualPsi t k j τ * (t (j + (k+1)) - τ) := by
        unfold dualPsi
        rw [Finset.prod_range_succ, show j + 1 + k = j + (k+1) by omega]
      have e2 : dualPsi t (k+1) (j-1) τ = dualPsi t k j τ * (t j - τ) := by
        unfold dualPsi
        rw [Finset.prod_range_succ', show j - 1 + 1 + 0 = j by omega]
        congr 1
        apply Finset.prod_congr rfl
        intro r _
        rw [show j + (r + 1) = j + 1 + r by omega]
      rw [e1, e2]
      field_simp
      ring

open Polynomial in
/-- the dual polynomial in the variable `s = -τ`: `Π_{r=1}^{m} (X + t_{j+r})` -/
noncomputable def dualPoly (t : ℕ → K) (m j : ℕ) : K[X] := ∏ r ∈ range m, (X + C (t (j + 1 + r)))

open Polynomial in
theorem dualPoly_eval (t : ℕ → K) (m j : ℕ) (s : K) : (dualPoly t m j).eval s = dualPsi t m j (-s) := by
  unfold dualPoly dualPsi
  rw [Polynomial.eval_prod]
  apply Finset.prod_congr rfl
  intro r _
  simp only [eval_add, eval_X, eval_C]
  ring

/-- coefficient `j` of the monomial `x^d` in the B-spline basis of order `m+1`: the elementary symmetric function of
degree `d` of the knots `t[j+1..j+m]` divided by `C(m, d)` (`d = 0`: 1; `d = 1`: the Greville abscissa
`(t[j+1] + … + t[j+m]) / m`) -/
noncomputable def monoCoeff (t : ℕ → K) (m d j : ℕ) : K :=
  (dualPoly t m j).coeff (m - d) / (m.choose (m - d) : K)

open Polynomial in
/-- **monomial reproduction**: `Σ_j monoCoeff_j · B_{j,m+1}(x) = x^d` for every degree `d ≤ m` (Marsden's identity
read coefficientwise in `τ`) -/
theorem monomial_reproduction (t : ℕ → K) (i N : ℕ) (x : K) (hiN : i < N) (hstrict : t i < t (i+1)) (m : ℕ) (hm : m ≤ i)
    (hmono : ∀ a b, a ≤ b → b ≤ i + m → t a ≤ t b) (d : ℕ) (hd : d ≤ m) :
    ∑ j ∈ range N, monoCoeff t m d j * cdbAtK t i (m+1) j x = x ^ d := by
  have : Infinite K := Infinite.of_injective (Nat.cast : ℕ → K) Nat.cast_injective
  have hpoly : ∑ j ∈ range N, dualPoly t m j * C (cdbAtK t i (m+1) j x) = (X + C x) ^ m := by
    apply Polynomial.funext
    intro s
    rw [Polynomial.eval_finset_sum]
    simp only [eval_mul, eval_C, eval_pow, eval_add, eval_X, dualPoly_eval]
    rw [marsden t i N x (-s) hiN hstrict m hm hmono]
    ring
  have hc := congrArg (fun p => p.coeff (m - d)) hpoly
  simp only [Polynomial.finset_sum_coeff, coeff_mul_C, coeff_X_add_C_pow] at hc
  rw [show m - (m - d) = d by omega] at hc
  have hch : ((m.choose (m - d) : ℕ) : K) ≠ 0 := by
    have : 0 < m.choose (m - d) := Nat.choose_pos (by omega)
    exact_mod_cast (Nat.pos_iff_ne_zero.1 this)
  unfold monoCoeff
  have : ∑ j ∈ range N, (dualPoly t m j).coeff (m - d) / (m.choose (m - d) : K) * cdbAtK t i (m+1) j x
      = (∑ j ∈ range N, (dualPoly t m j).coeff (m - d) * cdbAtK t i (m+1) j x) * ((m.choose (m - d) : K))⁻¹ := by
    rw [Finset.sum_mul]
    apply Finset.sum_congr rfl
    intro j _
    ring
  rw [this, hc]
  field_simp

open Polynomial in
/-- the B-spline coefficients of a polynomial `q` of degree `< m+1` (order `m+1`) -/
noncomputable def polyCoeff (t : ℕ → K) (m : ℕ) (q : K[X]) (j : ℕ) : K :=
  ∑ d ∈ range (m+1), q.coeff d * monoCoeff t m d j

open Polynomial in
/-- **polynomial reproduction** (pieces): `Σ_j polyCoeff_j · B_{j,m+1}(x) = q(x)` for every polynomial `q` of degree `≤ m`,
on every non-empty knot interval `i ≥ m` of a knot vector that is non-decreasing around it - the coefficients do not
depend on `i` or `x` -/
theorem poly_in_span (t : ℕ → K) (i N : ℕ) (x : K) (hiN : i < N) (hstrict : t i < t (i+1)) (m : ℕ) (hm : m ≤ i)
    (hmono : ∀ a b, a ≤ b → b ≤ i + m → t a ≤ t b) (q : K[X]) (hq : q.natDegree ≤ m) :
    ∑ j ∈ range N, polyCoeff t m q j * cdbAtK t i (m+1) j x = q.eval x := by
  unfold polyCoeff
  simp_rw [Finset.sum_mul]
  rw [Finset.sum_comm, Polynomial.eval_eq_sum_range' (n := m+1) (by omega) x]
  apply Finset.sum_congr rfl
  intro d hd
  rw [Finset.mem_range] at hd
  simp_rw [mul_assoc]
  rw [← Finset.mul_sum, monomial_reproduction t i N x hiN hstrict m hm hmono d (by omega)]

theorem list_sum_range (f : ℕ → K) (n : ℕ) : ((List.range n).map f).sum = ∑ i ∈ range n, f i := by
  induction n with
  | zero => simp
  | succ n ih => rw [List.range_succ, List.map_append, List.sum_append, ih, Finset.sum_range_succ]; simp

open Polynomial in
/-- **spline_of_poly**: on a non-decreasing knot vector `t[0..n+k-1]` with `t[k-1] < t[k]`, the spline that `value`
evaluates (C08 `splineAt`) with the coefficients `polyCoeff t (k-1) q` IS the polynomial `q` (degree `< k`) at every
point of the breakpoint range `[t[k-1], t[n]]` -/
theorem spline_of_poly (t : ℕ → K) (k n : ℕ) (hk : 1 ≤ k) (hkn : k ≤ n)
    (hmono : ∀ a b, a ≤ b → b ≤ n + k - 1 → t a ≤ t b) (hfirst : t (k-1) < t k)
    (q : K[X]) (hq : q.natDegree < k) (x : K) (hlo : t (k-1) ≤ x) (hhi : x ≤ t n) :
    splineAtK t (polyCoeff t (k-1) q) k n x = q.eval x := by
  rw [C08.splineAt_eq_coxDeBoorAt t _ k n x hk hkn hmono hfirst hlo hhi, list_sum_range]
  obtain ⟨h1, h2, _, _, h5⟩ := C08.intrv_bracket t k n x hk hkn hlo hhi
  have := poly_in_span t (intrvOfK t k n x) n x (by omega) (h5 hfirst) (k-1) h1
    (fun a b hab hb => hmono a b hab (by omega)) q (by omega)
  rw [show k - 1 + 1 = k by omega] at this
  exact this

end PydlVerif.C09

/-
C08 helper lemmas (core Lean only): the `uniq`-based bookkeeping of `bspline.action`
(`uniqIdx`, `scatter`, `lowerUpper` of Model/BSpline.lean) on a non-decreasing vector of
interval indices: `lower[i]` is the first and `upper[i]` the last position whose index is
`i+k-1`; an interval without a point keeps the initial values `lower = 0`, `upper = -1`.
-/
import PydlVerif.Model.BSpline
namespace PydlVerif.C08
open PydlVerif PydlVerif.BSpline

/-! ## uniq -/

/-- on a vector that is constant as soon as its two ends agree (in particular on a monotone one)
`uniq` returns the positions that end a run of equal values -/
theorem mem_uniqIdx (q : Array Nat) (hn : 0 < q.size)
    (hends : q[0]! = q[q.size - 1]! → ∀ i, i < q.size → q[i]! = q[0]!) (a : Nat) :
    a ∈ uniqIdx q ↔ a < q.size ∧ (a = q.size - 1 ∨ q[a]! ≠ q[a+1]!) := by
  unfold uniqIdx
  simp only
  split
  · rename_i hemp
    rw [List.isEmpty_iff, List.filter_eq_nil_iff] at hemp
    simp only [List.mem_singleton]
    constructor
    · intro h; subst h; exact ⟨by omega, Or.inl rfl⟩
    · rintro ⟨h1, h2 | h2⟩
      · exact h2
      · by_cases ha : a = q.size - 1
        · exact ha
        · exfalso
          have := hemp a (List.mem_range.2 h1)
          have hmod : (a+1) % q.size = a+1 := Nat.mod_eq_of_lt (by omega)
          simp [hmod] at this
          exact h2 this
  · rename_i hne
    rw [List.mem_filter, List.mem_range]
    constructor
    · rintro ⟨h1, h2⟩
      refine ⟨h1, ?_⟩
      by_cases ha : a = q.size - 1
      · exact Or.inl ha
      · right
        have hmod : (a+1) % q.size = a+1 := Nat.mod_eq_of_lt (by omega)
        simpa [hmod] using h2
    · rintro ⟨h1, h2⟩
      refine ⟨h1, ?_⟩
      by_cases ha : a = q.size - 1
      · -- the last position is kept because the vector is not constant
        subst ha
        have hmod : (q.size - 1 + 1) % q.size = 0 := by
          rw [show q.size - 1 + 1 = q.size by omega]; exact Nat.mod_self _
        simp only [hmod, bne_iff_ne, ne_eq]
        intro heq
        apply hne
        rw [List.isEmpty_iff, List.filter_eq_nil_iff]
        intro i hi
        rw [List.mem_range] at hi
        have h1 := hends heq.symm i hi
        have h2 := hends heq.symm ((i+1) % q.size) (Nat.mod_lt _ hn)
        simp [h1, h2]
      · have hmod : (a+1) % q.size = a+1 := Nat.mod_eq_of_lt (by omega)
        rcases h2 with h2 | h2
        · exact absurd h2 ha
        · simpa [hmod] using h2


/-! ## scatter -/

theorem scatter_map (arr : Array Int) (l : List Nat) (f : Nat → Nat) (g : Nat → Int) :
    scatter arr (l.map f) (l.map g) = l.foldl (fun a x => a.setIfInBounds (f x) (g x)) arr := by
  unfold scatter
  rw [List.zip_map', List.foldl_map]

theorem foldl_set_size (l : List Nat) (f : Nat → Nat) (g : Nat → Int) (arr : Array Int) :
    (l.foldl (fun a x => a.setIfInBounds (f x) (g x)) arr).size = arr.size := by
  induction l generalizing arr with
  | nil => rfl
  | cons x l ih => rw [List.foldl_cons, ih, Array.size_setIfInBounds]

theorem foldl_set_miss (l : List Nat) (f : Nat → Nat) (g : Nat → Int) (arr : Array Int) (j : Nat)
    (h : ∀ a ∈ l, f a ≠ j) : (l.foldl (fun a x => a.setIfInBounds (f x) (g x)) arr)[j]! = arr[j]! := by
  induction l generalizing arr with
  | nil => rfl
  | cons x l ih =>
    rw [List.foldl_cons, ih _ (fun a ha => h a (List.mem_cons_of_mem _ ha))]
    have := h x (List.mem_cons_self)
    rw [getElem!_def, getElem!_def, Array.getElem?_setIfInBounds_ne this]

theorem foldl_set_hit (l : List Nat) (f : Nat → Nat) (g : Nat → Int) (arr : Array Int) (j : Nat) (w : Int)
    (hj : j < arr.size) (hex : ∃ a ∈ l, f a = j) (hall : ∀ a ∈ l, f a = j → g a = w) :
    (l.foldl (fun a x => a.setIfInBounds (f x) (g x)) arr)[j]! = w := by
  induction l generalizing arr with
  | nil => obtain ⟨a, ha, _⟩ := hex; cases ha
  | cons x l ih =>
    rw [List.foldl_cons]
    by_cases hl : ∃ a ∈ l, f a = j
    · exact ih _ (by rw [Array.size_setIfInBounds]; exact hj) hl (fun a ha => hall a (List.mem_cons_of_mem _ ha))
    · rw [foldl_set_miss l f g _ j (fun a ha hfa => hl ⟨a, ha, hfa⟩)]
      obtain ⟨a, ha, hfa⟩ := hex
      rcases List.mem_cons.1 ha with h | h
      · subst h
        have := hall a List.mem_cons_self hfa
        rw [hfa, getElem!_def, Array.getElem?_setIfInBounds_self_of_lt hj, this]
      · exact absurd ⟨a, h, hfa⟩ hl


/-! ## scatter over the run ends of a vector whose runs of equal values are contiguous -/

/-- runs of equal values are contiguous (holds for monotone vectors of either direction) -/
def Contig (q : Array Nat) : Prop :=
  ∀ a c b, a ≤ c → c ≤ b → b < q.size → q[a]! = q[b]! → q[c]! = q[a]!

/-- position `b` ends a run -/
def RunEnd (q : Array Nat) (b : Nat) : Prop := b < q.size ∧ (b = q.size - 1 ∨ q[b]! ≠ q[b+1]!)

theorem mem_uniqIdx_contig (q : Array Nat) (hn : 0 < q.size) (hc : Contig q) (a : Nat) :
    a ∈ uniqIdx q ↔ RunEnd q a :=
  mem_uniqIdx q hn (fun h i hi => by
    have := hc 0 i (q.size - 1) (Nat.zero_le _) (by omega) (by omega) h
    exact this) a

theorem runEnd_unique (q : Array Nat) (hc : Contig q) (a b : Nat) (ha : RunEnd q a) (hb : RunEnd q b)
    (h : q[a]! = q[b]!) : a = b := by
  rcases Nat.lt_trichotomy a b with hab | hab | hab
  · exfalso
    rcases ha.2 with h1 | h1
    · have := hb.1; omega
    · exact h1 (hc a (a+1) b (by omega) (by omega) hb.1 h).symm
  · exact hab
  · exfalso
    rcases hb.2 with h1 | h1
    · have := ha.1; omega
    · exact h1 (hc b (b+1) a (by omega) (by omega) ha.1 h.symm).symm

/-- `arr[F q[aa]] = g aa` for `aa = uniq q`: the slot of the value of a run receives `g` of the
position that ends the run -/
theorem scatter_runEnd_hit (q : Array Nat) (hn : 0 < q.size) (hc : Contig q) (F : Nat → Nat) (g : Nat → Int)
    (arr : Array Int) (hinj : ∀ a b, a < q.size → b < q.size → F q[a]! = F q[b]! → q[a]! = q[b]!)
    (b : Nat) (hb : RunEnd q b) (hslot : F q[b]! < arr.size) :
    (scatter arr ((uniqIdx q).map (fun a => F q[a]!)) ((uniqIdx q).map g))[F q[b]!]! = g b := by
  rw [scatter_map]
  apply foldl_set_hit _ _ _ _ _ _ hslot ⟨b, (mem_uniqIdx_contig q hn hc b).2 hb, rfl⟩
  intro a ha hFa
  have ha' := (mem_uniqIdx_contig q hn hc a).1 ha
  rw [runEnd_unique q hc a b ha' hb (hinj a b ha'.1 hb.1 hFa)]

theorem scatter_runEnd_miss (q : Array Nat) (hn : 0 < q.size) (hc : Contig q) (F : Nat → Nat) (g : Nat → Int)
    (arr : Array Int) (j : Nat) (hj : ∀ p, p < q.size → F q[p]! ≠ j) :
    (scatter arr ((uniqIdx q).map (fun a => F q[a]!)) ((uniqIdx q).map g))[j]! = arr[j]! := by
  rw [scatter_map]
  apply foldl_set_miss
  intro a ha
  exact hj a ((mem_uniqIdx_contig q hn hc a).1 ha).1

theorem scatter_size (arr : Array Int) (l : List Nat) (f : Nat → Nat) (g : Nat → Int) :
    (scatter arr (l.map f) (l.map g)).size = arr.size := by
  rw [scatter_map, foldl_set_size]

/-- every position lies in a run that ends somewhere at or after it -/
theorem exists_runEnd (q : Array Nat) (p : Nat) (hp : p < q.size) :
    ∃ b, p ≤ b ∧ RunEnd q b ∧ q[b]! = q[p]! := by
  generalize hd : q.size - 1 - p = d
  induction d generalizing p with
  | zero => exact ⟨p, Nat.le_refl _, ⟨hp, Or.inl (by omega)⟩, rfl⟩
  | succ d ih =>
    by_cases h : q[p]! = q[p+1]!
    · obtain ⟨b, h1, h2, h3⟩ := ih (p+1) (by omega) (by omega)
      exact ⟨b, by omega, h2, by rw [h3, h]⟩
    · exact ⟨p, Nat.le_refl _, ⟨hp, Or.inr h⟩, rfl⟩

theorem reverse_get (q : Array Nat) (a : Nat) (h : a < q.size) : q.reverse[a]! = q[q.size - 1 - a]! := by
  rw [getElem!_pos q.reverse a (by simpa using h), Array.getElem_reverse, getElem!_pos]

theorem contig_of_sorted (q : Array Nat) (hs : ∀ a b, a ≤ b → b < q.size → q[a]! ≤ q[b]!) : Contig q := by
  intro a c b h1 h2 h3 h
  have := hs a c h1 (by omega)
  have := hs c b h2 h3
  omega

theorem contig_reverse (q : Array Nat) (hc : Contig q) : Contig q.reverse := by
  intro a c b h1 h2 h3 h
  rw [Array.size_reverse] at h3
  rw [reverse_get q a (by omega), reverse_get q b h3] at h
  rw [reverse_get q c (by omega), reverse_get q a (by omega)]
  have := hc (q.size - 1 - b) (q.size - 1 - c) (q.size - 1 - a) (by omega) (by omega) (by omega) h.symm
  rw [this, h]

/-! ## lower / upper of `action` -/

/-- what the model's `lowerUpper` (the `uniq` bookkeeping of `action`) returns on a non-decreasing vector
of interval indices with values in `k-1 .. n-1`:
* `upper[v+1-k] = b` for the position `b` that ends the run of value `v`,
* `lower[v+1-k] = a` for the position `a` that starts it,
* an interval `i` that holds no point keeps `lower[i] = 0`, `upper[i] = -1` (an empty range). -/
theorem lowerUpper_spec (k n : Nat) (indx : Array Nat) (hk : 1 ≤ k) (hkn : k ≤ n) (hnx : 0 < indx.size)
    (hs : ∀ a b, a ≤ b → b < indx.size → indx[a]! ≤ indx[b]!)
    (hr : ∀ a, a < indx.size → k - 1 ≤ indx[a]! ∧ indx[a]! + 1 ≤ n) :
    (lowerUpper k n indx).1.size = n - k + 1 ∧ (lowerUpper k n indx).2.size = n - k + 1 ∧
    (∀ b, b < indx.size → (b = indx.size - 1 ∨ indx[b]! ≠ indx[b+1]!) →
      (lowerUpper k n indx).2[indx[b]! + 1 - k]! = (b : Int)) ∧
    (∀ a, a < indx.size → (a = 0 ∨ indx[a-1]! ≠ indx[a]!) →
      (lowerUpper k n indx).1[indx[a]! + 1 - k]! = (a : Int)) ∧
    (∀ i, i < n - k + 1 → (∀ p, p < indx.size → indx[p]! + 1 - k ≠ i) →
      (lowerUpper k n indx).1[i]! = 0 ∧ (lowerUpper k n indx).2[i]! = -1) := by
  have hc := contig_of_sorted indx hs
  have hcr := contig_reverse indx hc
  have hrs : 0 < indx.reverse.size := by rw [Array.size_reverse]; exact hnx
  simp only [lowerUpper]
  refine ⟨by rw [scatter_size, Array.size_replicate], by rw [scatter_size, Array.size_replicate], ?_, ?_, ?_⟩
  · intro b hb hend
    have := scatter_runEnd_hit indx hnx hc (fun v => v + 1 - k) (fun (a : Nat) => (a : Int))
      (Array.replicate (n - k + 1) (-1))
      (by intro a b ha hb h; have := hr a ha; have := hr b hb; omega)
      b ⟨hb, hend⟩ (by rw [Array.size_replicate]; have := hr b hb; omega)
    exact this
  · intro a ha hstart
    have hra : indx.reverse[indx.size - 1 - a]! = indx[a]! := by
      rw [reverse_get indx _ (by omega)]; congr 1; omega
    have := scatter_runEnd_hit indx.reverse hrs hcr (fun v => v + 1 - k)
      (fun (a : Nat) => (indx.size : Int) - (a : Int) - 1)
      (Array.replicate (n - k + 1) 0)
      (by
        intro a b ha hb h
        rw [Array.size_reverse] at ha hb
        rw [reverse_get indx a ha, reverse_get indx b hb] at h ⊢
        have := hr (indx.size - 1 - a) (by omega); have := hr (indx.size - 1 - b) (by omega)
        omega)
      (indx.size - 1 - a)
      ⟨by rw [Array.size_reverse]; omega, by
        have hsz : indx.reverse.size = indx.size := Array.size_reverse
        rcases hstart with h | h
        · left; omega
        · right
          have ha0 : 0 < a := by
            rcases Nat.eq_zero_or_pos a with h0 | h0
            · subst h0; exact absurd rfl h
            · exact h0
          rw [hra, reverse_get indx _ (by omega), show indx.size - 1 - (indx.size - 1 - a + 1) = a - 1 by omega]
          exact fun h' => h h'.symm⟩
      (by rw [Array.size_replicate, hra]; have := hr a ha; omega)
    simp only [hra] at this
    rw [this]; omega
  · intro i hi hnone
    constructor
    · have := scatter_runEnd_miss indx.reverse hrs hcr (fun v => v + 1 - k)
        (fun (a : Nat) => (indx.size : Int) - (a : Int) - 1) (Array.replicate (n - k + 1) 0) i
        (by
          intro p hp
          rw [Array.size_reverse] at hp
          rw [reverse_get indx p hp]
          exact hnone _ (by omega))
      rw [this, getElem!_pos _ _ (by rw [Array.size_replicate]; exact hi), Array.getElem_replicate]
    · have := scatter_runEnd_miss indx hnx hc (fun v => v + 1 - k) (fun (a : Nat) => (a : Int))
        (Array.replicate (n - k + 1) (-1)) i (fun p hp => hnone p hp)
      rw [this, getElem!_pos _ _ (by rw [Array.size_replicate]; exact hi), Array.getElem_replicate]


theorem exists_runStart (q : Array Nat) (p : Nat) :
    ∃ a, a ≤ p ∧ (a = 0 ∨ q[a-1]! ≠ q[a]!) ∧ q[a]! = q[p]! := by
  induction p with
  | zero => exact ⟨0, Nat.le_refl _, Or.inl rfl, rfl⟩
  | succ p ih =>
    by_cases h : q[p]! = q[p+1]!
    · obtain ⟨a, h1, h2, h3⟩ := ih
      exact ⟨a, by omega, h2, by rw [h3, h]⟩
    · exact ⟨p+1, Nat.le_refl _, Or.inr h, rfl⟩

theorem toArray_get (l : List Nat) (a : Nat) : l.toArray[a]! = l.getD a 0 := by
  rw [getElem!_def, List.getElem?_toArray, List.getD_eq_getElem?_getD]
  cases l[a]? <;> rfl

/-- what `action` is meant to deliver in `lower`/`upper`: rows `lower[i]..upper[i]` (of the sorted
points) are exactly the rows whose point lies in knot interval `i+k-1` -/
def RowsOf (lower upper : Array Int) (indx : List Nat) (k m : Nat) : Prop :=
  ∀ p, p < indx.length → ∀ i, i < m →
    ((lower[i]! ≤ (p:Int) ∧ (p:Int) ≤ upper[i]!) ↔ i = indx.getD p 0 + 1 - k)

section rows
variable (k n : Nat) (indx : List Nat) (hk : 1 ≤ k) (hkn : k ≤ n) (hne : indx ≠ [])
  (hs : indx.Pairwise (· ≤ ·)) (hr : ∀ v ∈ indx, k - 1 ≤ v ∧ v + 1 ≤ n)
include hk hkn hne hs hr

theorem lowerUpper_spec_list :
    let lu := lowerUpper k n indx.toArray
    (∀ b, b < indx.length → (b = indx.length - 1 ∨ indx.getD b 0 ≠ indx.getD (b+1) 0) →
      lu.2[indx.getD b 0 + 1 - k]! = (b : Int)) ∧
    (∀ a, a < indx.length → (a = 0 ∨ indx.getD (a-1) 0 ≠ indx.getD a 0) →
      lu.1[indx.getD a 0 + 1 - k]! = (a : Int)) ∧
    (∀ i, i < n - k + 1 → (∀ p, p < indx.length → indx.getD p 0 + 1 - k ≠ i) →
      lu.1[i]! = 0 ∧ lu.2[i]! = -1) ∧
    (∀ a b, a ≤ b → b < indx.length → indx.getD a 0 ≤ indx.getD b 0) ∧
    (∀ a, a < indx.length → k - 1 ≤ indx.getD a 0 ∧ indx.getD a 0 + 1 ≤ n) := by
  have hsz : indx.toArray.size = indx.length := List.size_toArray
  have hs' : ∀ a b, a ≤ b → b < indx.length → indx.getD a 0 ≤ indx.getD b 0 := by
    intro a b hab hb
    rcases Nat.eq_or_lt_of_le hab with h | h
    · rw [h]; exact Nat.le_refl _
    · rw [List.getD_eq_getElem?_getD, List.getD_eq_getElem?_getD, List.getElem?_eq_getElem (by omega),
        List.getElem?_eq_getElem hb]
      exact List.pairwise_iff_getElem.1 hs a b (by omega) hb h
  have hr' : ∀ a, a < indx.length → k - 1 ≤ indx.getD a 0 ∧ indx.getD a 0 + 1 ≤ n := by
    intro a ha
    rw [List.getD_eq_getElem?_getD, List.getElem?_eq_getElem ha]
    exact hr _ (List.getElem_mem ha)
  have hpos : 0 < indx.length := List.length_pos_iff.2 hne
  obtain ⟨_, _, h3, h4, h5⟩ := lowerUpper_spec k n indx.toArray hk hkn (by omega)
    (by intro a b hab hb; rw [toArray_get, toArray_get]; exact hs' a b hab (by omega))
    (by intro a ha; rw [toArray_get]; exact hr' a (by omega))
  simp only [toArray_get, hsz] at h3 h4 h5
  exact ⟨h3, h4, h5, hs', hr'⟩

/-- **rowsOf_action**: on the (non-decreasing, in-range) interval indices of sorted points the `uniq`
bookkeeping of `action` delivers exactly the rows of each interval -/
theorem rowsOf_lowerUpper :
    RowsOf (lowerUpper k n indx.toArray).1 (lowerUpper k n indx.toArray).2 indx k (n - k + 1) := by
  obtain ⟨hU, hL, hE, hs', hr'⟩ := lowerUpper_spec_list k n indx hk hkn hne hs hr
  have hget : ∀ a, indx.toArray[a]! = indx.getD a 0 := toArray_get indx
  have hsz : indx.toArray.size = indx.length := List.size_toArray
  intro p hp i hi
  -- first and last position of the run of `p`
  obtain ⟨b, hpb, hbend, hbv⟩ := exists_runEnd indx.toArray p (by omega)
  obtain ⟨a, hap, hastart, hav⟩ := exists_runStart indx.toArray p
  simp only [RunEnd, hget, hsz] at hbend hbv hastart hav
  have hu := hU b hbend.1 hbend.2
  have hl := hL a (by omega) hastart
  rw [hbv] at hu; rw [hav] at hl
  constructor
  · intro hrange
    by_cases hex : ∃ p', p' < indx.length ∧ indx.getD p' 0 + 1 - k = i
    · obtain ⟨p', hp', hv'⟩ := hex
      obtain ⟨b', hpb', hbend', hbv'⟩ := exists_runEnd indx.toArray p' (by omega)
      obtain ⟨a', hap', hastart', hav'⟩ := exists_runStart indx.toArray p'
      simp only [RunEnd, hget, hsz] at hbend' hbv' hastart' hav'
      have hu' := hU b' hbend'.1 hbend'.2
      have hl' := hL a' (by omega) hastart'
      rw [hbv', hv'] at hu'; rw [hav', hv'] at hl'
      rw [hu', hl'] at hrange
      have h1 := hs' a' p (by omega) hp
      have h2 := hs' p b' (by omega) hbend'.1
      rw [hav'] at h1; rw [hbv'] at h2
      have : indx.getD p 0 = indx.getD p' 0 := Nat.le_antisymm h2 h1
      rw [this, hv']
    · have := (hE i hi (fun p' hp' hv' => hex ⟨p', hp', hv'⟩)).2
      rw [this] at hrange
      omega
  · intro hi'
    rw [hi', hu, hl]
    omega

/-- **lowerUpper_first_last**: when some point lies in interval `i+k-1`, `lower[i]` is the first and
`upper[i]` the last position with that interval index; otherwise the range is empty (`0 .. -1`) -/
theorem lowerUpper_first_last (i : Nat) (hi : i < n - k + 1) :
    let lu := lowerUpper k n indx.toArray
    ((∃ p, p < indx.length ∧ indx.getD p 0 = i + k - 1) →
      ∃ a b : Nat, lu.1[i]! = (a : Int) ∧ lu.2[i]! = (b : Int) ∧ a ≤ b ∧ b < indx.length ∧
        indx.getD a 0 = i + k - 1 ∧ indx.getD b 0 = i + k - 1 ∧
        ∀ p, p < indx.length → indx.getD p 0 = i + k - 1 → a ≤ p ∧ p ≤ b) ∧
    ((∀ p, p < indx.length → indx.getD p 0 ≠ i + k - 1) → lu.1[i]! = 0 ∧ lu.2[i]! = -1 ∧ lu.2[i]! < lu.1[i]!) := by
  obtain ⟨hU, hL, hE, hs', hr'⟩ := lowerUpper_spec_list k n indx hk hkn hne hs hr
  have hrows := rowsOf_lowerUpper k n indx hk hkn hne hs hr
  have hget : ∀ a, indx.toArray[a]! = indx.getD a 0 := toArray_get indx
  have hsz : indx.toArray.size = indx.length := List.size_toArray
  constructor
  · rintro ⟨p, hp, hv⟩
    obtain ⟨b, hpb, hbend, hbv⟩ := exists_runEnd indx.toArray p (by omega)
    obtain ⟨a, hap, hastart, hav⟩ := exists_runStart indx.toArray p
    simp only [RunEnd, hget, hsz] at hbend hbv hastart hav
    have hu := hU b hbend.1 hbend.2
    have hl := hL a (by omega) hastart
    have hik : i + k - 1 + 1 - k = i := by omega
    rw [hbv, hv, hik] at hu; rw [hav, hv, hik] at hl
    refine ⟨a, b, hl, hu, by omega, hbend.1, by rw [hav, hv], by rw [hbv, hv], ?_⟩
    intro p' hp' hv'
    have := (hrows p' hp' i hi).2 (by rw [hv']; omega)
    rw [hl, hu] at this
    omega
  · intro hnone
    have := hE i hi (fun p hp hv => hnone p hp (by have := hr' p hp; omega))
    exact ⟨this.1, this.2, by rw [this.1, this.2]; decide⟩

end rows

end PydlVerif.C08

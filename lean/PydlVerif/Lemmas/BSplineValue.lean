/-
C08 bridge lemmas (core Lean only, generic over `[Scalar α]` - so they hold literally for the `Float` and
`Rat` runs of the driver and for the field interpretation of the theorems): what the model functions
`BS.action` / `BS.value` return, by unfolding, on an object with at least `2·nord` good breakpoints.
-/
import PydlVerif.Model.BSpline
namespace PydlVerif.C08
open PydlVerif PydlVerif.BSpline

variable {α : Type} [Scalar α]

theorem adv_le' (t : Nat → α) (n : Nat) (x : α) (fuel i : Nat) (hi : i + 1 ≤ n) :
    intrvAdvance t n x fuel i + 1 ≤ n := by
  induction fuel generalizing i with
  | zero => simpa [intrvAdvance] using hi
  | succ f ih =>
    simp only [intrvAdvance]
    split
    · rename_i h; exact ih (i+1) h.2
    · exact hi

/-- every index the scan returns is at most `n-1` (any points, sorted or not) -/
theorem scan_le (t : Nat → α) (n : Nat) (xs : List α) (i : Nat) (hi : i + 1 ≤ n) :
    ∀ v ∈ intrvScan t n xs i, v + 1 ≤ n := by
  induction xs generalizing i with
  | nil => intro v hv; cases hv
  | cons x xs ih =>
    intro v hv
    simp only [intrvScan, List.mem_cons] at hv
    rcases hv with h | h
    · rw [h]; exact adv_le' t n x _ i hi
    · exact ih _ (adv_le' t n x _ i hi) v h

theorem scan_length (t : Nat → α) (n : Nat) (xs : List α) (i : Nat) : (intrvScan t n xs i).length = xs.length := by
  induction xs generalizing i with
  | nil => rfl
  | cons x xs ih => simp only [intrvScan, List.length_cons, ih]

/-- **action_eq**: with `1 ≤ nord`, at least `2·nord` good breakpoints and at least one point, `action`
returns the `bsplvn` rows at the scanned interval indices and the `uniq` bookkeeping of those indices -/
theorem action_eq (b : BS α) (xw : List α) (hk : 1 ≤ b.nord) (hsize : 2 * b.nord ≤ b.gb.size) (hne : xw ≠ []) :
    b.action xw = .ok (some
      (List.zipWith (fun x i => bsplvn1 (knotAt b.gb) b.nord x i) xw
          (intrvScan (knotAt b.gb) (b.gb.size - b.nord) xw (b.nord - 1)),
        lowerUpper b.nord (b.gb.size - b.nord)
          (intrvScan (knotAt b.gb) (b.gb.size - b.nord) xw (b.nord - 1)).toArray)) := by
  have hemp : xw.isEmpty = false := by cases xw with | nil => exact absurd rfl hne | cons _ _ => rfl
  have hle := scan_le (knotAt b.gb) (b.gb.size - b.nord) xw (b.nord - 1) (by omega)
  have hany' : ¬ (2 ≤ b.nord ∧ ∃ x, x ∈ intrvScan (knotAt b.gb) (b.gb.size - b.nord) xw (b.nord - 1) ∧
      b.gb.size ≤ x + b.nord - 1) := by
    rintro ⟨_, x, hx, h⟩
    have := hle x hx
    omega
  simp only [BS.action, BS.intrv, BS.bsplvn, hemp, bind, Except.bind, pure, Except.pure]
  simp [show ¬ b.gb.size < 2 * b.nord by omega, show ¬ b.gb.size ≤ b.nord by omega, hany']

/-- `goodcoeff[j]` (the coefficient accessor `value` hands to `fillRows`) -/
def coeffAt (b : BS α) : Nat → α := fun j => b.goodcoeff[j]!

/-- **value_eq** (bridge): the model function `BS.value` - what the driver executes - IS
`(unsort perm (fillRows …), maskOf …)`, the expressions the theorems `value_spec`, `value_perm`,
`mask_outside` talk about -/
theorem value_eq (b : BS α) (xs : List α) (perm : List Nat) (hk : 1 ≤ b.nord) (hsize : 2 * b.nord ≤ b.gb.size)
    (hne : perm ≠ []) :
    b.value xs perm = .ok
      (unsort perm (fillRows
          (List.zipWith (fun x i => bsplvn1 (knotAt b.gb) b.nord x i) (perm.map (fun p => xs.getD p 0))
            (intrvScan (knotAt b.gb) (b.gb.size - b.nord) (perm.map (fun p => xs.getD p 0)) (b.nord - 1)))
          (coeffAt b)
          (lowerUpper b.nord (b.gb.size - b.nord)
            (intrvScan (knotAt b.gb) (b.gb.size - b.nord) (perm.map (fun p => xs.getD p 0)) (b.nord - 1)).toArray).1
          (lowerUpper b.nord (b.gb.size - b.nord)
            (intrvScan (knotAt b.gb) (b.gb.size - b.nord) (perm.map (fun p => xs.getD p 0)) (b.nord - 1)).toArray).2
          (b.gb.size - b.nord - b.nord + 1) xs.length),
       maskOf (fun i => b.breakpoints[i]!) (knotAt b.gb) (goodIdx b.mask.toList) b.nord (b.gb.size - b.nord) xs) := by
  have hne' : perm.map (fun p => xs.getD p 0) ≠ [] := by
    cases perm with | nil => exact absurd rfl hne | cons _ _ => simp
  simp only [BS.value, action_eq b _ hk hsize hne', bind, Except.bind, pure, Except.pure]
  simp [show ¬ b.gb.size < b.nord by omega, show ¬ b.nord = 0 by omega]
  rfl

end PydlVerif.C08

/-
Correctness of the banded factorisation + solve of Model/BandChol.lean over a linearly ordered field.

Part 1 (pure algebra, functions `ℕ → ℕ → K`): the column recurrences of a banded `M E Mᵀ` factorisation give
`M E Mᵀ = A` entrywise (zero outside the band), and the three substitution recurrences give `(M E Mᵀ) x = b`.
Part 2: the executable definitions (`buildUp`, `colEntry`, `newCol`, `bandFactor`, `fwdStep`, `bwdStep`, `bandSolve`)
satisfy these recurrences (`bandFactor_mem`, `bandSolve_mem`, `band_solves`); the model functions `choleskyBand` /
`choleskySolve` of Model/BSplineFit.lean with these kernels (`choleskyBand_ldlt_eq`, `choleskyBand_ldlt_solves`,
`choleskyBand_band_solves`).
Part 3: the factorisation succeeds exactly on positive definite matrices (`bandFactor_pos_def`, `pos_def_bandFactor`).
The property theorems built on these are in Props/C09.lean.
-/
import PydlVerif.Model.BandChol
import PydlVerif.Lemmas.BSplineFit
namespace PydlVerif.BandCholLemmas
open PydlVerif PydlVerif.BSplineFit PydlVerif.BandChol Finset

set_option linter.unusedSectionVars false

/-! ## Part 1: algebra -/
section algebra
variable {K : Type} [Field K]

/-- entry `(i, j)` of the symmetric matrix whose lower band is `a r c = A[c+r][c]`, `r < bw`; zero outside the band -/
def bandSym (a : ℕ → ℕ → K) (bw i j : ℕ) : K :=
  if i ≤ j then (if j - i < bw then a (j - i) i else 0) else (if i - j < bw then a (i - j) j else 0)

/-- entry `(i, j)` of the banded lower triangular matrix with diagonal `dg` and sub-diagonals `f r c = M[c+r][c]` -/
def lowM (f : ℕ → ℕ → K) (dg : ℕ → K) (bw i j : ℕ) : K :=
  if i = j then dg j else if j < i ∧ i - j < bw then f (i - j) j else 0

theorem bandSym_symm (a : ℕ → ℕ → K) (bw i j : ℕ) : bandSym a bw i j = bandSym a bw j i := by
  unfold bandSym
  rcases Nat.lt_trichotomy i j with h | h | h
  · rw [if_pos (show i ≤ j by omega), if_neg (show ¬ j ≤ i by omega)]
  · subst h; rfl
  · rw [if_neg (show ¬ i ≤ j by omega), if_pos (show j ≤ i by omega)]

theorem lowM_upper (f : ℕ → ℕ → K) (dg : ℕ → K) (bw i j : ℕ) (h : i < j) : lowM f dg bw i j = 0 := by
  unfold lowM
  rw [if_neg (by omega), if_neg (by omega)]

theorem lowM_diag (f : ℕ → ℕ → K) (dg : ℕ → K) (bw i : ℕ) : lowM f dg bw i i = dg i := by
  unfold lowM
  rw [if_pos rfl]

theorem lowM_lower (f : ℕ → ℕ → K) (dg : ℕ → K) (bw i j : ℕ) (h : j < i) :
    lowM f dg bw i j = if i - j < bw then f (i - j) j else 0 := by
  unfold lowM
  rw [if_neg (by omega)]
  by_cases h2 : i - j < bw
  · rw [if_pos ⟨h, h2⟩, if_pos h2]
  · rw [if_neg (fun hh => h2 hh.2), if_neg h2]

/-- the product `M E Mᵀ` -/
def mem (f : ℕ → ℕ → K) (dg e : ℕ → K) (bw n i j : ℕ) : K :=
  ∑ k ∈ range n, lowM f dg bw i k * e k * lowM f dg bw j k

theorem mem_symm (f : ℕ → ℕ → K) (dg e : ℕ → K) (bw n i j : ℕ) : mem f dg e bw n i j = mem f dg e bw n j i := by
  unfold mem
  apply Finset.sum_congr rfl
  intro k _
  ring

theorem factor_dense_le (a f : ℕ → ℕ → K) (e dg : ℕ → K) (n bw : ℕ) (hbw : 0 < bw)
    (H0 : ∀ c, c < n → a 0 c = (∑ k ∈ range c, if c < k + bw then f (c - k) k * e k * f (c - k) k else 0) + dg c * e c * dg c)
    (H1 : ∀ c r, 1 ≤ r → r < bw → c + r < n →
      a r c = (∑ k ∈ range c, if c + r < k + bw then f (c - k) k * e k * f (c + r - k) k else 0) + f r c * e c * dg c)
    (i j : ℕ) (hi : i < n) (hji : j ≤ i) : mem f dg e bw n i j = bandSym a bw i j := by
  unfold mem
  have hsub : range (j + 1) ⊆ range n := by
    intro k hk; rw [Finset.mem_range] at hk ⊢; omega
  rw [← Finset.sum_subset hsub (fun k _ hk => by
    rw [Finset.mem_range] at hk
    rw [lowM_upper f dg bw j k (by omega)]; ring)]
  rw [Finset.sum_range_succ, lowM_diag]
  rcases Nat.eq_or_lt_of_le hji with hij | hij
  · -- diagonal entry
    subst hij
    rw [lowM_diag]
    have hb : bandSym a bw j j = a 0 j := by
      unfold bandSym
      rw [if_pos (le_refl j), Nat.sub_self, if_pos hbw]
    rw [hb, H0 j hi]
    congr 1
    apply Finset.sum_congr rfl
    intro k hk
    rw [Finset.mem_range] at hk
    rw [lowM_lower f dg bw j k hk]
    by_cases h : j - k < bw
    · rw [if_pos h, if_pos (by omega)]
    · rw [if_neg h, if_neg (by omega)]; ring
  · by_cases hband : i - j < bw
    · -- inside the band
      have hb : bandSym a bw i j = a (i - j) j := by
        unfold bandSym
        rw [if_neg (by omega), if_pos hband]
      rw [hb, H1 j (i - j) (by omega) hband (by omega), lowM_lower f dg bw i j hij, if_pos hband]
      congr 1
      apply Finset.sum_congr rfl
      intro k hk
      rw [Finset.mem_range] at hk
      rw [lowM_lower f dg bw j k hk, lowM_lower f dg bw i k (by omega)]
      by_cases h : i - k < bw
      · rw [if_pos h, if_pos (show j - k < bw by omega), if_pos (show j + (i - j) < k + bw by omega),
          show j + (i - j) - k = i - k by omega]; ring
      · rw [if_neg h, if_neg (show ¬ j + (i - j) < k + bw by omega)]; ring
    · -- outside the band: zero
      have hb : bandSym a bw i j = 0 := by
        unfold bandSym
        rw [if_neg (by omega), if_neg hband]
      rw [hb, lowM_lower f dg bw i j hij, if_neg hband]
      have : ∑ k ∈ range j, lowM f dg bw i k * e k * lowM f dg bw j k = 0 := by
        apply Finset.sum_eq_zero
        intro k hk
        rw [Finset.mem_range] at hk
        rw [lowM_lower f dg bw i k (by omega), if_neg (by omega)]; ring
      rw [this]; ring

/-- **factor (dense reading)**: the column recurrences of the banded factorisation - pivot
`a 0 c = Σ_{k<c} M[c][k]² e_k + dg_c e_c dg_c`, sub-diagonal `a r c = Σ_{k<c} M[c][k] e_k M[c+r][k] + M[c+r][c] e_c dg_c`
(sums over the `k` inside the band) - say `M E Mᵀ = A` for every pair of indices below `n`, `A` the symmetric matrix
with that lower band and ZERO outside it -/
theorem factor_dense (a f : ℕ → ℕ → K) (e dg : ℕ → K) (n bw : ℕ) (hbw : 0 < bw)
    (H0 : ∀ c, c < n → a 0 c = (∑ k ∈ range c, if c < k + bw then f (c - k) k * e k * f (c - k) k else 0) + dg c * e c * dg c)
    (H1 : ∀ c r, 1 ≤ r → r < bw → c + r < n →
      a r c = (∑ k ∈ range c, if c + r < k + bw then f (c - k) k * e k * f (c + r - k) k else 0) + f r c * e c * dg c)
    (i j : ℕ) (hi : i < n) (hj : j < n) : mem f dg e bw n i j = bandSym a bw i j := by
  rcases Nat.le_total j i with h | h
  · exact factor_dense_le a f e dg n bw hbw H0 H1 i j hi h
  · rw [mem_symm, bandSym_symm]
    exact factor_dense_le a f e dg n bw hbw H0 H1 j i hj h

/-- the `r = 1..m` loop of the forward substitution, read as a sum over the columns `k < i` inside the band -/
theorem reindex_fwd (G : ℕ → K) (i m : ℕ) :
    ∑ t ∈ range m, (if t + 1 ≤ i then G (i - (t + 1)) else 0) = ∑ k ∈ range i, (if i < k + (m + 1) then G k else 0) := by
  induction m with
  | zero =>
    rw [Finset.range_zero, Finset.sum_empty]
    symm
    apply Finset.sum_eq_zero
    intro k hk
    rw [Finset.mem_range] at hk
    rw [if_neg (by omega)]
  | succ m ih =>
    rw [Finset.sum_range_succ, ih]
    have hone : (if m + 1 ≤ i then G (i - (m + 1)) else 0) = ∑ k ∈ range i, (if k + (m + 1) = i then G k else 0) := by
      by_cases h : m + 1 ≤ i
      · rw [if_pos h, Finset.sum_eq_single (i - (m + 1))]
        · rw [if_pos (by omega)]
        · intro k _ hne; rw [if_neg (by omega)]
        · intro hn; exact absurd (Finset.mem_range.2 (by omega)) hn
      · rw [if_neg h]
        symm
        apply Finset.sum_eq_zero
        intro k _
        rw [if_neg (by omega)]
    rw [hone, ← Finset.sum_add_distrib]
    apply Finset.sum_congr rfl
    intro k hk
    rw [Finset.mem_range] at hk
    by_cases h1 : i < k + (m + 1)
    · rw [if_pos h1, if_neg (by omega), if_pos (by omega), add_zero]
    · by_cases h2 : k + (m + 1) = i
      · rw [if_neg h1, if_pos h2, if_pos (by omega), zero_add]
      · rw [if_neg h1, if_neg h2, if_neg (by omega), add_zero]

/-- the `r = 1..m` loop of the back substitution, read as a sum over the rows `j > i` inside the band -/
theorem reindex_bwd (G : ℕ → K) (i n m : ℕ) :
    ∑ t ∈ range m, (if i + (t + 1) < n then G (i + (t + 1)) else 0)
      = ∑ j ∈ range n, (if i < j ∧ j < i + (m + 1) then G j else 0) := by
  induction m with
  | zero =>
    rw [Finset.range_zero, Finset.sum_empty]
    symm
    apply Finset.sum_eq_zero
    intro k _
    rw [if_neg (by omega)]
  | succ m ih =>
    rw [Finset.sum_range_succ, ih]
    have hone : (if i + (m + 1) < n then G (i + (m + 1)) else 0) = ∑ j ∈ range n, (if j = i + (m + 1) then G j else 0) := by
      by_cases h : i + (m + 1) < n
      · rw [if_pos h, Finset.sum_eq_single (i + (m + 1))]
        · rw [if_pos rfl]
        · intro k _ hne; rw [if_neg hne]
        · intro hn; exact absurd (Finset.mem_range.2 h) hn
      · rw [if_neg h]
        symm
        apply Finset.sum_eq_zero
        intro k hk
        rw [Finset.mem_range] at hk
        rw [if_neg (by omega)]
    rw [hone, ← Finset.sum_add_distrib]
    apply Finset.sum_congr rfl
    intro k _
    by_cases h1 : i < k ∧ k < i + (m + 1)
    · rw [if_pos h1, if_neg (by omega), if_pos (by omega), add_zero]
    · by_cases h2 : k = i + (m + 1)
      · rw [if_neg h1, if_pos h2, if_pos (by omega), zero_add]
      · rw [if_neg h1, if_neg h2, if_neg (by omega), add_zero]

/-- forward substitution solves `M z = b` -/
theorem fwd_dense (f : ℕ → ℕ → K) (dg b z : ℕ → K) (n bw : ℕ) (hbw : 0 < bw)
    (Hz : ∀ i, i < n → z i * dg i = b i - ∑ t ∈ range (bw - 1), if t + 1 ≤ i then f (t + 1) (i - (t + 1)) * z (i - (t + 1)) else 0)
    (i : ℕ) (hi : i < n) : ∑ k ∈ range n, lowM f dg bw i k * z k = b i := by
  have hsub : range (i + 1) ⊆ range n := by
    intro k hk; rw [Finset.mem_range] at hk ⊢; omega
  rw [← Finset.sum_subset hsub (fun k _ hk => by
    rw [Finset.mem_range] at hk
    rw [lowM_upper f dg bw i k (by omega)]; ring)]
  rw [Finset.sum_range_succ, lowM_diag, mul_comm (dg i), Hz i hi]
  have hG : ∑ t ∈ range (bw - 1), (if t + 1 ≤ i then f (t + 1) (i - (t + 1)) * z (i - (t + 1)) else 0)
      = ∑ t ∈ range (bw - 1), (if t + 1 ≤ i then (fun k => f (i - k) k * z k) (i - (t + 1)) else 0) := by
    apply Finset.sum_congr rfl
    intro t _
    by_cases h : t + 1 ≤ i
    · rw [if_pos h, if_pos h]
      simp only []
      rw [show i - (i - (t + 1)) = t + 1 by omega]
    · rw [if_neg h, if_neg h]
  rw [hG, reindex_fwd (fun k => f (i - k) k * z k) i (bw - 1)]
  have : ∑ k ∈ range i, lowM f dg bw i k * z k
      = ∑ k ∈ range i, (if i < k + (bw - 1 + 1) then (fun k => f (i - k) k * z k) k else 0) := by
    apply Finset.sum_congr rfl
    intro k hk
    rw [Finset.mem_range] at hk
    rw [lowM_lower f dg bw i k hk]
    by_cases h : i - k < bw
    · rw [if_pos h, if_pos (by omega)]
    · rw [if_neg h, if_neg (by omega)]; ring
  rw [this]; ring

/-- back substitution solves `Mᵀ x = w` -/
theorem bwd_dense (f : ℕ → ℕ → K) (dg w x : ℕ → K) (n bw : ℕ) (hbw : 0 < bw)
    (Hx : ∀ i, i < n → x i * dg i = w i - ∑ t ∈ range (bw - 1), if i + (t + 1) < n then f (t + 1) i * x (i + (t + 1)) else 0)
    (k : ℕ) (hk : k < n) : ∑ j ∈ range n, lowM f dg bw j k * x j = w k := by
  have hG : ∑ t ∈ range (bw - 1), (if k + (t + 1) < n then f (t + 1) k * x (k + (t + 1)) else 0)
      = ∑ t ∈ range (bw - 1), (if k + (t + 1) < n then (fun j => f (j - k) k * x j) (k + (t + 1)) else 0) := by
    apply Finset.sum_congr rfl
    intro t _
    by_cases h : k + (t + 1) < n
    · rw [if_pos h, if_pos h]
      simp only []
      rw [show k + (t + 1) - k = t + 1 by omega]
    · rw [if_neg h, if_neg h]
  have hx := Hx k hk
  rw [hG, reindex_bwd (fun j => f (j - k) k * x j) k n (bw - 1)] at hx
  have : ∑ j ∈ range n, lowM f dg bw j k * x j
      = ∑ j ∈ range n, ((if j = k then dg k * x k else 0)
          + (if k < j ∧ j < k + (bw - 1 + 1) then (fun j => f (j - k) k * x j) j else 0)) := by
    apply Finset.sum_congr rfl
    intro j _
    rcases Nat.lt_trichotomy j k with h | h | h
    · rw [lowM_upper f dg bw j k h, if_neg (show ¬ j = k by omega),
        if_neg (show ¬ (k < j ∧ j < k + (bw - 1 + 1)) by omega)]; ring
    · subst h
      rw [lowM_diag, if_pos rfl, if_neg (show ¬ (j < j ∧ j < j + (bw - 1 + 1)) by omega)]; ring
    · rw [lowM_lower f dg bw j k h, if_neg (show ¬ j = k by omega)]
      by_cases h2 : j - k < bw
      · rw [if_pos h2, if_pos (show k < j ∧ j < k + (bw - 1 + 1) by omega)]; ring
      · rw [if_neg h2, if_neg (show ¬ (k < j ∧ j < k + (bw - 1 + 1)) by omega)]; ring
  rw [this, Finset.sum_add_distrib, Finset.sum_ite_eq' (range n) k (fun _ => dg k * x k), if_pos (Finset.mem_range.2 hk)]
  beta_reduce
  rw [mul_comm (dg k), hx]
  ring

/-- **solve (dense reading)**: forward substitution, diagonal scaling and back substitution return `x` with
`(M E Mᵀ) x = b` -/
theorem solve_dense (f : ℕ → ℕ → K) (dg e b z w x : ℕ → K) (n bw : ℕ) (hbw : 0 < bw)
    (Hz : ∀ i, i < n → z i * dg i = b i - ∑ t ∈ range (bw - 1), if t + 1 ≤ i then f (t + 1) (i - (t + 1)) * z (i - (t + 1)) else 0)
    (Hw : ∀ i, i < n → w i * e i = z i)
    (Hx : ∀ i, i < n → x i * dg i = w i - ∑ t ∈ range (bw - 1), if i + (t + 1) < n then f (t + 1) i * x (i + (t + 1)) else 0)
    (i : ℕ) (hi : i < n) : ∑ j ∈ range n, mem f dg e bw n i j * x j = b i := by
  rw [← fwd_dense f dg b z n bw hbw Hz i hi]
  unfold mem
  simp_rw [Finset.sum_mul]
  rw [Finset.sum_comm]
  apply Finset.sum_congr rfl
  intro k hk
  rw [Finset.mem_range] at hk
  have hb := bwd_dense f dg w x n bw hbw Hx k hk
  have : ∑ j ∈ range n, lowM f dg bw i k * e k * lowM f dg bw j k * x j
      = lowM f dg bw i k * e k * ∑ j ∈ range n, lowM f dg bw j k * x j := by
    rw [Finset.mul_sum]
    apply Finset.sum_congr rfl
    intro j _
    ring
  rw [this, hb, ← Hw k hk]
  ring

theorem mem_congr (f f' : ℕ → ℕ → K) (dg dg' e e' : ℕ → K) (bw n : ℕ)
    (hf : ∀ r c, r < bw → c < n → f r c = f' r c) (hd : ∀ c, c < n → dg c = dg' c) (he : ∀ c, c < n → e c = e' c)
    (i j : ℕ) : mem f dg e bw n i j = mem f' dg' e' bw n i j := by
  have hl : ∀ i k, k < n → lowM f dg bw i k = lowM f' dg' bw i k := by
    intro i k hk
    unfold lowM
    by_cases h1 : i = k
    · rw [if_pos h1, if_pos h1, hd k hk]
    · rw [if_neg h1, if_neg h1]
      by_cases h2 : k < i ∧ i - k < bw
      · rw [if_pos h2, if_pos h2, hf _ _ h2.2 hk]
      · rw [if_neg h2, if_neg h2]
  unfold mem
  apply Finset.sum_congr rfl
  intro k hk
  rw [Finset.mem_range] at hk
  rw [hl i k hk, hl j k hk, he k hk]

theorem bandSym_congr (a a' : ℕ → ℕ → K) (bw n : ℕ) (h : ∀ r c, r < bw → c < n → a r c = a' r c)
    (i j : ℕ) (hi : i < n) (hj : j < n) : bandSym a bw i j = bandSym a' bw i j := by
  unfold bandSym
  by_cases h1 : i ≤ j
  · rw [if_pos h1, if_pos h1]
    by_cases h2 : j - i < bw
    · rw [if_pos h2, if_pos h2, h _ _ h2 hi]
    · rw [if_neg h2, if_neg h2]
  · rw [if_neg h1, if_neg h1]
    by_cases h2 : i - j < bw
    · rw [if_pos h2, if_pos h2, h _ _ h2 hj]
    · rw [if_neg h2, if_neg h2]

end algebra

/-! ## Part 2: the executable definitions -/
section arrays
variable {β : Type} [Inhabited β]

theorem getElem!_mapRange (g : ℕ → β) (n r : ℕ) (hr : r < n) : ((List.range n).map g).toArray[r]! = g r := by
  rw [getElem!_pos _ r (by simpa using hr)]
  simp

theorem buildUp_size (step : Array β → ℕ → β) (c : ℕ) : (buildUp step c).size = c := by
  induction c with
  | zero => rfl
  | succ c ih => simp only [buildUp, Array.size_push, ih]

theorem buildUp_get (step : Array β → ℕ → β) (c k : ℕ) (hk : k < c) : (buildUp step c)[k]! = step (buildUp step k) k := by
  induction c with
  | zero => omega
  | succ c ih =>
    have hs := buildUp_size step c
    have e : buildUp step (c + 1) = (buildUp step c).push (step (buildUp step c) c) := rfl
    rw [e, getElem!_pos _ k (by rw [Array.size_push]; omega)]
    by_cases h : k < c
    · rw [Array.getElem_push_lt (by omega), ← ih h, getElem!_pos _ k (by omega)]
    · have hkc : k = c := by omega
      subst hkc
      simp [Array.getElem_push, hs]

/-- when every step only reads the prefix built so far, the finished array satisfies its own recurrence -/
theorem buildUp_fix (step : Array β → ℕ → β)
    (hcongr : ∀ i p p', (∀ k, k < i → p[k]! = p'[k]!) → step p i = step p' i) (n i : ℕ) (hi : i < n) :
    (buildUp step n)[i]! = step (buildUp step n) i := by
  rw [buildUp_get step n i hi]
  apply hcongr
  intro k hk
  rw [buildUp_get step i k hk, buildUp_get step n k (by omega)]

theorem extract_get (row : Array β) (n c : ℕ) (hc : c < n) : (row.extract 0 n)[c]! = row[c]! := by
  simp only [getElem!_def, Array.getElem?_extract]
  by_cases h : c < row.size
  · simp [hc, h]
  · simp [h]

theorem map_get {γ : Type} [Inhabited γ] (m : Array β) (f : β → γ) (r : ℕ) (hd : f default = default) :
    (m.map f)[r]! = f m[r]! := by
  simp [getElem!_def]
  cases h : m[r]? <;> simp [hd]

end arrays

section exec
open PydlVerif.BSplineFitLemmas
variable {K : Type} [Field K] [LinearOrder K] [IsStrictOrderedRing K] [FloorRing K]

local notation "colEntryK" => @colEntry _ (fieldScalar _)
local notation "newColK" => @newCol _ (fieldScalar _)
local notation "factorColsK" => @factorCols _ (fieldScalar _)
local notation "bandFactorK" => @bandFactor _ (fieldScalar _)
local notation "fwdStepK" => @fwdStep _ (fieldScalar _)
local notation "bwdStepK" => @bwdStep _ (fieldScalar _)
local notation "bandSolveK" => @bandSolve _ (fieldScalar _)
local notation "get2K" => @get2 _ (fieldScalar _)

/-- the `Inhabited` instance the model's `arr[i]!` reads use (default `Scalar.ofNat 0`) -/
noncomputable local instance instInhabitedK : Inhabited K := @PydlVerif.instInhabitedOfScalar K (fieldScalar K)

theorem sc_one' : (@OfNat.ofNat K 1 (@Scalar.instOfNat K (fieldScalar K) 1) : K) = 1 := by simp [scalar_lit]

/-- what the theorems need of a `Variant`: on a positive pivot `p`, `g = root p` is non-zero, `ew g · md g = g` and
`g · md g = p` -/
structure VariantOK (V : Variant K) : Prop where
  root_ne : ∀ p, 0 < p → V.root p ≠ 0
  ew_md : ∀ p, 0 < p → V.ew (V.root p) * V.md (V.root p) = V.root p
  root_md : ∀ p, 0 < p → V.root p * V.md (V.root p) = p

theorem ldltV_ok : VariantOK (@ldltV K (fieldScalar K)) where
  root_ne := fun p hp => ne_of_gt hp
  ew_md := fun p _ => by
    show p * (@OfNat.ofNat K 1 (@Scalar.instOfNat K (fieldScalar K) 1) : K) = p
    rw [sc_one', mul_one]
  root_md := fun p _ => by
    show p * (@OfNat.ofNat K 1 (@Scalar.instOfNat K (fieldScalar K) 1) : K) = p
    rw [sc_one', mul_one]

theorem cholV_ok (sqrt : K → K) (hs : ∀ p, 0 < p → sqrt p * sqrt p = p) : VariantOK (@cholV K (fieldScalar K) sqrt) where
  root_ne := fun p hp h0 => by
    have := hs p hp
    show False
    have h0' : sqrt p = 0 := h0
    rw [h0', mul_zero] at this
    exact absurd this.symm (ne_of_gt hp)
  ew_md := fun p _ => by
    show (@OfNat.ofNat K 1 (@Scalar.instOfNat K (fieldScalar K) 1) : K) * sqrt p = sqrt p
    rw [sc_one', one_mul]
  root_md := fun p hp => hs p hp

theorem foldl_sub (l : List ℕ) (P : ℕ → Prop) [DecidablePred P] (t : ℕ → K) (a0 : K) :
    l.foldl (fun acc k => if P k then acc - t k else acc) a0 = a0 - (l.map (fun k => if P k then t k else 0)).sum := by
  induction l generalizing a0 with
  | nil => simp
  | cons k l ih =>
    rw [List.foldl_cons, ih, List.map_cons, List.sum_cons]
    by_cases h : P k
    · rw [if_pos h, if_pos h]; ring
    · rw [if_neg h, if_neg h]; ring

theorem colEntry_eq (V : Variant K) (bw : ℕ) (a : ℕ → ℕ → K) (cols : Array (Array K)) (c r : ℕ) :
    colEntryK V bw a cols c r = a r c - ∑ k ∈ range c,
      (if c + r < k + bw then get2K cols k (c - k) * V.ew (get2K cols k 0) * get2K cols k (c + r - k) else 0) := by
  unfold colEntry
  rw [← list_range_sum]
  exact foldl_sub (List.range c) (fun k => c + r < k + bw)
    (fun k => get2K cols k (c - k) * V.ew (get2K cols k 0) * get2K cols k (c + r - k)) (a r c)

theorem colEntry_congr (V : Variant K) (bw : ℕ) (a : ℕ → ℕ → K) (cols cols' : Array (Array K)) (c r : ℕ)
    (h : ∀ k, k < c → cols[k]! = cols'[k]!) : colEntryK V bw a cols c r = colEntryK V bw a cols' c r := by
  rw [colEntry_eq, colEntry_eq]
  congr 1
  apply Finset.sum_congr rfl
  intro k hk
  rw [Finset.mem_range] at hk
  unfold get2
  rw [h k hk]

theorem newCol_congr (V : Variant K) (bw n : ℕ) (a : ℕ → ℕ → K) (cols cols' : Array (Array K)) (c : ℕ)
    (h : ∀ k, k < c → cols[k]! = cols'[k]!) : newColK V bw n a cols c = newColK V bw n a cols' c := by
  have e : ∀ r, colEntryK V bw a cols c r = colEntryK V bw a cols' c r := fun r => colEntry_congr V bw a cols cols' c r h
  unfold newCol
  simp only [e]

theorem factorCols_fix (V : Variant K) (bw n : ℕ) (a : ℕ → ℕ → K) (c : ℕ) (hc : c < n) :
    (factorColsK V bw n a n)[c]! = newColK V bw n a (factorColsK V bw n a n) c :=
  buildUp_fix _ (fun i p p' h => newCol_congr V bw n a p p' i h) n c hc

theorem factorCols_entry (V : Variant K) (bw n : ℕ) (a : ℕ → ℕ → K) (c r : ℕ) (hc : c < n) (hr : r < bw) :
    get2K (factorColsK V bw n a n) c r =
      if r = 0 then V.root (colEntryK V bw a (factorColsK V bw n a n) c 0)
      else if c + r < n then colEntryK V bw a (factorColsK V bw n a n) c r / V.root (colEntryK V bw a (factorColsK V bw n a n) c 0)
      else a r c := by
  unfold get2
  rw [factorCols_fix V bw n a c hc]
  unfold newCol
  simp only []
  rw [getElem!_mapRange _ bw r hr]

theorem bandFactor_some (V : Variant K) (bw n : ℕ) (A F : Array (Array K)) (h : bandFactorK V bw n A = some F) :
    (∀ c, c < n → 0 < colEntryK V bw (fun r c => get2K A r c) (factorColsK V bw n (fun r c => get2K A r c) n) c 0) ∧
    (∀ r c, r < bw → c < n → get2K F r c = get2K (factorColsK V bw n (fun r c => get2K A r c) n) c r) := by
  unfold bandFactor at h
  simp only [] at h
  split at h
  · rename_i hall
    injection h with h
    subst h
    refine ⟨fun c hc => ?_, fun r c hr hc => ?_⟩
    · rw [List.all_eq_true] at hall
      have := hall c (List.mem_range.2 hc)
      rw [decide_eq_true_iff] at this
      rw [← sc_zero (K := K)]
      exact this
    · unfold get2
      rw [getElem!_mapRange _ bw r hr, getElem!_mapRange _ n c hc]
  · cases h

/-- **band_factor_mem**: when `bandFactor` answers `some F`, every pivot was positive (`F[0][c] = root p_c`, `p_c > 0`) and
`M E Mᵀ = A` entrywise for all `i, j < n` - `M` the banded lower triangular matrix read from `F` (diagonal `md F[0][c]`),
`E = diag (ew F[0][c])`, `A` the symmetric matrix whose lower band is the input (zero outside the band) -/
theorem bandFactor_mem (V : Variant K) (hV : VariantOK V) (bw n : ℕ) (hbw : 0 < bw) (A F : Array (Array K))
    (h : bandFactorK V bw n A = some F) :
    (∀ c, c < n → ∃ p, 0 < p ∧ get2K F 0 c = V.root p) ∧
    ∀ i j, i < n → j < n →
      mem (fun r c => get2K F r c) (fun c => V.md (get2K F 0 c)) (fun c => V.ew (get2K F 0 c)) bw n i j
        = bandSym (fun r c => get2K A r c) bw i j := by
  obtain ⟨hpos, hF⟩ := bandFactor_some V bw n A F h
  generalize ha : (fun r c => get2K A r c) = a at hpos hF ⊢
  generalize hcols : factorColsK V bw n a n = cols at hpos hF
  -- the stored entries
  have E0 : ∀ c, c < n → get2K F 0 c = V.root (colEntryK V bw a cols c 0) := by
    intro c hc
    rw [hF 0 c hbw hc, ← hcols, factorCols_entry V bw n a c 0 hc hbw, if_pos rfl]
  have E1 : ∀ c r, 1 ≤ r → r < bw → c + r < n →
      get2K F r c = colEntryK V bw a cols c r / V.root (colEntryK V bw a cols c 0) := by
    intro c r h1 hr hcr
    rw [hF r c hr (by omega), ← hcols, factorCols_entry V bw n a c r (by omega) hr, if_neg (by omega), if_pos hcr]
  -- the Schur complement entries in terms of the stored entries
  have S : ∀ c r, c + r < n → r < bw → colEntryK V bw a cols c r = a r c - ∑ k ∈ range c,
      (if c + r < k + bw then get2K F (c - k) k * V.ew (get2K F 0 k) * get2K F (c + r - k) k else 0) := by
    intro c r hcr hr
    rw [colEntry_eq]
    congr 1
    apply Finset.sum_congr rfl
    intro k hk
    rw [Finset.mem_range] at hk
    by_cases hb : c + r < k + bw
    · rw [if_pos hb, if_pos hb, hF (c - k) k (by omega) (by omega), hF 0 k hbw (by omega), hF (c + r - k) k (by omega) (by omega)]
    · rw [if_neg hb, if_neg hb]
  refine ⟨fun c hc => ⟨_, hpos c hc, E0 c hc⟩, ?_⟩
  apply factor_dense a (fun r c => get2K F r c) (fun c => V.ew (get2K F 0 c)) (fun c => V.md (get2K F 0 c)) n bw hbw
  · intro c hc
    have hs := S c 0 (by omega) hbw
    simp only [Nat.add_zero] at hs
    rw [E0 c hc]
    have hp := hpos c hc
    have h1 := hV.ew_md _ hp
    have h2 := hV.root_md _ hp
    have : V.md (V.root (colEntryK V bw a cols c 0)) * V.ew (V.root (colEntryK V bw a cols c 0)) * V.md (V.root (colEntryK V bw a cols c 0))
        = colEntryK V bw a cols c 0 := by
      rw [mul_comm (V.md _) (V.ew _), h1, h2]
    rw [this, hs]
    ring
  · intro c r h1 hr hcr
    have hs := S c r hcr hr
    have hp := hpos c (by omega)
    have hg := hV.root_ne _ hp
    have h1' := hV.ew_md _ hp
    rw [E1 c r h1 hr hcr, E0 c (by omega)]
    have : colEntryK V bw a cols c r / V.root (colEntryK V bw a cols c 0) * V.ew (V.root (colEntryK V bw a cols c 0))
          * V.md (V.root (colEntryK V bw a cols c 0)) = colEntryK V bw a cols c r := by
      rw [mul_assoc, h1', div_mul_cancel₀ _ hg]
    rw [this, hs]
    ring

/-! ### the solve -/

theorem fwdStep_eq (V : Variant K) (bw : ℕ) (F : Array (Array K)) (b z : Array K) (i : ℕ) :
    fwdStepK V bw F b z i = (b[i]! - ∑ t ∈ range (bw - 1),
      (if t + 1 ≤ i then get2K F (t + 1) (i - (t + 1)) * z[i - (t + 1)]! else 0)) / V.md (get2K F 0 i) := by
  unfold fwdStep
  rw [← list_range_sum]
  exact congrArg (· / V.md (get2K F 0 i)) (foldl_sub (List.range (bw - 1)) (fun t => t + 1 ≤ i)
    (fun t => get2K F (t + 1) (i - (t + 1)) * z[i - (t + 1)]!) b[i]!)

theorem bwdStep_eq (V : Variant K) (bw n : ℕ) (F : Array (Array K)) (w xr : Array K) (ii : ℕ) :
    bwdStepK V bw n F w xr ii = (w[n - 1 - ii]! - ∑ t ∈ range (bw - 1),
      (if (n - 1 - ii) + (t + 1) < n then get2K F (t + 1) (n - 1 - ii) * xr[ii - (t + 1)]! else 0)) / V.md (get2K F 0 (n - 1 - ii)) := by
  unfold bwdStep
  rw [← list_range_sum]
  exact congrArg (· / V.md (get2K F 0 (n - 1 - ii))) (foldl_sub (List.range (bw - 1)) (fun t => (n - 1 - ii) + (t + 1) < n)
    (fun t => get2K F (t + 1) (n - 1 - ii) * xr[ii - (t + 1)]!) w[n - 1 - ii]!)

theorem fwdStep_congr (V : Variant K) (bw : ℕ) (F : Array (Array K)) (b z z' : Array K) (i : ℕ)
    (h : ∀ k, k < i → z[k]! = z'[k]!) : fwdStepK V bw F b z i = fwdStepK V bw F b z' i := by
  rw [fwdStep_eq, fwdStep_eq]
  congr 2
  apply Finset.sum_congr rfl
  intro t _
  by_cases ht : t + 1 ≤ i
  · rw [if_pos ht, if_pos ht, h _ (by omega)]
  · rw [if_neg ht, if_neg ht]

theorem bwdStep_congr (V : Variant K) (bw n : ℕ) (F : Array (Array K)) (w xr xr' : Array K) (ii : ℕ)
    (h : ∀ k, k < ii → xr[k]! = xr'[k]!) : bwdStepK V bw n F w xr ii = bwdStepK V bw n F w xr' ii := by
  rw [bwdStep_eq, bwdStep_eq]
  congr 2
  apply Finset.sum_congr rfl
  intro t _
  by_cases ht : (n - 1 - ii) + (t + 1) < n
  · rw [if_pos ht, if_pos ht, h _ (by omega)]
  · rw [if_neg ht, if_neg ht]

theorem bandSolve_size (V : Variant K) (bw n : ℕ) (F : Array (Array K)) (b : Array K) : (bandSolveK V bw n F b).size = n := by
  unfold bandSolve
  simp

/-- **band_solve_mem**: for a factor with non-zero `md F[0][i]`, `ew F[0][i]` (`i < n`) the vector `bandSolve` returns
satisfies `(M E Mᵀ) x = b` -/
theorem bandSolve_mem (V : Variant K) (bw n : ℕ) (hbw : 0 < bw) (F : Array (Array K)) (b : Array K)
    (hmd : ∀ i, i < n → V.md (get2K F 0 i) ≠ 0) (hew : ∀ i, i < n → V.ew (get2K F 0 i) ≠ 0) (i : ℕ) (hi : i < n) :
    ∑ j ∈ range n, mem (fun r c => get2K F r c) (fun c => V.md (get2K F 0 c)) (fun c => V.ew (get2K F 0 c)) bw n i j
      * (bandSolveK V bw n F b)[j]! = b[i]! := by
  -- the three arrays of `bandSolve`
  generalize hz : buildUp (fun z i => fwdStepK V bw F b z i) n = z
  generalize hw : ((List.range n).map fun i => z[i]! / V.ew (get2K F 0 i)).toArray = w
  generalize hxr : buildUp (fun xr ii => bwdStepK V bw n F w xr ii) n = xr
  have hx : bandSolveK V bw n F b = ((List.range n).map fun i => xr[n - 1 - i]!).toArray := by
    unfold bandSolve
    simp only []
    rw [hz, hw, hxr]
  have Z : ∀ i, i < n → z[i]! = fwdStepK V bw F b z i := by
    intro i hi
    rw [← hz]
    exact buildUp_fix _ (fun i p p' h => fwdStep_congr V bw F b p p' i h) n i hi
  have W : ∀ i, i < n → w[i]! = z[i]! / V.ew (get2K F 0 i) := by
    intro i hi
    rw [← hw, getElem!_mapRange _ n i hi]
  have XR : ∀ ii, ii < n → xr[ii]! = bwdStepK V bw n F w xr ii := by
    intro ii hii
    rw [← hxr]
    exact buildUp_fix _ (fun i p p' h => bwdStep_congr V bw n F w p p' i h) n ii hii
  have X : ∀ i, i < n → (bandSolveK V bw n F b)[i]! = xr[n - 1 - i]! := by
    intro i hi
    rw [hx, getElem!_mapRange _ n i hi]
  apply solve_dense (fun r c => get2K F r c) (fun c => V.md (get2K F 0 c)) (fun c => V.ew (get2K F 0 c))
    (fun i => b[i]!) (fun i => z[i]!) (fun i => w[i]!) (fun i => (bandSolveK V bw n F b)[i]!) n bw hbw ?_ ?_ ?_ i hi
  · intro i hi
    rw [Z i hi, fwdStep_eq, div_mul_cancel₀ _ (hmd i hi)]
  · intro i hi
    rw [W i hi, div_mul_cancel₀ _ (hew i hi)]
  · intro i hi
    rw [X i hi, XR (n - 1 - i) (by omega), bwdStep_eq, show n - 1 - (n - 1 - i) = i by omega, div_mul_cancel₀ _ (hmd i hi)]
    congr 1
    apply Finset.sum_congr rfl
    intro t _
    by_cases ht : i + (t + 1) < n
    · rw [if_pos ht, if_pos ht, X (i + (t + 1)) ht, show n - 1 - (i + (t + 1)) = n - 1 - i - (t + 1) by omega]
    · rw [if_neg ht, if_neg ht]

local notation "choleskyBandK" => @choleskyBand _ (fieldScalar _)
local notation "choleskySolveK" => @choleskySolve _ (fieldScalar _)
local notation "padBandK" => @padBand _ (fieldScalar _)
local notation "fallbackLoopK" => @fallbackLoop _ (fieldScalar _)
local notation "fallbackColK" => @fallbackCol _ (fieldScalar _)
local notation "kernelsLdltK" => @kernelsLdlt _ (fieldScalar _)
local notation "ldltVK" => @ldltV _ (fieldScalar _)

/-- the pivot of column `c` as `bandFactor` computes it: entry `(c, c)` of the Schur complement after the columns `< c` -/
noncomputable def pivotK (V : Variant K) (bw n : ℕ) (A : Array (Array K)) (c : ℕ) : K :=
  colEntryK V bw (fun r c => get2K A r c) (factorColsK V bw n (fun r c => get2K A r c) n) c 0

/-- `bandFactor` answers a factor exactly when every pivot is positive (`none` = a pivot `≤ 0` = scipy's `LinAlgError`) -/
theorem bandFactor_isSome (V : Variant K) (bw n : ℕ) (A : Array (Array K)) :
    (∃ F, bandFactorK V bw n A = some F) ↔ ∀ c, c < n → 0 < pivotK V bw n A c := by
  constructor
  · rintro ⟨F, h⟩
    exact (bandFactor_some V bw n A F h).1
  · intro hp
    unfold bandFactor
    simp only []
    rw [if_pos]
    · exact ⟨_, rfl⟩
    · rw [List.all_eq_true]
      intro c hc
      rw [decide_eq_true_iff]
      have := hp c (List.mem_range.1 hc)
      rw [← sc_zero (K := K)] at this
      exact this

theorem get2_padBand (bw n nn : ℕ) (L : Array (Array K)) (r c : ℕ) (hr : r < bw) (hc : c < n) (hn : n ≤ nn) :
    get2K (padBandK bw n nn L) r c = get2K L r c := by
  show ((padBandK bw n nn L)[r]!)[c]! = _
  unfold padBand
  rw [getElem!_mapRange _ bw r hr, getElem!_mapRange _ nn c (by omega), if_pos hc]

theorem get2_map_extract (m : Array (Array K)) (n r c : ℕ) (hc : c < n) :
    get2K (m.map (fun row => row.extract 0 n)) r c = get2K m r c := by
  show ((m.map _)[r]!)[c]! = (m[r]!)[c]!
  rw [map_get m _ r (by simp; exact Or.inl rfl), extract_get _ n c hc]

theorem fallbackCol_ldlt (kn j : ℕ) (lower : Array (Array K)) : fallbackColK kernelsLdltK kn j lower = none := by
  unfold fallbackCol
  simp only []
  split
  · rfl
  · rename_i h
    exfalso
    apply h
    rw [Bool.not_eq_true', Bool.and_eq_false_iff]
    left
    rw [decide_eq_false_iff_not]
    exact lt_irrefl _

theorem fallbackLoop_ldlt (kn j : ℕ) (js : List ℕ) (lower : Array (Array K)) :
    fallbackLoopK kernelsLdltK kn (j :: js) lower = .inl j := by
  unfold fallbackLoop
  rw [fallbackCol_ldlt]

theorem range_pos_cons (n : ℕ) (hn : 0 < n) : List.range n = 0 :: (List.range (n - 1)).map Nat.succ := by
  obtain ⟨m, rfl⟩ : ∃ m, n = m + 1 := ⟨n - 1, by omega⟩
  rw [List.range_succ_eq_map]
  rfl

/-- `cholesky_band` with the `L D Lᵀ` kernels on a `bw × (n+bw)` matrix that passes the diagonal / finiteness screen: the
kernel's factor (padded), or - when a pivot is not positive (`bandFactor = none`, scipy's `LinAlgError`) - the answer of the
fallback loop, which in the square-root-free interpretation (`sqrt := 0`) stops at its first column -/
theorem choleskyBand_ldlt_eq (l : Array (Array K)) (mininf : K) (bw n : ℕ) (hbw : 0 < bw) (hn : 0 < n)
    (hl : l.size = bw) (hl0 : (l[0]!).size = n + bw)
    (hscreen : (!((List.range ((l[0]!).size - l.size)).filter (fun c => decide (get2K l 0 c ≤ mininf))).isEmpty
      || !(l.all (fun row => row.all (kernelsLdltK).isFinite))) = false) :
    choleskyBandK kernelsLdltK l mininf =
      match bandFactorK ldltVK bw n (l.map (fun row => row.extract 0 n)) with
      | some L => .ok (.factor (padBandK bw n (n + bw) L))
      | none => .ok (.bad [0] true) := by
  unfold choleskyBand
  simp only []
  rw [if_neg (by omega), if_neg (by omega), if_neg (by rw [hscreen]; decide)]
  rw [hl0, hl, Nat.add_sub_cancel]
  show (match bandFactorK ldltVK bw n (l.map (fun row => row.extract 0 n)) with
    | some L => pure (CholRes.factor (padBandK bw n (n + bw) L))
    | none => _) = _
  cases bandFactorK ldltVK bw n (l.map (fun row => row.extract 0 n)) with
  | some L => rfl
  | none =>
    simp only []
    rw [range_pos_cons n hn, fallbackLoop_ldlt]
    rfl

theorem choleskyBand_ldlt_factor (l : Array (Array K)) (mininf : K) (bw n : ℕ) (hbw : 0 < bw) (hn : 0 < n)
    (hl : l.size = bw) (hl0 : (l[0]!).size = n + bw) (a : Array (Array K))
    (h : choleskyBandK kernelsLdltK l mininf = .ok (.factor a)) :
    ∃ L, bandFactorK ldltVK bw n (l.map (fun row => row.extract 0 n)) = some L ∧ a = padBandK bw n (n + bw) L := by
  unfold choleskyBand at h
  simp only [hl, hl0, Nat.add_sub_cancel] at h
  rw [if_neg (by omega), if_neg (by omega)] at h
  split at h
  · cases h
  · split at h
    · rename_i L hL
      refine ⟨L, hL, ?_⟩
      injection h with h
      injection h with h
      exact h.symm
    · rename_i hnone
      rw [range_pos_cons n hn, fallbackLoop_ldlt] at h
      cases h

theorem padBand_size (bw n nn : ℕ) (L : Array (Array K)) : (padBandK bw n nn L).size = bw := by
  unfold padBand
  simp

theorem choleskySolve_get (Kn : Kernels K) (a : Array (Array K)) (bb : Array K) (bw n : ℕ) (ha : a.size = bw)
    (hbb : bb.size = n + bw) (j : ℕ) (hj : j < n) :
    (choleskySolveK Kn a bb)[j]! = (Kn.cholSolve bw n (a.map (fun row => row.extract 0 n)) (bb.extract 0 n))[j]! := by
  have e : bb.size - a.size = n := by omega
  unfold choleskySolve
  simp only []
  rw [e, ha, getElem!_mapRange _ _ j (by omega), if_pos hj]

theorem band_solves' (V : Variant K) (hV : VariantOK V) (bw n : ℕ) (hbw : 0 < bw) (A F F' : Array (Array K)) (b : Array K)
    (h : bandFactorK V bw n A = some F) (hF' : ∀ r c, r < bw → c < n → get2K F' r c = get2K F r c) (i : ℕ) (hi : i < n) :
    ∑ j ∈ range n, bandSym (fun r c => get2K A r c) bw i j * (bandSolveK V bw n F' b)[j]! = b[i]! := by
  obtain ⟨hg, hmem⟩ := bandFactor_mem V hV bw n hbw A F h
  have hne : ∀ c, c < n → V.md (get2K F' 0 c) ≠ 0 ∧ V.ew (get2K F' 0 c) ≠ 0 := by
    intro c hc
    obtain ⟨p, hp, e⟩ := hg c hc
    rw [hF' 0 c hbw hc, e]
    have h1 := hV.ew_md p hp
    have h0 := hV.root_ne p hp
    constructor
    · intro hz; rw [hz, mul_zero] at h1; exact h0 h1.symm
    · intro hz; rw [hz, zero_mul] at h1; exact h0 h1.symm
  rw [← bandSolve_mem V bw n hbw F' b (fun c hc => (hne c hc).1) (fun c hc => (hne c hc).2) i hi]
  apply Finset.sum_congr rfl
  intro j hj
  rw [← hmem i j hi (Finset.mem_range.1 hj)]
  congr 1
  exact (mem_congr _ _ _ _ _ _ bw n (fun r c hr hc => hF' r c hr hc) (fun c hc => by rw [hF' 0 c hbw hc])
    (fun c hc => by rw [hF' 0 c hbw hc]) i j).symm

/-- **choleskyBand_ldlt_solves** (the model functions `cholesky_band` / `cholesky_solve` with the `L D Lᵀ` kernels): whenever
`cholesky_band` answers a factor for a `bw × (n+bw)` band matrix, `cholesky_solve` with that factor returns `x` with
`A x = b`, `A` the symmetric banded matrix of the input -/
theorem choleskyBand_ldlt_solves (l : Array (Array K)) (bb : Array K) (mininf : K) (bw n : ℕ) (hbw : 0 < bw) (hn : 0 < n)
    (hl : l.size = bw) (hl0 : (l[0]!).size = n + bw) (hbb : bb.size = n + bw) (a : Array (Array K))
    (h : choleskyBandK kernelsLdltK l mininf = .ok (.factor a)) (i : ℕ) (hi : i < n) :
    ∑ j ∈ range n, bandSym (fun r c => get2K l r c) bw i j * (choleskySolveK kernelsLdltK a bb)[j]! = bb[i]! := by
  obtain ⟨L, hL, ha⟩ := choleskyBand_ldlt_factor l mininf bw n hbw hn hl hl0 a h
  have hsz : a.size = bw := by rw [ha]; exact padBand_size bw n (n + bw) L
  have hF' : ∀ r c, r < bw → c < n → get2K (a.map (fun row => row.extract 0 n)) r c = get2K L r c := by
    intro r c hr hc
    rw [get2_map_extract _ n r c hc, ha, get2_padBand bw n (n + bw) L r c hr hc (by omega)]
  have key := band_solves' ldltVK ldltV_ok bw n hbw _ L _ (bb.extract 0 n) hL hF' i hi
  rw [extract_get bb n i hi] at key
  rw [← key]
  apply Finset.sum_congr rfl
  intro j hj
  rw [Finset.mem_range] at hj
  rw [choleskySolve_get kernelsLdltK a bb bw n hsz hbb j hj]
  congr 1
  exact (bandSym_congr _ _ bw n (fun r c _ hc => get2_map_extract l n r c hc) i j hi hj).symm

/-- `cholesky_band` with ANY kernels whose factorisation kernel is `bandFactor V`, on a matrix that this kernel factors: the
factor comes from the kernel (the fallback loop is not entered) -/
theorem choleskyBand_band_factor (Kn : Kernels K) (V : Variant K) (hf : Kn.cholFactor = bandFactorK V)
    (l : Array (Array K)) (mininf : K) (bw n : ℕ) (hbw : 0 < bw) (hl : l.size = bw) (hl0 : (l[0]!).size = n + bw)
    (hsome : ∃ L, bandFactorK V bw n (l.map (fun row => row.extract 0 n)) = some L) (a : Array (Array K))
    (h : choleskyBandK Kn l mininf = .ok (.factor a)) :
    ∃ L, bandFactorK V bw n (l.map (fun row => row.extract 0 n)) = some L ∧ a = padBandK bw n (n + bw) L := by
  unfold choleskyBand at h
  simp only [hl, hl0, Nat.add_sub_cancel, hf] at h
  rw [if_neg (by omega), if_neg (by omega)] at h
  split at h
  · cases h
  · split at h
    · rename_i L hL
      refine ⟨L, hL, ?_⟩
      injection h with h
      injection h with h
      exact h.symm
    · rename_i hnone
      obtain ⟨L, hL⟩ := hsome
      rw [hL] at hnone
      cases hnone

/-- ... and `cholesky_solve` (solve kernel `bandSolve V`) then returns `x` with `A x = b` -/
theorem choleskyBand_band_solves (Kn : Kernels K) (V : Variant K) (hV : VariantOK V) (hf : Kn.cholFactor = bandFactorK V)
    (hs : Kn.cholSolve = bandSolveK V) (l : Array (Array K)) (bb : Array K) (mininf : K) (bw n : ℕ) (hbw : 0 < bw)
    (hl : l.size = bw) (hl0 : (l[0]!).size = n + bw) (hbb : bb.size = n + bw)
    (hsome : ∃ L, bandFactorK V bw n (l.map (fun row => row.extract 0 n)) = some L) (a : Array (Array K))
    (h : choleskyBandK Kn l mininf = .ok (.factor a)) (i : ℕ) (hi : i < n) :
    ∑ j ∈ range n, bandSym (fun r c => get2K l r c) bw i j * (choleskySolveK Kn a bb)[j]! = bb[i]! := by
  obtain ⟨L, hL, ha⟩ := choleskyBand_band_factor Kn V hf l mininf bw n hbw hl hl0 hsome a h
  have hsz : a.size = bw := by rw [ha]; exact padBand_size bw n (n + bw) L
  have hF' : ∀ r c, r < bw → c < n → get2K (a.map (fun row => row.extract 0 n)) r c = get2K L r c := by
    intro r c hr hc
    rw [get2_map_extract _ n r c hc, ha, get2_padBand bw n (n + bw) L r c hr hc (by omega)]
  have key := band_solves' V hV bw n hbw _ L _ (bb.extract 0 n) hL hF' i hi
  rw [extract_get bb n i hi] at key
  rw [← key]
  apply Finset.sum_congr rfl
  intro j hj
  rw [Finset.mem_range] at hj
  rw [choleskySolve_get Kn a bb bw n hsz hbb j hj, hs]
  congr 1
  exact (bandSym_congr _ _ bw n (fun r c _ hc => get2_map_extract l n r c hc) i j hi hj).symm

/-- **band_solves**: factor + solve together: `A x = b` for the symmetric banded matrix `A` of the input band -/
theorem band_solves (V : Variant K) (hV : VariantOK V) (bw n : ℕ) (hbw : 0 < bw) (A F : Array (Array K)) (b : Array K)
    (h : bandFactorK V bw n A = some F) (i : ℕ) (hi : i < n) :
    ∑ j ∈ range n, bandSym (fun r c => get2K A r c) bw i j * (bandSolveK V bw n F b)[j]! = b[i]! :=
  band_solves' V hV bw n hbw A F F b h (fun _ _ _ _ => rfl) i hi

end exec

/-! ## Part 3: the factorisation succeeds exactly on positive definite matrices -/
section
variable {K : Type} [Field K]

/-- the quadratic form of `M E Mᵀ` is `Σ_k e_k ((Mᵀ x)_k)²` -/
theorem quad_mem (f : ℕ → ℕ → K) (dg e x : ℕ → K) (n bw : ℕ) :
    ∑ i ∈ range n, ∑ j ∈ range n, x i * mem f dg e bw n i j * x j
      = ∑ k ∈ range n, e k * (∑ i ∈ range n, lowM f dg bw i k * x i) ^ 2 := by
  unfold mem
  have h1 : ∀ i j, x i * (∑ k ∈ range n, lowM f dg bw i k * e k * lowM f dg bw j k) * x j
      = ∑ k ∈ range n, e k * ((lowM f dg bw i k * x i) * (lowM f dg bw j k * x j)) := by
    intro i j
    rw [Finset.mul_sum, Finset.sum_mul]
    apply Finset.sum_congr rfl
    intro k _
    ring
  simp_rw [h1]
  have h2 : ∀ i, ∑ j ∈ range n, ∑ k ∈ range n, e k * ((lowM f dg bw i k * x i) * (lowM f dg bw j k * x j))
      = ∑ k ∈ range n, ∑ j ∈ range n, e k * ((lowM f dg bw i k * x i) * (lowM f dg bw j k * x j)) := fun i => Finset.sum_comm
  simp_rw [h2]
  rw [Finset.sum_comm]
  apply Finset.sum_congr rfl
  intro k _
  rw [sq, Finset.sum_mul_sum, Finset.mul_sum]
  apply Finset.sum_congr rfl
  intro i _
  rw [Finset.mul_sum]

/-- a solution of the back-substitution recurrence exists for every right-hand side (non-zero diagonal) -/
theorem bwd_exists [Inhabited K] (f : ℕ → ℕ → K) (dg w : ℕ → K) (n bw : ℕ) :
    ∃ x : ℕ → K, ∀ i, i < n →
      x i = (w i - ∑ t ∈ range (bw - 1), if i + (t + 1) < n then f (t + 1) i * x (i + (t + 1)) else 0) / dg i := by
  let step : Array K → ℕ → K := fun xr ii =>
    (w (n - 1 - ii) - ∑ t ∈ range (bw - 1), if (n - 1 - ii) + (t + 1) < n then f (t + 1) (n - 1 - ii) * xr[ii - (t + 1)]! else 0)
      / dg (n - 1 - ii)
  have hfix : ∀ ii, ii < n → (buildUp step n)[ii]! = step (buildUp step n) ii := by
    intro ii hii
    apply buildUp_fix step _ n ii hii
    intro i p p' h
    show (_ - _) / _ = (_ - _) / _
    congr 2
    apply Finset.sum_congr rfl
    intro t _
    by_cases ht : (n - 1 - i) + (t + 1) < n
    · rw [if_pos ht, if_pos ht, h _ (by omega)]
    · rw [if_neg ht, if_neg ht]
  refine ⟨fun i => (buildUp step n)[n - 1 - i]!, fun i hi => ?_⟩
  show (buildUp step n)[n - 1 - i]! = _
  rw [hfix (n - 1 - i) (by omega)]
  show (_ - _) / _ = (_ - _) / _
  rw [show n - 1 - (n - 1 - i) = i by omega]
  congr 2
  apply Finset.sum_congr rfl
  intro t _
  by_cases ht : i + (t + 1) < n
  · rw [if_pos ht, if_pos ht]
    beta_reduce
    rw [show n - 1 - (i + (t + 1)) = n - 1 - i - (t + 1) by omega]
  · rw [if_neg ht, if_neg ht]
end

section
variable {K : Type} [Field K] [LinearOrder K] [IsStrictOrderedRing K]

theorem last_nonzero (x : ℕ → K) (n : ℕ) (h : ∃ i, i < n ∧ x i ≠ 0) :
    ∃ m, m < n ∧ x m ≠ 0 ∧ ∀ i, m < i → i < n → x i = 0 := by
  induction n with
  | zero => obtain ⟨i, hi, _⟩ := h; omega
  | succ n ih =>
    by_cases hn : x n = 0
    · obtain ⟨i, hi, hxi⟩ := h
      have hi' : i < n := by
        rcases Nat.lt_succ_iff_lt_or_eq.1 hi with h1 | h1
        · exact h1
        · subst h1; exact absurd hn hxi
      obtain ⟨m, hm, hxm, hz⟩ := ih ⟨i, hi', hxi⟩
      refine ⟨m, by omega, hxm, fun j hmj hj => ?_⟩
      rcases Nat.lt_succ_iff_lt_or_eq.1 hj with h1 | h1
      · exact hz j hmj h1
      · subst h1; exact hn
    · exact ⟨n, by omega, hn, fun j h1 h2 => by omega⟩

/-- positive definiteness of the leading `n × n` block of `A` -/
def PosDef (A : ℕ → ℕ → K) (n : ℕ) : Prop :=
  ∀ x : ℕ → K, (∃ i, i < n ∧ x i ≠ 0) → 0 < ∑ i ∈ range n, ∑ j ∈ range n, x i * A i j * x j

theorem PosDef_congr (A A' : ℕ → ℕ → K) (n : ℕ) (h : ∀ i j, i < n → j < n → A i j = A' i j) : PosDef A n ↔ PosDef A' n := by
  have e : ∀ x : ℕ → K, ∑ i ∈ range n, ∑ j ∈ range n, x i * A i j * x j = ∑ i ∈ range n, ∑ j ∈ range n, x i * A' i j * x j := by
    intro x
    apply Finset.sum_congr rfl
    intro i hi
    apply Finset.sum_congr rfl
    intro j hj
    rw [h i j (Finset.mem_range.1 hi) (Finset.mem_range.1 hj)]
  constructor
  · intro hp x hx; rw [← e x]; exact hp x hx
  · intro hp x hx; rw [e x]; exact hp x hx

/-- `M E Mᵀ` with `E > 0` and a non-zero diagonal of `M` is positive definite -/
theorem mem_pos_def (f : ℕ → ℕ → K) (dg e : ℕ → K) (n bw : ℕ) (he : ∀ k, k < n → 0 < e k) (hdg : ∀ k, k < n → dg k ≠ 0) :
    PosDef (mem f dg e bw n) n := by
  intro x hx
  rw [quad_mem]
  obtain ⟨m, hm, hxm, hz⟩ := last_nonzero x n hx
  have hy : ∑ i ∈ range n, lowM f dg bw i m * x i = dg m * x m := by
    rw [Finset.sum_eq_single m]
    · rw [lowM_diag]
    · intro i hi hne
      rw [Finset.mem_range] at hi
      rcases Nat.lt_or_gt_of_ne hne with h | h
      · rw [lowM_upper f dg bw i m h]; ring
      · rw [hz i h hi]; ring
    · intro h; exact absurd (Finset.mem_range.2 hm) h
  have hnn : ∀ k ∈ range n, 0 ≤ e k * (∑ i ∈ range n, lowM f dg bw i k * x i) ^ 2 :=
    fun k hk => mul_nonneg (he k (Finset.mem_range.1 hk)).le (sq_nonneg _)
  apply lt_of_lt_of_le _ (Finset.single_le_sum hnn (Finset.mem_range.2 hm))
  rw [hy]
  have hne : dg m * x m ≠ 0 := mul_ne_zero (hdg m hm) hxm
  exact mul_pos (he m hm) (lt_of_le_of_ne (sq_nonneg _) (pow_ne_zero 2 hne).symm)
end

section exec2
variable {K : Type} [Field K] [LinearOrder K] [IsStrictOrderedRing K] [FloorRing K]
local notation "colEntryK" => @colEntry _ (fieldScalar _)
local notation "factorColsK" => @factorCols _ (fieldScalar _)
local notation "bandFactorK" => @bandFactor _ (fieldScalar _)
local notation "get2K" => @get2 _ (fieldScalar _)
noncomputable local instance instInhabitedK2 : Inhabited K := @PydlVerif.instInhabitedOfScalar K (fieldScalar K)

/-- a factor exists ⇒ the matrix is positive definite -/
theorem bandFactor_pos_def (V : Variant K) (hV : VariantOK V) (bw n : ℕ) (hbw : 0 < bw) (A F : Array (Array K))
    (h : bandFactorK V bw n A = some F) : PosDef (bandSym (fun r c => get2K A r c) bw) n := by
  obtain ⟨hg, hmem⟩ := bandFactor_mem V hV bw n hbw A F h
  have hne : ∀ c, c < n → 0 < V.ew (get2K F 0 c) ∧ V.md (get2K F 0 c) ≠ 0 := by
    intro c hc
    obtain ⟨p, hp, e⟩ := hg c hc
    rw [e]
    have h1 := hV.ew_md p hp
    have h2 := hV.root_md p hp
    have h0 := hV.root_ne p hp
    have hmd : V.md (V.root p) ≠ 0 := by intro hz; rw [hz, mul_zero] at h1; exact h0 h1.symm
    refine ⟨?_, hmd⟩
    -- ew g · md g² = p > 0
    have h3 : V.ew (V.root p) * (V.md (V.root p)) ^ 2 = p := by rw [sq, ← mul_assoc, h1, h2]
    have h4 : 0 < (V.md (V.root p)) ^ 2 := lt_of_le_of_ne (sq_nonneg _) (pow_ne_zero 2 hmd).symm
    by_contra hle
    have : V.ew (V.root p) * (V.md (V.root p)) ^ 2 ≤ 0 := mul_nonpos_of_nonpos_of_nonneg (not_lt.1 hle) h4.le
    rw [h3] at this
    exact absurd hp (not_lt.2 this)
  intro x hx
  have := mem_pos_def (fun r c => get2K F r c) (fun c => V.md (get2K F 0 c)) (fun c => V.ew (get2K F 0 c)) n bw
    (fun k hk => (hne k hk).1) (fun k hk => (hne k hk).2) x hx
  refine lt_of_lt_of_eq this ?_
  apply Finset.sum_congr rfl
  intro i hi
  apply Finset.sum_congr rfl
  intro j hj
  rw [hmem i j (Finset.mem_range.1 hi) (Finset.mem_range.1 hj)]

/-- positive definite ⇒ every pivot is positive, the factorisation succeeds -/
theorem pos_def_bandFactor (V : Variant K) (hV : VariantOK V) (bw n : ℕ) (hbw : 0 < bw) (A : Array (Array K))
    (hpd : PosDef (bandSym (fun r c => get2K A r c) bw) n) : ∃ F, bandFactorK V bw n A = some F := by
  rw [bandFactor_isSome]
  by_contra hneg
  have hex : ∃ c, c < n ∧ ¬ 0 < pivotK V bw n A c := by
    by_contra h; apply hneg; intro c hc; by_contra h2; exact h ⟨c, hc, h2⟩
  classical
  have hc := Nat.find_spec hex
  have hmin := fun k (hk : k < Nat.find hex) => Nat.find_min hex hk
  generalize Nat.find hex = c at hc hmin
  obtain ⟨hcn, hpc⟩ := hc
  have hposk : ∀ k, k < c → 0 < pivotK V bw n A k := by
    intro k hk; by_contra h; exact hmin k hk ⟨by omega, h⟩
  unfold pivotK at hpc hposk
  generalize ha : (fun r c => get2K A r c) = a at hpd hpc hposk
  generalize hcols : factorColsK V bw n a n = cols at hpc hposk
  -- the stored entries of the columns
  let f : ℕ → ℕ → K := fun r k => get2K cols k r
  have E0 : ∀ k, k < n → f 0 k = V.root (colEntryK V bw a cols k 0) := by
    intro k hk
    show get2K cols k 0 = _
    rw [← hcols, factorCols_entry V bw n a k 0 hk hbw, if_pos rfl]
  have E1 : ∀ k r, 1 ≤ r → r < bw → k + r < n → f r k = colEntryK V bw a cols k r / V.root (colEntryK V bw a cols k 0) := by
    intro k r h1 hr hkr
    show get2K cols k r = _
    rw [← hcols, factorCols_entry V bw n a k r (by omega) hr, if_neg (by omega), if_pos hkr]
  have S : ∀ k r, colEntryK V bw a cols k r = a r k - ∑ j ∈ range k,
      (if k + r < j + bw then f (k - j) j * V.ew (f 0 j) * f (k + r - j) j else 0) := fun k r => colEntry_eq V bw a cols k r
  -- the leading (c+1)-block: `M E Mᵀ` with `e_c = p_c` (the failing pivot), `M[c][c] = 1`
  let e' : ℕ → K := fun k => if k = c then colEntryK V bw a cols c 0 else V.ew (f 0 k)
  let dg' : ℕ → K := fun k => if k = c then 1 else V.md (f 0 k)
  have he' : ∀ k, k < c → e' k = V.ew (f 0 k) := fun k hk => if_neg (by omega)
  have hdg' : ∀ k, k < c → dg' k = V.md (f 0 k) := fun k hk => if_neg (by omega)
  have hdiag : ∀ k, k < c + 1 → dg' k * e' k * dg' k = colEntryK V bw a cols k 0 := by
    intro k hk
    by_cases hkc : k = c
    · show (if k = c then 1 else V.md (f 0 k)) * (if k = c then colEntryK V bw a cols c 0 else V.ew (f 0 k))
        * (if k = c then 1 else V.md (f 0 k)) = _
      rw [if_pos hkc, if_pos hkc, hkc]; ring
    · have hk' : k < c := by omega
      rw [he' k hk', hdg' k hk', E0 k (by omega)]
      have hp := hposk k hk'
      rw [mul_comm (V.md _) (V.ew _), hV.ew_md _ hp, hV.root_md _ hp]
  have hmem : ∀ i j, i < c + 1 → j < c + 1 → mem f dg' e' bw (c + 1) i j = bandSym a bw i j := by
    apply factor_dense a f e' dg' (c + 1) bw hbw
    · intro k hk
      have hs := S k 0
      simp only [Nat.add_zero] at hs
      rw [hdiag k hk, hs]
      have : ∑ j ∈ range k, (if k < j + bw then f (k - j) j * e' j * f (k - j) j else 0)
          = ∑ j ∈ range k, (if k < j + bw then f (k - j) j * V.ew (f 0 j) * f (k - j) j else 0) := by
        apply Finset.sum_congr rfl
        intro j hj
        rw [Finset.mem_range] at hj
        rw [he' j (by omega)]
      rw [this]; ring
    · intro k r h1 hr hkr
      have hk' : k < c := by omega
      have hs := S k r
      have hp := hposk k hk'
      have hg := hV.root_ne _ hp
      have : ∑ j ∈ range k, (if k + r < j + bw then f (k - j) j * e' j * f (k + r - j) j else 0)
          = ∑ j ∈ range k, (if k + r < j + bw then f (k - j) j * V.ew (f 0 j) * f (k + r - j) j else 0) := by
        apply Finset.sum_congr rfl
        intro j hj
        rw [Finset.mem_range] at hj
        rw [he' j (by omega)]
      rw [this, he' k hk', hdg' k hk', E1 k r h1 hr (by omega), E0 k (by omega), mul_assoc, hV.ew_md _ hp,
        div_mul_cancel₀ _ hg, hs]
      ring
  have hdgne : ∀ k, k < c + 1 → dg' k ≠ 0 := by
    intro k hk
    by_cases hkc : k = c
    · show (if k = c then (1:K) else V.md (f 0 k)) ≠ 0
      rw [if_pos hkc]; exact one_ne_zero
    · have hk' : k < c := by omega
      rw [hdg' k hk', E0 k (by omega)]
      have hp := hposk k hk'
      have h1 := hV.ew_md _ hp
      intro hz; rw [hz, mul_zero] at h1; exact hV.root_ne _ hp h1.symm
  -- `Mᵀ x = e_c`
  obtain ⟨x, hx⟩ := bwd_exists f dg' (fun k => if k = c then (1:K) else 0) (c + 1) bw
  have Hx : ∀ i, i < c + 1 → x i * dg' i = (fun k => if k = c then (1:K) else 0) i
      - ∑ t ∈ range (bw - 1), if i + (t + 1) < c + 1 then f (t + 1) i * x (i + (t + 1)) else 0 := by
    intro i hi
    rw [hx i hi, div_mul_cancel₀ _ (hdgne i hi)]
  have hLT := bwd_dense f dg' (fun k => if k = c then (1:K) else 0) x (c + 1) bw hbw Hx
  have hxc : x c = 1 := by
    rw [hx c (by omega)]
    have : ∑ t ∈ range (bw - 1), (if c + (t + 1) < c + 1 then f (t + 1) c * x (c + (t + 1)) else 0) = 0 := by
      apply Finset.sum_eq_zero
      intro t _
      rw [if_neg (by omega)]
    rw [this]
    show ((if c = c then (1:K) else 0) - 0) / (if c = c then (1:K) else V.md (f 0 c)) = 1
    rw [if_pos rfl, if_pos rfl]; ring
  -- the quadratic form at `x` (extended by zero) is the failing pivot
  have hq := hpd (fun i => if i < c + 1 then x i else 0) ⟨c, hcn, by
    show (if c < c + 1 then x c else 0) ≠ 0
    rw [if_pos (by omega), hxc]; exact one_ne_zero⟩
  have hsub : range (c + 1) ⊆ range n := by
    intro k hk; rw [Finset.mem_range] at hk ⊢; omega
  have hval : ∑ i ∈ range n, ∑ j ∈ range n, (fun i => if i < c + 1 then x i else 0) i * bandSym a bw i j
      * (fun i => if i < c + 1 then x i else 0) j = colEntryK V bw a cols c 0 := by
    rw [← Finset.sum_subset hsub (fun i _ hi => by
      rw [Finset.mem_range] at hi
      apply Finset.sum_eq_zero
      intro j _
      show (if i < c + 1 then x i else 0) * _ * _ = 0
      rw [if_neg hi]; ring)]
    have h1 : ∀ i ∈ range (c + 1), ∑ j ∈ range n, (fun i => if i < c + 1 then x i else 0) i * bandSym a bw i j
        * (fun i => if i < c + 1 then x i else 0) j = ∑ j ∈ range (c + 1), x i * mem f dg' e' bw (c + 1) i j * x j := by
      intro i hi
      rw [Finset.mem_range] at hi
      rw [← Finset.sum_subset hsub (fun j _ hj => by
        rw [Finset.mem_range] at hj
        show _ * _ * (if j < c + 1 then x j else 0) = 0
        rw [if_neg hj]; ring)]
      apply Finset.sum_congr rfl
      intro j hj
      rw [Finset.mem_range] at hj
      show (if i < c + 1 then x i else 0) * _ * (if j < c + 1 then x j else 0) = _
      rw [if_pos hi, if_pos hj, hmem i j hi hj]
    rw [Finset.sum_congr rfl h1, quad_mem, Finset.sum_eq_single c]
    · rw [hLT c (by omega)]
      show (if c = c then colEntryK V bw a cols c 0 else V.ew (f 0 c)) * (if c = c then (1:K) else 0) ^ 2 = _
      rw [if_pos rfl, if_pos rfl]; ring
    · intro k hk hkc
      rw [Finset.mem_range] at hk
      rw [hLT k hk]
      show _ * (if k = c then (1:K) else 0) ^ 2 = 0
      rw [if_neg hkc]; ring
    · intro h; exact absurd (Finset.mem_range.2 (by omega)) h
  rw [hval] at hq
  exact hpc hq
end exec2

end PydlVerif.BandCholLemmas

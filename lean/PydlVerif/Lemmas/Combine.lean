/-
Helper lemmas for C11 (combine1fiber) at an ordered field: the np.interp walk on two
value lists sharing their abscissae, min / max folds, the bad-region growth and the scrub.
-/
import PydlVerif.Model.Combine
import PydlVerif.Lemmas.ScalarField
import Mathlib.Tactic.Linarith
import Mathlib.Tactic.Ring
import Mathlib.Tactic.FieldSimp
import Mathlib.Tactic.NormNum

namespace PydlVerif.Combine
open PydlVerif PydlVerif.Interp

section field
variable {K : Type} [Field K] [LinearOrder K] [IsStrictOrderedRing K] [FloorRing K]
attribute [local instance] fieldScalar
attribute [-instance] Scalar.instOfNat Scalar.instOfScientific

/-- the interior formula of np.interp -/
def lerp (xa fa xb fb x : K) : K := (fb - fa) / (xb - xa) * (x - xa) + fa

/-- `a`, `b` are neighbours in `l` -/
def Consec {β : Type} (a b : β) (l : List β) : Prop := ∃ pre post, l = pre ++ a :: b :: post

theorem Consec.cons {β : Type} {a b : β} {l : List β} (c : β) (h : Consec a b l) : Consec a b (c :: l) := by
  obtain ⟨pre, post, rfl⟩ := h
  exact ⟨c :: pre, post, rfl⟩

theorem Consec.mem {β : Type} {a b : β} {l : List β} (h : Consec a b l) : a ∈ l ∧ b ∈ l := by
  obtain ⟨pre, post, rfl⟩ := h
  simp

theorem eps_eq : (eps : K) = 1 / 8388608 := by
  have h : (eps : K) = ((1 : ℕ) : K) / ((8388608 : ℕ) : K) := rfl
  rw [h, Nat.cast_one, Nat.cast_ofNat]

theorem eps_pos : (0 : K) < eps := by rw [eps_eq]; norm_num
theorem eps_lt_one : (eps : K) < 1 := by rw [eps_eq]; norm_num

theorem castB_true : (castB true : K) = 1 := by
  have h : (castB true : K) = ((1 : ℕ) : K) := rfl
  rw [h, Nat.cast_one]
theorem castB_false : (castB false : K) = 0 := by
  have h : (castB false : K) = ((0 : ℕ) : K) := rfl
  rw [h, Nat.cast_zero]
theorem castB_nonneg (b : Bool) : (0 : K) ≤ castB b := by
  cases b
  · rw [castB_false]
  · rw [castB_true]; exact zero_le_one

theorem lerp_eq (xa fa xb fb x : K) (h : xa < xb) :
    lerp xa fa xb fb x = (fa * (xb - x) + fb * (x - xa)) / (xb - xa) := by
  have : xb - xa ≠ 0 := ne_of_gt (sub_pos.2 h)
  unfold lerp
  field_simp
  ring

theorem lerp_nonneg (xa fa xb fb x : K) (h1 : xa ≤ x) (h2 : x < xb) (ha : 0 ≤ fa) (hb : 0 ≤ fb) :
    0 ≤ lerp xa fa xb fb x := by
  rw [lerp_eq _ _ _ _ _ (lt_of_le_of_lt h1 h2)]
  apply div_nonneg
  · exact add_nonneg (mul_nonneg ha (by linarith)) (mul_nonneg hb (by linarith))
  · linarith

theorem lerp_le_max (xa fa xb fb x : K) (h1 : xa ≤ x) (h2 : x < xb) :
    lerp xa fa xb fb x ≤ max fa fb := by
  have hlt : xa < xb := lt_of_le_of_lt h1 h2
  rw [lerp_eq _ _ _ _ _ hlt, div_le_iff₀ (sub_pos.2 hlt)]
  have ha : fa * (xb - x) ≤ max fa fb * (xb - x) := mul_le_mul_of_nonneg_right (le_max_left _ _) (by linarith)
  have hb : fb * (x - xa) ≤ max fa fb * (x - xa) := mul_le_mul_of_nonneg_right (le_max_right _ _) (by linarith)
  nlinarith

/-- the np.interp walks over the same abscissae with two value extractors `v`, `w` stop at the
same place: either strictly inside a pair of neighbours (both results are the interpolation
between them) or at a sample (both results are that sample's values) -/
theorem walk2 (v w : Samp K → K) (lam : K) : ∀ (rest : List (Samp K)) (p0 : Samp K), p0.x ≤ lam →
    (∃ a b, Consec a b (p0 :: rest) ∧ a.x < lam ∧ lam < b.x ∧
      interpGo lam p0.x (v p0) (rest.map fun p => (p.x, v p)) = lerp a.x (v a) b.x (v b) lam ∧
      interpGo lam p0.x (w p0) (rest.map fun p => (p.x, w p)) = lerp a.x (w a) b.x (w b) lam) ∨
    (∃ a, a ∈ p0 :: rest ∧ a.x ≤ lam ∧
      (a.x = lam ∨ a = (p0 :: rest).getLast (List.cons_ne_nil _ _)) ∧
      interpGo lam p0.x (v p0) (rest.map fun p => (p.x, v p)) = v a ∧
      interpGo lam p0.x (w p0) (rest.map fun p => (p.x, w p)) = w a) := by
  intro rest
  induction rest with
  | nil =>
    intro p0 h0
    right
    exact ⟨p0, List.mem_singleton.2 rfl, h0, Or.inr rfl, by simp [interpGo], by simp [interpGo]⟩
  | cons p1 rest ih =>
    intro p0 h0
    by_cases hlt : lam < p1.x
    · by_cases heq : p0.x = lam
      · right
        refine ⟨p0, List.mem_cons_self, h0, Or.inl heq, ?_, ?_⟩ <;>
          simp [interpGo, hlt, heq]
      · left
        have hne : Scalar.beq p0.x lam = false := by
          cases hb : Scalar.beq p0.x lam with
          | true => exact absurd ((scalar_beq _ _).1 hb) heq
          | false => rfl
        refine ⟨p0, p1, ⟨[], rest, rfl⟩, lt_of_le_of_ne h0 heq, hlt, ?_, ?_⟩ <;>
          simp [interpGo, hlt, hne, lerp]
    · have h1 : p1.x ≤ lam := not_lt.1 hlt
      rcases ih p1 h1 with ⟨a, b, hc, ha, hb, e1, e2⟩ | ⟨a, hm, ha, hloc, e1, e2⟩
      · left
        refine ⟨a, b, hc.cons p0, ha, hb, ?_, ?_⟩
        · simp only [List.map_cons, interpGo, hlt, if_false]; exact e1
        · simp only [List.map_cons, interpGo, hlt, if_false]; exact e2
      · right
        refine ⟨a, List.mem_cons_of_mem _ hm, ha, ?_, ?_, ?_⟩
        · rcases hloc with h | h
          · exact Or.inl h
          · right; rw [h, List.getLast_cons (List.cons_ne_nil _ _)]
        · simp only [List.map_cons, interpGo, hlt, if_false]; exact e1
        · simp only [List.map_cons, interpGo, hlt, if_false]; exact e2

/-! ## min / max folds -/

theorem lmin_mem (x0 : K) (xs : List K) : lmin x0 xs ∈ x0 :: xs := by
  unfold lmin
  induction xs generalizing x0 with
  | nil => simp
  | cons y ys ih =>
    simp only [List.foldl_cons]
    by_cases h : y < x0
    · simp only [h, if_true]
      have := ih y
      simp only [List.mem_cons] at this ⊢
      rcases this with h | h
      · right; left; exact h
      · right; right; exact h
    · simp only [h, if_false]
      have := ih x0
      simp only [List.mem_cons] at this ⊢
      rcases this with h | h
      · left; exact h
      · right; right; exact h

theorem lmax_mem (x0 : K) (xs : List K) : lmax x0 xs ∈ x0 :: xs := by
  unfold lmax
  induction xs generalizing x0 with
  | nil => simp
  | cons y ys ih =>
    simp only [List.foldl_cons]
    by_cases h : x0 < y
    · simp only [h, if_true]
      have := ih y
      simp only [List.mem_cons] at this ⊢
      rcases this with h | h
      · right; left; exact h
      · right; right; exact h
    · simp only [h, if_false]
      have := ih x0
      simp only [List.mem_cons] at this ⊢
      rcases this with h | h
      · left; exact h
      · right; right; exact h


/-! ## one spectrum's contribution -/

/-- `objivar*fullcombmask` and `fullcombmask` of one sample -/
noncomputable def vI (p : Samp K) : K := p.iv * castB p.keep
noncomputable def vM (p : Samp K) : K := castB p.keep

theorem interpL_iv (p0 : Samp K) (rest : List (Samp K)) (lam : K) :
    interpL (ivPts (p0 :: rest)) lam = npInterp p0.x (vI p0) (rest.map fun p => (p.x, vI p)) lam := rfl
theorem interpL_mk (p0 : Samp K) (rest : List (Samp K)) (lam : K) :
    interpL (mkPts (p0 :: rest)) lam = npInterp p0.x (vM p0) (rest.map fun p => (p.x, vM p)) lam := rfl

/-- the two interpolations of `contrib`, located: strictly inside a pair of neighbours, or
at a sample which is exactly at `lam`, or the first sample (`lam` left of it) or the last
sample (`lam` right of it) -/
theorem interp2 (p0 : Samp K) (rest : List (Samp K)) (lam : K) :
    (∃ a b, Consec a b (p0 :: rest) ∧ a.x < lam ∧ lam < b.x ∧
      interpL (ivPts (p0 :: rest)) lam = lerp a.x (vI a) b.x (vI b) lam ∧
      interpL (mkPts (p0 :: rest)) lam = lerp a.x (vM a) b.x (vM b) lam) ∨
    (∃ a, a ∈ p0 :: rest ∧
      (a.x = lam ∨ (a = p0 ∧ lam < p0.x) ∨ (a = (p0 :: rest).getLast (List.cons_ne_nil _ _) ∧ a.x ≤ lam)) ∧
      interpL (ivPts (p0 :: rest)) lam = vI a ∧ interpL (mkPts (p0 :: rest)) lam = vM a) := by
  rw [interpL_iv, interpL_mk]
  unfold npInterp
  by_cases h : lam < p0.x
  · right
    exact ⟨p0, List.mem_cons_self, Or.inr (Or.inl ⟨rfl, h⟩), by simp [h], by simp [h]⟩
  · simp only [h, if_false]
    rcases walk2 vI vM lam rest p0 (not_lt.1 h) with ⟨a, b, hc, ha, hb, e1, e2⟩ | ⟨a, hm, ha, hloc, e1, e2⟩
    · left; exact ⟨a, b, hc, ha, hb, e1, e2⟩
    · right
      refine ⟨a, hm, ?_, e1, e2⟩
      rcases hloc with h | h
      · exact Or.inl h
      · exact Or.inr (Or.inr ⟨h, ha⟩)

theorem vI_nonneg (p : Samp K) (h : 0 ≤ p.iv) : 0 ≤ vI p := mul_nonneg h (castB_nonneg _)

theorem contrib_some (p0 : Samp K) (rest : List (Samp K)) (lam : K) (nm : Bool) (c : K)
    (h : contrib (p0 :: rest) lam nm = some c) :
    lmin p0.x (rest.map (·.x)) ≤ lam ∧ lam ≤ lmax p0.x (rest.map (·.x)) ∧
    c = interpL (ivPts (p0 :: rest)) lam * castB (decide (1 - eps ≤ interpL (mkPts (p0 :: rest)) lam)) * castB nm := by
  unfold contrib at h
  simp only at h
  split at h
  · rename_i hg
    have e := (Option.some.inj h).symm
    simp only [scalar_lit, Nat.cast_one] at e
    exact ⟨hg.1, hg.2, e⟩
  · exact absurd h (by simp)

/-- **every contribution is ≥ 0** -/
theorem contrib_nonneg' (s : List (Samp K)) (lam : K) (nm : Bool) (c : K)
    (hiv : ∀ a ∈ s, 0 ≤ a.iv) (h : contrib s lam nm = some c) : 0 ≤ c := by
  cases s with
  | nil => simp [contrib] at h
  | cons p0 rest =>
    obtain ⟨_, _, rfl⟩ := contrib_some p0 rest lam nm c h
    apply mul_nonneg (mul_nonneg _ (castB_nonneg _)) (castB_nonneg _)
    rcases interp2 p0 rest lam with ⟨a, b, hc, ha, hb, e1, _⟩ | ⟨a, hm, _, e1, _⟩
    · rw [e1]
      exact lerp_nonneg _ _ _ _ _ (le_of_lt ha) hb (vI_nonneg a (hiv a hc.mem.1)) (vI_nonneg b (hiv b hc.mem.2))
    · rw [e1]; exact vI_nonneg a (hiv a hm)

/-- the ends of a spectrum: first sample leftmost, last sample rightmost (true for increasing wavelengths) -/
def Ends (p0 : Samp K) (rest : List (Samp K)) : Prop :=
  (∀ a ∈ p0 :: rest, p0.x ≤ a.x) ∧ (∀ a ∈ p0 :: rest, a.x ≤ ((p0 :: rest).getLast (List.cons_ne_nil _ _)).x)

theorem lmin_ge_first (p0 : Samp K) (rest : List (Samp K)) (h : Ends p0 rest) :
    p0.x ≤ lmin p0.x (rest.map (·.x)) := by
  have hm := lmin_mem p0.x (rest.map (·.x))
  have : lmin p0.x (rest.map (·.x)) ∈ (p0 :: rest).map (·.x) := by simpa using hm
  obtain ⟨a, ha, e⟩ := List.mem_map.1 this
  rw [← e]; exact h.1 a ha

theorem lmax_le_last (p0 : Samp K) (rest : List (Samp K)) (h : Ends p0 rest) :
    lmax p0.x (rest.map (·.x)) ≤ ((p0 :: rest).getLast (List.cons_ne_nil _ _)).x := by
  have hm := lmax_mem p0.x (rest.map (·.x))
  have : lmax p0.x (rest.map (·.x)) ∈ (p0 :: rest).map (·.x) := by simpa using hm
  obtain ⟨a, ha, e⟩ := List.mem_map.1 this
  rw [← e]; exact h.2 a ha

/-- a contribution, located (spectrum with `Ends`): strictly between two neighbours, or exactly at a sample -/
theorem contrib_cases (p0 : Samp K) (rest : List (Samp K)) (hE : Ends p0 rest) (lam : K) (nm : Bool) (c : K)
    (h : contrib (p0 :: rest) lam nm = some c) :
    (∃ a b, Consec a b (p0 :: rest) ∧ a.x < lam ∧ lam < b.x ∧
      c = lerp a.x (vI a) b.x (vI b) lam * castB (decide (1 - eps ≤ lerp a.x (vM a) b.x (vM b) lam)) * castB nm) ∨
    (∃ a, a ∈ p0 :: rest ∧ a.x = lam ∧ c = vI a * castB (decide (1 - eps ≤ vM a)) * castB nm) := by
  obtain ⟨h1, h2, rfl⟩ := contrib_some p0 rest lam nm c h
  rcases interp2 p0 rest lam with ⟨a, b, hc, ha, hb, e1, e2⟩ | ⟨a, hm, hloc, e1, e2⟩
  · left; exact ⟨a, b, hc, ha, hb, by rw [e1, e2]⟩
  · right
    refine ⟨a, hm, ?_, by rw [e1, e2]⟩
    rcases hloc with h | ⟨_, h⟩ | ⟨rfl, h⟩
    · exact h
    · exact absurd (le_trans (lmin_ge_first p0 rest hE) h1) (not_le.2 h)
    · exact le_antisymm h (le_trans h2 (lmax_le_last p0 rest hE))

theorem lerp_const (xa xb f x : K) : lerp xa f xb f x = f := by simp [lerp]

theorem lerp_10 (xa xb x : K) (h : xa < xb) : lerp xa 1 xb 0 x = 1 - (x - xa) / (xb - xa) := by
  have : xb - xa ≠ 0 := ne_of_gt (sub_pos.2 h)
  unfold lerp; field_simp; ring

theorem lerp_01 (xa xb x : K) (h : xa < xb) : lerp xa 0 xb 1 x = 1 - (xb - x) / (xb - xa) := by
  have : xb - xa ≠ 0 := ne_of_gt (sub_pos.2 h)
  unfold lerp; field_simp; ring

/-- **a non-zero contribution, fully described**: the output pixel's `newmask` is set and either
`lam` lies strictly between two neighbouring samples that are both kept (then the value is the linear
interpolation of their inverse variances), or one of them is kept and `lam` is within the fraction
`EPS = 2⁻²³` of the gap from it (the code's slack: value = interpolation towards 0), or `lam` is exactly
at a kept sample (value = its inverse variance) -/
theorem contrib_nonzero (p0 : Samp K) (rest : List (Samp K)) (hE : Ends p0 rest) (lam : K) (nm : Bool) (c : K)
    (h : contrib (p0 :: rest) lam nm = some c) (hc : c ≠ 0) :
    nm = true ∧
    ((∃ a b, Consec a b (p0 :: rest) ∧ a.x < lam ∧ lam < b.x ∧
        ((a.keep = true ∧ b.keep = true ∧ c = lerp a.x a.iv b.x b.iv lam) ∨
         (a.keep = true ∧ b.keep = false ∧ (lam - a.x) / (b.x - a.x) ≤ eps ∧ c = lerp a.x a.iv b.x 0 lam) ∨
         (a.keep = false ∧ b.keep = true ∧ (b.x - lam) / (b.x - a.x) ≤ eps ∧ c = lerp a.x 0 b.x b.iv lam))) ∨
     (∃ a, a ∈ p0 :: rest ∧ a.x = lam ∧ a.keep = true ∧ c = a.iv)) := by
  have hnm : nm = true := by
    cases nm with
    | true => rfl
    | false =>
      exfalso; apply hc
      rcases contrib_cases p0 rest hE lam false c h with ⟨_, _, _, _, _, e⟩ | ⟨_, _, _, e⟩ <;>
        (rw [e, castB_false, mul_zero])
  subst hnm
  refine ⟨rfl, ?_⟩
  rcases contrib_cases p0 rest hE lam true c h with ⟨a, b, hcs, ha, hb, e⟩ | ⟨a, hm, hx, e⟩
  · left
    refine ⟨a, b, hcs, ha, hb, ?_⟩
    have hab : a.x < b.x := lt_trans ha hb
    rw [castB_true, mul_one] at e
    cases hka : a.keep <;> cases hkb : b.keep
    · exfalso; apply hc
      simp only [vM, hka, hkb, castB_false, lerp_const] at e
      have : ¬ (1 - eps ≤ (0 : K)) := by have := eps_lt_one (K := K); intro h; linarith
      simp only [this, decide_false, castB_false, mul_zero] at e
      exact e
    · right; right
      simp only [vM, vI, hka, hkb, castB_false, castB_true, mul_zero, mul_one, lerp_01 _ _ _ hab] at e
      by_cases hd : (1 - eps ≤ 1 - (b.x - lam) / (b.x - a.x))
      · simp only [hd, decide_true, castB_true, mul_one] at e
        exact ⟨rfl, rfl, by linarith, e⟩
      · simp only [hd, decide_false, castB_false, mul_zero] at e
        exact absurd e hc
    · right; left
      simp only [vM, vI, hka, hkb, castB_false, castB_true, mul_zero, mul_one, lerp_10 _ _ _ hab] at e
      by_cases hd : (1 - eps ≤ 1 - (lam - a.x) / (b.x - a.x))
      · simp only [hd, decide_true, castB_true, mul_one] at e
        exact ⟨rfl, rfl, by linarith, e⟩
      · simp only [hd, decide_false, castB_false, mul_zero] at e
        exact absurd e hc
    · left
      simp only [vM, vI, hka, hkb, castB_true, mul_one, lerp_const] at e
      have : (1 - eps ≤ (1 : K)) := by have := eps_pos (K := K); linarith
      simp only [this, decide_true, castB_true, mul_one] at e
      exact ⟨rfl, rfl, e⟩
  · right
    refine ⟨a, hm, hx, ?_⟩
    rw [castB_true, mul_one] at e
    cases hka : a.keep
    · exfalso; apply hc
      simp only [vI, hka, castB_false, mul_zero, zero_mul] at e
      exact e
    · simp only [vI, vM, hka, castB_true, mul_one] at e
      have : (1 - eps ≤ (1 : K)) := by have := eps_pos (K := K); linarith
      simp only [this, decide_true, castB_true, mul_one] at e
      exact ⟨rfl, e⟩

/-! ## adding up the spectra -/

theorem rawIvarAt_foldl_nonneg (specs : List (List (Samp K))) (lam : K) (nm : Bool)
    (hiv : ∀ s ∈ specs, ∀ a ∈ s, 0 ≤ a.iv) (acc : K) (hacc : 0 ≤ acc) :
    0 ≤ specs.foldl (fun acc s => match contrib s lam nm with | some c => acc + c | none => acc) acc := by
  induction specs generalizing acc with
  | nil => simpa
  | cons s specs ih =>
    simp only [List.foldl_cons]
    apply ih (fun s' hs' => hiv s' (List.mem_cons_of_mem _ hs'))
    cases hcs : contrib s lam nm with
    | none => simpa
    | some c =>
      simp only
      exact add_nonneg hacc (contrib_nonneg' s lam nm c (hiv s List.mem_cons_self) hcs)

theorem rawIvarAt_foldl_zero (specs : List (List (Samp K))) (lam : K) (nm : Bool)
    (hz : ∀ s ∈ specs, ∀ c, contrib s lam nm = some c → c = 0) (acc : K) :
    specs.foldl (fun acc s => match contrib s lam nm with | some c => acc + c | none => acc) acc = acc := by
  induction specs generalizing acc with
  | nil => rfl
  | cons s specs ih =>
    simp only [List.foldl_cons]
    rw [ih (fun s' hs' => hz s' (List.mem_cons_of_mem _ hs'))]
    cases hcs : contrib s lam nm with
    | none => rfl
    | some c => simp only; rw [hz s List.mem_cons_self c hcs, add_zero]

/-! ## bad-region growth and scrub -/

theorem growBad_length (a : List K) : (growBad a).length = a.length := by simp [growBad]

theorem growBad_get (a : List K) (p : Nat) (hp : p < a.length) :
    (growBad a)[p]'(by rw [growBad_length]; exact hp) = 0 ∨
    (growBad a)[p]'(by rw [growBad_length]; exact hp) = a[p] := by
  unfold growBad
  simp only [List.getElem_map, List.getElem_range]
  split
  · left
    show ((0 : ℕ) : K) = 0
    exact Nat.cast_zero
  · right; simp [List.getD, hp]

theorem scrub_length (classify : K → Val K) (f v : List K) :
    (scrub classify f v).length = min f.length v.length := by simp [scrub]

end field
end PydlVerif.Combine
